#!/usr/bin/env python3
"""Regenerates /verif/MANIFEST.json from lib/props.py (single source of truth)."""
import json, os, sys
VERIF = os.path.dirname(os.path.dirname(os.path.abspath(__file__)))
sys.path.insert(0, os.path.join(VERIF, "lib"))
from props import PROPS, TEXT

ENGINES = [
    {"name": "seqx", "path": "harness/common/verif.h", "serves_properties": [],
     "kind_free_text": "bounded-exhaustive enumeration of input sequences / complete finite domains executed on the real headers in forked workers; reference-oracle comparison per case"},
    {"name": "histx", "path": "harness/common/histx.h", "serves_properties": [],
     "kind_free_text": "explicit-state breadth-first search over operation histories on real objects with a tracking allocator; canonical concrete state, invariants in every state, allocation-fault enumeration"},
    {"name": "schedx", "path": "engine/sched", "serves_properties": [],
     "kind_free_text": "controlled scheduler + access-level conflict detection over compiler-instrumented thread bodies; exhaustive operation-level interleavings, preemption-bounded DFS"},
]

READY = set(open(os.path.join(VERIF, "lib", "ready.txt")).read().split())


def main():
    allp = [json.loads(l) for l in open(os.path.join(VERIF, "properties.jsonl"))]
    checks, na = [], []
    for p in allp:
        pid = p["id"]
        if pid in PROPS and pid in TEXT and pid in READY:
            t = TEXT[pid]
            for e in ENGINES:
                if e["name"] == t["engine"]:
                    e["serves_properties"].append(pid)
            checks.append({
                "property_id": pid,
                "quick_cmd": "bin/check %s --tier quick" % pid,
                "thorough_cmd": "bin/check %s --tier thorough" % pid,
                "evidence_file": "/verif/evidence/%s.json" % pid,
                "replay_cmd_template": "bin/check %s --replay {path}" % pid,
                "engine": t["engine"],
                "level_claimed": {"category": PROPS[pid]["level"], "text": t["level_text"], "design_ref": t.get("design_ref", "DESIGN.md section 5, " + pid)},
                "level_note": t["level_note"],
                "technique": t["technique"],
            })
        else:
            na.append({"property_id": pid, "reason": "check not built yet in this round (planned engine in DESIGN.md section 5); not claimed until its quick and thorough tiers have run end-to-end"})
    m = {
        "version": 1,
        "setup_cmd": "bin/setup",
        "hooks": {
            "guard": "ST_VERIF",
            "enable": "no source hooks: harnesses include /repo/include directly; private state via -fno-access-control, abort()/operator new/libc interposed in the harness executable",
            "baseline_off_cmd": "cmake --build /repo/_build --target st_gtests && cd /repo/_build/test && ./st_gtests",
            "source_commits": [],
            "add_only": True,
        },
        "engines": [e for e in ENGINES if e["serves_properties"]],
        "checks": checks,
        "not_applicable": na,
        "notes": "All checks are bounded-exhaustive explorations of the real headers (model-checking family). known_findings.json lists recorded genuine defects (KNOWN-FINDING lines) and repaired ones (fixed: entries). See DESIGN.md.",
    }
    with open(os.path.join(VERIF, "MANIFEST.json"), "w") as f:
        json.dump(m, f, indent=1)
    print("MANIFEST.json: %d checks, %d not_applicable" % (len(checks), len(na)))

main()
