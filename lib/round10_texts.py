#!/usr/bin/env python3
"""One-shot helper: append the round-10 stage descriptions to the quick-tier bounds text of each property definition."""
import re, sys, os

T = {
 "C01": "Round 10: every Unicode scalar value as a character operand of operator+ and operator+= (wchar_t and char32_t over the whole range, char16_t over the BMP; the character on the left and on the right), result units against the reference encoder.",
 "C02": "Round 10: ST::string::fill(n, byte) for all 256 byte values and six lengths, accept / reject against the reference validator.",
 "C04": "Round 10: char_buffer and string arguments passed as non-const lvalues to set_validated, set, operator=, from_validated and the constructor keep their value and their storage.",
 "C05": "Round 10: the (pointer, size) constructor is given a slice of a larger array that is followed by non-zero elements.",
 "C06": "Round 10: comparisons derived by the standard library (std::pair, std::tuple, std::vector of strings and of buffers; all ordered pairs over {a, NUL, b, 0x80}^<=3) agree with compare(); to_upper / to_lower called on temporaries, on moved objects and chained.",
 "C07": "Round 10: case-insensitive search with every (haystack byte, needle byte) pair behind each of the lead bytes C3, C2, E2 and behind 'a'.",
 "C08": "Round 10: substr / left / right called on temporaries and on objects given up with std::move, over the full (start, count) grid.",
 "C09": "Round 10: every replace overload is called on a const subject and on a non-const copy; results equal, subject unchanged.",
 "C11": "Round 10: a user-defined type formatted by value and named by several fields; null and empty views of every character width with a field width; leading zeros in argument references, widths and precisions.",
 "C12": "Round 10: the public uint_formatter used as an object placed in 0x77-filled storage, text() read as a C string.",
 "C13": "Round 10: a bare '.' precision ({.f}, {.e}, {.}, {8.f}, {+.f} ...) for five values as float and double against printf(\"%.f\").",
 "C15": "Round 10: both decoders, all three call forms, given char[12] / char[64] arrays larger than their text.",
 "C16": "Round 10: a text beginning and ending with U+FEFF and holding U+FFFE, U+2028, U+FFFF, U+10FFFF and U+0085 through nine text overloads; -nan, +nan and -inf through the floating-point overloads.",
 "C18": "Round 10: same-kind surrogate pairs (D800 D800, DC00 DC00, DBFF D800, DC00 DFFF) in the failing UTF-16 data.",
 "C20": "Round 10: one hash / hash_i / less_i / equal_i function object shared by all threads with per-thread keys of 70..200 bytes.",
}

root = os.path.join(os.path.dirname(os.path.abspath(__file__)), "propdefs")
for pid, text in T.items():
    p = os.path.join(root, pid + ".py")
    s = open(p).read()
    if "Round 10:" in s:
        print(pid, "already has it"); continue
    esc = text.replace("\\", "\\\\").replace('"', '\\"')
    new, n = re.subn(r'",\n(\s*)"thorough"', lambda m: ' ' + esc + '",\n' + m.group(1) + '"thorough"', s, count=1)
    if n != 1:
        print(pid, "PATTERN NOT FOUND"); sys.exit(1)
    open(p, "w").write(new)
    print(pid, "ok")
