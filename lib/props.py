"""Per-property build/run table used by lib/vdriver.py.  One file per property under
lib/propdefs/CNN.py; each calls prop(...) and sets TEXT[...] (see C14.py)."""
import glob
import os


def V(name, flags=(), args=()):
    return {"name": name, "flags": list(flags), "args": list(args)}


PLAIN = [V("plain")]
PLAIN_ASAN = [V("plain"), V("asan")]
UBSAN = [V("ubsan")]
UBSAN_ASAN = [V("ubsan"), V("asan")]

PROPS = {}
TEXT = {}


def prop(pid, src, quick, thorough, level="model_checking", **kw):
    PROPS[pid] = dict(src=src, variants={"quick": quick, "thorough": thorough}, level=level, **kw)


_here = os.path.dirname(os.path.abspath(__file__))
for _f in sorted(glob.glob(os.path.join(_here, "propdefs", "C*.py"))):
    exec(compile(open(_f).read(), _f, "exec"), globals())
