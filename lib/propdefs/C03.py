prop("C03", "c03.cpp", [V("plain"), V("asan+reduced", flags=["-DVF_C03_REDUCED"])], PLAIN_ASAN,
     explain="every unit sequence over class-boundary alphabets, bare and behind a heap-forcing prefix, every truncation of well-formed text, empty and null inputs, through every conversion in every mode; outcome class, size vs reference size, terminator, allocator canaries, fill-pattern independence, guard-page over-read detection",
     bounds={"quick": "A8^<=4, A16^<=4, A32^<=4 all routes bare + prefixed; A8^5, A16^5 primary routes; all 256^2 byte pairs; all 16-bit units in 3 contexts; all truncations of all encodings of B^<=3; (nullptr,0); position sweep to 300 units (Latin-1 sources included); the 16-bit wchar_t template variants; static-initialisation battery; position x alignment stage; process-locale battery; process-exit battery",
             "thorough": "^<=5 all routes bare + prefixed, A8^6, core^8, A16^6, truncations of B^<=4; plain and ASan+UBSan"},
     deadline={"quick": 600, "thorough": 3300})

TEXT["C03"] = dict(
    engine="seqx",
    technique="bounded-exhaustive enumeration of unit sequences (all sequences up to length 4-8 over class-boundary alphabets, complete pair/unit sweeps, every truncation point) executed on the real headers with guard-page inputs, canaried allocator and dual fill patterns",
    level_text="Every enumerated input is converted by every route in every mode; the outcome must be a buffer or ST::unicode_error (assertion aborts are captured and classified), the size must equal the reference transcoding's size for that mode, data()[size()] must be NUL, no allocator event (canary damage, double/foreign free) may occur, results computed under two different allocator fill patterns must be identical (an unwritten unit differs), and any read one unit past the input faults on a PROT_NONE page. The thorough tier repeats everything under ASan+UBSan.",
    level_note="Reads before the input and writes outside in-object results are visible only in the ASan tier; inputs are bounded by the stated lengths (the 256 Mi-unit contract limit is not approached); wchar_t is 32-bit here.")
