prop("C05", "c05.cpp", PLAIN, PLAIN_ASAN,
     explain="explicit-state breadth-first search over operation histories on real ST::buffer<T> objects to a fixpoint of canonical concrete states, invariants and per-transition value oracle in every state",
     bounds={"quick": "4 element types x pool of 2 slots, 6 length classes x 2 content variants + fill values, all constructors/assignments/allocate/clear/destroy, searched to fixpoint",
             "thorough": "same 2-slot fixpoints plus 4 element types x pool of 3 slots over the reduced length alphabet {1, limit} to fixpoint; plain and ASan+UBSan"},
     deadline={"quick": 600, "thorough": 3000})

TEXT["C05"] = dict(
    engine="histx",
    technique="explicit-state model checking of the implementation: breadth-first search over operation histories replayed on real buffer objects, canonical-state hashing, run to a fixpoint (all reachable states), invariant + value oracle on every transition",
    level_text="For each element type every reachable concrete state of a pool of buffers (object bytes, owned heap contents, pointer ownership facts from a tracking allocator) is enumerated by BFS until no new state appears; on every transition all live objects must be valid and exclusively owning (in-object iff short, otherwise a live new[] block of sufficient size referenced by nobody else), keep the terminator, hold exactly the value the operation gives them, no block may leak or be freed twice, and objects not targeted must be bitwise unchanged; every new state is additionally read through the whole const API. Because the search closes, this covers all histories over the value alphabet, including moved-from objects, self-assignment and assign-after-clear.",
    level_note="Sound for the chosen value alphabet (lengths around the small-buffer limit); relies on buffers not inspecting numeric addresses (argued in DESIGN.md 3.2); pool of 2 slots (full alphabet) in quick, additionally 3 slots (reduced alphabet) in thorough; ASan+UBSan in thorough.")
