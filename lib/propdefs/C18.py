prop("C18", "c18.cpp", PLAIN, PLAIN_ASAN,
     explain="explicit-state BFS over mutator histories on two real ST::string objects; in every reachable state every throwing entry point is attempted with every kind of invalid data on every live string and must be an identity transition on the concrete state",
     bounds={"quick": "8 initial values (sizes 0,1,4,15,16,17,24,40 incl. non-Latin-1 text) x mutator histories of depth 3 x ~500 failing calls per live string (9 malformed UTF-8, 5 UTF-16, 4 UTF-32/wchar_t inputs, 3 invalid code points, 10 bad format calls, 11 bad hex/base64 texts and Latin-1 overflow into 3 target pre-states, stream insertion/extraction)",
             "thorough": "depth 4; plain and ASan+UBSan"},
     deadline={"quick": 600, "thorough": 3300})

TEXT["C18"] = dict(
    engine="histx",
    technique="explicit-state model checking of the implementation: depth-bounded breadth-first search over operation histories on real ST::string objects; in every state a complete battery of failing calls is executed and checked to be an identity transition on the canonical concrete state (fault-free strong exception guarantee)",
    level_text="For every state reachable by mutator histories (targets short, exactly at the small-string limit, long, moved-from, cleared, reassigned) and every live string, each constructor / assignment / set / += / concatenation / from_* / replace / stream / decode / format entry point is fed each kind of invalid data; when the call throws, the exception type must be the documented one, both strings must be bitwise identical to before (bytes, size, data pointer, heap contents), an rvalue char_buffer argument must still hold its bytes in its own storage, local target buffers / streams / std::strings must be unchanged, and the tracking allocator must show no leak, double free or canary damage. Identity of the post-failure state with the pre-failure state makes every continuation of the failed call one the exploration visits anyway.",
    level_note="Depth-bounded (3 quick, 4 thorough); which inputs must throw is decided by C02/C10/C15, not here; allocation failure is C19; ASan+UBSan in thorough.")
