prop("C14", "c14.cpp", [V("plain"), V("asan+reduced", flags=["-DVF_REDUCED"])], PLAIN_ASAN,
     explain="complete sweep of every 3-/2-/1-byte group through the real encoders/decoders against an arithmetic reference",
     bounds={"quick": "all 2^24 groups, all 2^16+2^8 tails (alone and after a full group), lengths 0..64 x 256 contents, all 2^16 hex pairs; static-initialisation battery (a battery over every operation family run from the constructor of a global object initialised before anything the library headers define, compared with main()); 16 start alignments of the source array and of the caller's output buffer x 92 lengths; caller's buffer directly before / after the text's heap block (12 sizes x 2 codecs); hex_encode / base64_encode of 2^31+64 bytes with the result block sharing a 16 MiB window of real memory; reduced ASan+UBSan variant; process-locale battery",
             "thorough": "same sweeps plain and under ASan+UBSan, lengths 0..200"})

TEXT["C14"] = dict(
    engine="seqx",
    technique="bounded-exhaustive enumeration: complete sweep of all 2^24 3-byte groups, all tails, all hex pairs, through the real codecs vs an arithmetic reference",
    level_text="Every 3-byte group, every 2-/1-byte tail (alone and after a full group) and every 2-byte hex array is encoded and decoded by the real code through every overload and compared with an independent reference that is itself checked against CPython's binascii; longer arrays are covered by a length x content sweep across the SSO limit. This is a complete enumeration of the codec's per-group behaviour, which is all the group loop can depend on.",
    level_note="Trusts the harness reference (validated by CRC against CPython binascii over the complete domains) and the locality of the 3-byte group loop for arrays longer than the sweep; compiler g++ 12 -O1, ASan+UBSan build in the thorough tier.")
