# Stages / alphabets added after the first build (rounds 2 and 3 of the seeded-change exercise, DESIGN.md 11.5).
# Executed after the per-property files (glob order): appends to their texts so that MANIFEST.json and the evidence
# describe what the harnesses enumerate today.
_ADD = {
    "C03": ("; uniform inputs of up to 256 Mi - 1 units at the sizes where the result reaches 256 MiB / 256 Mi units (6 conversions quick, 15 thorough)",
            " Very large inputs (up to the 256 Mi-unit limit the statement names) are represented by uniform inputs placed where the result crosses 256 MiB and at the largest legal input of each width; their results are compared with the reference at 4,096 sample positions and both ends."),
    "C04": ("; mutators whose argument is a raw pointer / view into the target's own storage; one value with an embedded NUL; every formatting / streaming entry point also with the string as a non-const lvalue (incl. the _stfmt literal)",
            " Arguments that alias the target (s = s.c_str(), s.set(s.view(k)), s += s.c_str()) are mutators of the explored world, the value alphabet holds a string with an embedded NUL, and the const battery repeats every formatting / streaming / concatenation call with the string passed as a non-const lvalue, so a forwarding reference that moves from its argument is a reported mutation."),
    "C05": ("; fill constructor and allocate(n, fill) also with the zero unit as fill; constructor values carry an embedded zero unit; 32 fence bytes around every object",
            " Values include zero-filled contents and contents with an embedded zero unit followed by non-zero units; every object sits between fence bytes that are checked after every transition and read."),
    "C06": ("; aliased operands: every string over A14^<=3 (and long ones) against itself, against its own c_str(), and every pair of windows of one buffer through the static compare, for all four element types",
            " Operands that share storage (the same object, an object and its own c_str(), two windows of one buffer) are enumerated separately: the order may depend on contents only."),
    "C09": ("; periodic subjects of every length 0..1,100 (4,200 thorough) x 3 separators x 2 limits / 3 patterns x 3 replacements / tokenize",
            " Long subjects of every length up to the bound (periodic content) carry the pieces and the replacement text across the 256-byte buffer they are assembled in and its doublings."),
    "C10": ("; 12 argument lists / sinks (format, format_latin_1, writef to wchar_t and char16_t streams, printf to a FILE*); floating-point field with every precision 0..140 (400 thorough) x 4 notations x 3 widths x 6 values x 3 sinks; width sweep 1..1,100 (4,300 thorough) x 9 pad/alignment forms; every well-formed field also with unterminated string_view arguments of all five widths placed against a guard page; a reduced ASan+UBSan build runs in the quick tier too",
            " Long renderings are enumerated as well: every precision up to the bound for tiny, huge, infinite and subnormal doubles, every minimum width up to the bound (so the assembled text takes every length across the writer's 256-byte in-object buffer and its doublings), and string_view arguments whose storage ends unterminated at a PROT_NONE page. The quick tier also runs a reduced-length ASan+UBSan build, so a use-after-free or an in-object overrun is reported there and not only in the thorough tier."),
    "C11": ("; text values with embedded NUL for every length-carrying argument type, string_view arguments as windows into longer storage; fields naming two different pad items (63,360 cases) checked against the set of admissible readings; width sweep 1..600 (2,100 thorough) x 27 forms x 5 values",
            " A field that names two different pad items must equal the specified rendering with one of the two removed (whichever wins, the pad character and its placement are those of one item); length-carrying text arguments include values with an embedded NUL and views that are windows into longer storage; a width sweep carries the output across 256 / 512 / 1,024 / 2,048 bytes."),
    "C12": ("; every parse also with a conversion_result object that already holds the flags of an earlier full match and of an earlier failure; string_stream insertion with the stream holding 255, 256, 257, 511, 512 bytes",
            " Result objects are reused (after a full match and after a failure) and stream insertion is repeated with the stream exactly at and next to its capacity boundaries."),
    "C13": ("; to_double / to_float also with reused conversion_result objects",
            " Result objects are reused after a full match and after a failure."),
    "C14": ("; every length 65..1,100 (4,200 thorough) x 3 (8) contents for both codecs; caller-buffer decodes repeated with capacities d+1, d+16, 2^31, 2^32, 2^63-1, 2^63, SIZE_MAX; encoder inputs end at a PROT_NONE page",
            " Long arrays of every length up to the bound cross the library's internal buffer sizes; the caller-buffer decoders are given every larger capacity up to SIZE_MAX; the arrays handed to the (pointer, size) encoders end at a guard page, so the encoder cannot look at data[n]."),
    "C15": ("; capacities 2^31-1, 2^31, 2^32, 2^63-1, 2^63, SIZE_MAX over a real block of d+64 bytes",
            " Capacities up to SIZE_MAX are included: \"would not fit\" can never be the answer there and still nothing beyond the decoded length may be written."),
    "C16": ("; overload mode: STL strings / views of every width with an embedded zero unit, and append() whose source is the stream's own buffer (whole, tail, head); 32 fence bytes around every stream object",
            " Length-carrying arguments with an embedded zero unit and appends whose source lies inside the stream's own buffer are part of the overload alphabet; every stream object sits between fence bytes checked after every transition and every read (raw_buffer(), to_string())."),
    "C17": ("; a 2-/3-/4-byte character at every byte offset 0..4,200 (17,000 thorough) of a long text, as string argument and as literal, through all sinks, and 0..1,100 (4,200) inserted into the four stream types; two string arguments with the first of every length 0..1,100 (4,200) and the second of 6 lengths, as {}{} and as {}{>n} padding",
            " Long outputs are enumerated too: a multi-byte character at every offset of a long text (so that every block size a sink might work in is straddled) and two-piece outputs where the first piece has every length up to the bound."),
    "C18": ("; invalid data with the bad unit late in a long text (offsets 70, 300, 1,100); every string_stream insertion overload (C-string, STL string, view; 16- and 32-bit); ST::format with wide arguments; the public float_formatter objects and from_double / from_float with a rejected specifier",
            " Failing inputs include long texts whose bad unit lies beyond any internal block size, all stream insertion overloads, and the public numeric formatter objects (a rejected specifier must leave the previously formatted text in place)."),
    "C19": ("; standalone scenarios: ST::format / format_latin_1 / stream insertion of floating-point renderings of 64 characters and more while the output stream grows; 42 assignment-like calls under substitute_invalid whose input needs repair, on short and long targets",
            " Scenarios added: long floating-point renderings (the formatter's heap fallback) combined with stream growth, and every assignment-like entry point under substitute_invalid with input that really needs repair (the repair allocates after the raw bytes were received; the target must keep its previous value or be empty)."),
    "C20": ("; 40 operations: added literal operators (_st for five character types, _stbuf, _stfmt) with per-thread literals, failing decodes / conversions / format calls whose exception text is part of the result, wide-stream insertion / extraction / writef; exception objects are served from the throwing thread's arena",
            " The operation alphabet includes the literal operators with different literals per thread, error paths (the exception text is part of each thread's result, with per-thread inputs) and the wide-stream glue; exception objects are allocated from the throwing thread's arena so that error paths stay deterministic per thread."),
}
_ADD2 = {
    "C04": ("; aliasing set() also with explicit substitute_invalid / assume_valid; identity of the object returned by 16 members (bound to a reference)",
            " The object a member returns is bound to a reference and must be a distinct object that does not use the source's storage."),
    "C10": ("; per well-formed field an argument-value battery (surrogates, 0x110000, -1, 2^32+0x41, LLONG_MIN in char16_t / char32_t / wchar_t / int / long long; text arguments of bytes >= 0x80 through format_latin_1, substitute_invalid, assume_valid)",
            " Each well-formed field is additionally run with code points at and beyond every {c} boundary in every integer / character type and with text arguments made of bytes >= 0x80."),
    "C11": ("; user-defined argument types whose format_type calls ST::format (one and two levels), 13 format strings x 4 argument lists x 3 entry points",
            " User-defined argument types whose format_type itself calls ST::format are compared with the same call given the nested renderings as plain strings."),
    "C14": ("; b64_encode_size(n) for every n <= 70,000 and around 2^k, 1.5*2^k, 3*2^k (k = 16..61)",
            " The encoder's length arithmetic is evaluated directly for lengths that cannot be materialised."),
    "C17": ("; calls without arguments over {a,{{,}},e-acute,{,},space,{}}^<=5 (6 thorough)",
            " Calls without arguments are enumerated as well (escapes must be reduced and lone braces refused by every sink alike)."),
    "C19": ("; every fault-free run of the const battery compared with the results recorded before any fault was injected in that state; caller-buffer and size-query decoders, char_buffer encoders",
            " In every state the battery's results are recorded before faults are injected and every later fault-free run must return the same bytes (a failed call must leave nothing behind in static or thread-local state)."),
    "C20": ("; per-thread pad characters in the writef operations", ""),
    "C16": ("; slots live in mappings of their own (fences + guard pages)", ""),
}
_ADD3 = {
    "C01": ("; length sweep 0..70 (300) copies of a 1-/2-/3-/4-byte scalar through all routes; std::filesystem::path routes", " Every length across the in-object limits of all buffer types is enumerated for all routes, and the std::filesystem::path routes are compared with the UTF-8 text."),
    "C03": ("; Latin-1 sources: every byte alone / next to 41, 80, FF, bare and behind a prefix; a reduced ASan+UBSan build runs in the quick tier", " Latin-1 sources are enumerated like the other encodings."),
    "C04": ("; set(self), null sources, operator=(null_t), own to_path(); concatenation with every character / pointer type on either side; += with every text and character type on a copy in every state", ""),
    "C05": ("; non-const accessors, reverse iterators and comparison with ST::null among the reads", ""),
    "C08": ("; const char8_t* separator form", ""),
    "C09": ("; const char8_t* forms of split and replace", ""),
    "C10": ("; 10 numbers beyond the int range in 13 field positions; std::complex, std::filesystem::path and char8_t arguments in the value battery", " Numbers beyond the int range are placed in every numeric position of a field."),
    "C12": ("; every stream fill level capacity-21..capacity+1 (256/512/1,024) for selected values", ""),
    "C13": ("; stream insertion at every fill level capacity-20..capacity+2 (256/512/1,024) x 25 values x float/double", " Stream insertion is repeated with the stream at every fill level around its capacity boundaries."),
    "C16": ("; null pointers of every character type, std::filesystem::path insertion", ""),
    "C17": ("; 46 single-argument types incl. std::complex, std::filesystem::path, wide STL strings and views; single-character pieces behind a first piece of every length; ST::format may throw unicode_error only when the produced bytes are not valid UTF-8", " A unicode_error from ST::format is accepted only if the bytes the same call writes to a narrow stream are not valid UTF-8."),
    "C19": ("; stream insertion of integers / doubles / text at every fill level capacity-14..capacity under fault; extraction of a token that needs the string's heap storage", ""),
    "C20": ("; every operation's result on a worker thread is compared with its result on the main thread", " An operation's result may depend on its arguments only: the solo result on a worker thread must equal the result of the same call on the main thread."),
}
for _pid, (_b, _t) in _ADD3.items():
    _b0, _t0 = _ADD.get(_pid, ("", ""))
    _ADD[_pid] = (_b0 + _b, _t0 + _t)
for _pid, (_b, _t) in _ADD2.items():
    _b0, _t0 = _ADD[_pid]
    _ADD[_pid] = (_b0 + _b, _t0 + _t)
for _pid, (_b, _t) in _ADD.items():
    for _tier in ("quick", "thorough"):
        PROPS[_pid]["bounds"][_tier] += _b
    TEXT[_pid]["level_text"] += _t

# stale remarks from before the fix: commits of DESIGN.md 11.3
TEXT["C06"]["level_note"] = TEXT["C06"]["level_note"].replace(
    " On the unchanged tree the check reports the known narrowing of the size difference to int in buffer<T>::compare (st_charbuffer.h:205).", "")
