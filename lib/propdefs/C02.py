_C02_DEF = [V("plain"),
            V("plain+default=assume_valid", flags=["-DST_DEFAULT_VALIDATION=ST::assume_valid", "-DVF_DEFAULT_MODE=0", "-DVF_DEFAULT_ONLY"]),
            V("plain+default=substitute_invalid", flags=["-DST_DEFAULT_VALIDATION=ST::substitute_invalid", "-DVF_DEFAULT_MODE=1", "-DVF_DEFAULT_ONLY"]),
            V("plain+default=check_validity", flags=["-DST_DEFAULT_VALIDATION=ST::check_validity", "-DVF_DEFAULT_MODE=2", "-DVF_DEFAULT_ONLY"])]
prop("C02", "c02.cpp", _C02_DEF, _C02_DEF + [V("asan")],
     explain="every unit sequence over class-boundary alphabets (and complete per-position sweeps) through every conversion reading that encoding, in every mode and under every ST_DEFAULT_VALIDATION setting, against the reference left-to-right decoder",
     bounds={"quick": "UTF-8: A8^<=4 (16 symbols) all routes, A8^5 primary routes, all 256^2 pairs, every byte between 25 neighbour pairs; UTF-16: A16^<=4 all routes, A16^5, all 65,536 units in 6 contexts; UTF-32: A32^<=4, all values 10FF00..110100, single-bit values; 3 default-mode builds over ^<=4/^<=3; position sweep: 24 well-formed / malformed units of every encoding behind 0..70 units of filler (ASCII, U+00E9) with 0/1/7 units after, all routes; the 16-bit wchar_t template variants; static-initialisation battery",
             "thorough": "A8^<=5 all routes, A8^6, core^7, core^8, all 256^3; A16^<=5, A16^6, all 2048^2 surrogate pairs; A32^<=5; default-mode builds over ^<=5/^<=4; plain and ASan+UBSan"},
     deadline={"quick": 600, "thorough": 3300})

TEXT["C02"] = dict(
    engine="seqx",
    technique="bounded-exhaustive enumeration of unit sequences over class-boundary alphabets (every sequence up to length 4-8, complete byte-pair/triple and 16-bit-unit sweeps) executed through every conversion route and mode on the real headers vs a reference tolerant decoder",
    level_text="For every enumerated sequence the reference decoder marks each unit good or bad reading left to right (tolerated forms good); check_validity must throw ST::unicode_error exactly when a bad unit exists, substitute_invalid must return the transcoding with U+FFFD/'?' per bad unit and its output must re-validate (by the reference and by the library in check mode), tolerated forms must be accepted identically in all modes and targets, and calls that omit the mode are checked under all three ST_DEFAULT_VALIDATION builds. The decoders have a 4-unit window, so all sequences to length 5-8 over alphabets holding both edges of every unit class cover every window in every left context.",
    level_note="Trusts the reference decoder (self-tested on the documented examples) and the locality argument beyond the bound; assume_valid contents on malformed input are not compared; values above U+10FFFF headed for UTF-16 are left to C03; g++ 12 -O1, ASan+UBSan in thorough.")
