prop("C01", "c01.cpp", PLAIN, PLAIN_ASAN,
     explain="every Unicode scalar value in neighbour contexts and every boundary-alphabet sequence, through every public conversion route and mode, compared unit for unit with an arithmetic reference encoder",
     bounds={"quick": "all 1,112,064 scalars x 4 contexts (primary routes), B^<=4 over a 17-symbol boundary alphabet (all ~230 routes), all 256^2 Latin-1 pairs, chains over B^<=3; the six transcoding 16-bit wchar_t template variants (explicit template argument) as primary routes; static-initialisation battery; long periodic texts of 2,039..4,104 units (a wide character at offset k of every group of 8, all wide, alternating) from Latin-1 and UTF sources; process-exit battery",
             "thorough": "all scalars x 25 contexts, B^<=5 all routes, B^6 primary routes, chains over B^<=4; plain and ASan+UBSan"},
     deadline={"quick": 600, "thorough": 3000})

TEXT["C01"] = dict(
    engine="seqx",
    technique="bounded-exhaustive enumeration: complete sweep of all 1,112,064 Unicode scalar values in neighbour contexts plus all sequences over a boundary alphabet up to length 4-6, executed through every public conversion route on the real headers vs an arithmetic reference encoder",
    level_text="Each scalar value is converted from each of its three reference encodings by every primary route in all validation modes, alone and next to 1-,2-,3-,4-byte neighbours; every sequence over a 17-symbol alphabet of encoding-length boundaries goes through all ~230 routes (pointer, buffer, std::string/_view, char8_t, C-string, literal operators, from_*/to_* members, assignment). Outputs must equal the reference encoding exactly. The converters are context-free per character with a window of at most 4 units, so the sweep covers every per-character code path in every neighbour context; chains follow from exactness of each hop and are additionally exercised on library outputs.",
    level_note="Trusts the reference encoders (CRC-checked against CPython codecs over all scalars) and the locality argument for sequences longer than the bound; g++ 12 -O1; ASan+UBSan build in the thorough tier; wchar_t is 32-bit here.")
