// C10 - the format-string parser is total and memory-safe on every format string.
//
// Enumerated: every format string over a 20-token alphabet up to length L (prefix-closed, so
// "cut at every position" is included), every string over the 8-token parser-critical core up to
// a larger length, every one-token edit / cut of a list of realistic format strings, and the null
// format pointer; each with every argument list of DESIGN.md section 5 (C10).  The format string
// is handed to the library as an exact-size NUL-terminated block ending at a PROT_NONE page, so
// reading one byte past the terminator faults and is attributed to the case.
//
// Oracle (the property statement): the outcome is a string, ST::bad_format, std::out_of_range,
// std::invalid_argument or ST::unicode_error; the only acceptable assertion is "Char formatting
// does not currently support padding", and only when the independent reference parser
// (ref_format.h) says a field that addresses an integer/character argument has the character
// class together with a width / pad.  Everything else (other assertion, other exception, signal,
// hang, heap canary damage) is a violation.
#define VF_MAIN_TU
#include "early.h"
#include "verif.h"
#include "alloc.h"
#include "ref_format.h"
#include <complex>
#include <filesystem>
#include "st_format.h"
#include "st_iostream.h"
#include "st_stdio.h"
#include "early_battery.h"
#include <sstream>

using vf::Ctx;
using vf::strf;

// ------------------------------------------------------------------ alphabets
static const unsigned char TOK20[20] = {'{', '}', '_', '.', '&', '0', '1', '9', '+', '-',
                                        ' ', 'x', 'c', 'f', '<', '>', '#', 'z', 0xC3, 'a'};
static const unsigned char TOK8[8] = {'{', '}', '_', '.', '&', '1', ' ', '-'};

static std::string seq_string(uint64_t idx, const unsigned char *alpha, unsigned k, unsigned L)
{
    std::vector<unsigned> sym;
    vf::seq_decode(idx, k, L, sym);
    std::string s;
    for (unsigned v : sym) s += (char)alpha[v];
    return s;
}

// ------------------------------------------------------------------ argument lists
enum { N_LISTS = 12 };
static const char *LIST_NAME[N_LISTS] = {"()",
                                         "(int)",
                                         "(int,const char*)",
                                         "(double,ST::string,char)",
                                         "(unsigned long long)",
                                         "(const wchar_t*)",
                                         "(bool)",
                                         "substitute_invalid,(int,const char*)",
                                         "format_latin_1,(int)",
                                         "writef(std::wostringstream),(int,const char*)",
                                         "writef(std::basic_ostringstream<char16_t>),(const wchar_t*)",
                                         "printf(FILE* memstream),(double,ST::string,char)"};
// which arguments are integer / character types (the character class applies to those only)
static const std::vector<bool> LIST_INTEGRAL[N_LISTS] = {{},      {true}, {true, false}, {false, false, true}, {true},
                                                         {false}, {false}, {true, false}, {true},
                                                         {true, false}, {false}, {false, false, true}};

static const ST::string g_ststr = ST_LITERAL("st");

static ST::string call_format(int list, const char *f)
{
    switch (list) {
    case 0: return ST::format(f);
    case 1: return ST::format(f, 65);
    case 2: return ST::format(f, 65, "str");
    // small magnitude: only a large precision can make the rendering long (C13's buffer defect)
    case 3: return ST::format(f, 1e-5, g_ststr, 'Q');
    case 4: return ST::format(f, 18446744073709551615ull);
    case 5: return ST::format(f, L"w\u00e9");
    case 6: return ST::format(f, true);
    case 7: return ST::format(ST::substitute_invalid, f, 65, "str");
    case 8: return ST::format_latin_1(f, 65);
    // other sinks: only the outcome class matters here (what they write is C17's business)
    case 9: {
        std::wostringstream os;
        ST::writef(os, f, 65, "str");
        return ST::string();
    }
    case 10: {
        std::basic_ostringstream<char16_t> os;
        ST::writef(os, f, L"w\u00e9");
        return ST::string();
    }
    default: {
        char *mbuf = nullptr;
        size_t msize = 0;
        FILE *mf = open_memstream(&mbuf, &msize);
        if (!mf) _exit(2);
        try {
            ST::printf(mf, f, 1e-5, g_ststr, 'Q');
        } catch (...) {
            fclose(mf);
            free(mbuf);
            throw;
        }
        fclose(mf);
        free(mbuf);
        return ST::string();
    }
    }
}

static const char CHAR_PAD_MSG[] = "Char formatting does not currently support padding";

static std::string assert_text(const std::string &what)
{
    // what = "file.h:LINE: message"; signatures carry the message only (line numbers move with fixes)
    size_t p = what.find(": ");
    std::string m = p == std::string::npos ? what : what.substr(p + 2);
    for (auto &ch : m)
        if (ch == ' ') ch = '-';
    return m;
}

static vf::GuardArena g_arena;

// one format string (or the null pointer) against the argument lists [0, nlists)
static void check_format(Ctx &c, const std::string *fmt, int nlists)
{
    const char *p = nullptr;
    ref::Parsed parsed;
    if (fmt) {
        p = g_arena.place(fmt->c_str(), fmt->size() + 1);  // includes the terminator; next byte is PROT_NONE
        parsed = ref::parse(*fmt);
        if (parsed.n_fields > 0 || parsed.status != ref::WELL_FORMED) c.nontrivial();
    }
    vf::events_reset();
    for (int l = 0; l < nlists; ++l) {
        ST::string result;
        vf::window_reset();
        vf::Outcome o = vf::guard([&] { result = call_format(l, p); });
        VF_COUNT("ops");
        VF_COUNT("validated");
        switch (o.kind) {
        case vf::OK:
            VF_COUNT("out:string");
            if (result.c_str()[result.size()] != 0)
                c.fail("result:not-NUL-terminated", strf("args %s: size %zu", LIST_NAME[l], result.size()));
            break;
        case vf::EX_BADFORMAT: VF_COUNT("out:bad_format"); break;
        case vf::EX_OUT_OF_RANGE: VF_COUNT("out:out_of_range"); break;
        case vf::EX_INVALID_ARG: VF_COUNT("out:invalid_argument"); break;
        case vf::EX_UNICODE: VF_COUNT("out:unicode_error"); break;
        case vf::EX_ASSERT:
            if (o.what.find(CHAR_PAD_MSG) != std::string::npos) {
                bool expected = fmt && ref::contract_assert_possible(parsed, LIST_INTEGRAL[l]);
                if (expected) {
                    VF_COUNT("out:contract-assert(char-padding)");
                } else {
                    vf::count_dyn("out:VIOLATION");
                    c.fail("assert:char-padding-without-padded-char-field",
                           strf("args %s: %s, but the reference parser finds no character-class field with width/pad "
                                "addressing an integer argument",
                                LIST_NAME[l], o.what.c_str()));
                }
            } else if (o.what.find("Format buffer too small") != std::string::npos) {
                vf::count_dyn("out:VIOLATION");
                c.fail("assert:format-buffer-too-small", strf("args %s: process would abort: %s", LIST_NAME[l], o.what.c_str()));
            } else {
                vf::count_dyn("out:VIOLATION");
                c.fail("assert:" + assert_text(o.what), strf("args %s: process would abort: %s", LIST_NAME[l], o.what.c_str()));
            }
            break;
        case vf::EX_BAD_ALLOC:
            vf::count_dyn("out:VIOLATION");
            c.fail(vf::g_alloc.oversize ? "bad_alloc:oversize-request" : "bad_alloc",
                   strf("args %s: largest request %zu bytes", LIST_NAME[l], vf::g_alloc.max_seen));
            break;
        default:
            vf::count_dyn("out:VIOLATION");
            c.fail(std::string("unexpected-exception:") + vf::outkind_name(o.kind), strf("args %s: %s", LIST_NAME[l], o.str().c_str()));
            break;
        }
    }
    if (vf::events_total()) {
        c.fail(std::string("heap:") + vf::g_alloc.first_event, "allocator event while formatting");
        vf::events_reset();
    }
}

// string_view arguments whose storage ends exactly at a PROT_NONE page and carries no terminator: the view's size is
// the only legitimate bound (a formatter that looks for a zero unit faults)
static void check_views(Ctx &c, const std::string &fmt)
{
    static vf::GuardArena gv;
    static const char32_t U32[4] = {U'T', 0xE9, 0x20AC, 0x1F600};
    static const wchar_t W[4] = {L'T', 0xE9, 0x20AC, 0x1F600};
    static const char16_t U16[4] = {u'T', 0xE9, 0x20AC, u'z'};
    static const char N8[4] = {'T', 'e', 's', 't'};
    const char *p = g_arena.place(fmt.c_str(), fmt.size() + 1);
    for (int k = 0; k < 6; ++k) {
        vf::events_reset();
        vf::Outcome o = vf::guard([&] {
            switch (k) {
            case 0: (void)ST::format(p, std::u32string_view(gv.place(U32, 4), 4)); break;
            case 1: (void)ST::format(p, std::wstring_view(gv.place(W, 4), 4)); break;
            case 2: (void)ST::format(p, std::u16string_view(gv.place(U16, 4), 4)); break;
            case 3: (void)ST::format(p, std::string_view(gv.place(N8, 4), 4)); break;
            case 4: (void)ST::format(p, std::u8string_view(reinterpret_cast<const char8_t *>(gv.place(N8, 4)), 4)); break;
            default: (void)ST::format(p, std::u32string_view(gv.place(U32, 4), 0)); break;  // empty view, non-null data at the page edge
            }
        });
        VF_COUNT("ops");
        VF_COUNT("validated");
        static const char *VN[6] = {"u32string_view", "wstring_view", "u16string_view", "string_view", "u8string_view", "empty u32string_view"};
        switch (o.kind) {
        case vf::OK: VF_COUNT("out:string"); break;
        case vf::EX_BADFORMAT: VF_COUNT("out:bad_format"); break;
        case vf::EX_OUT_OF_RANGE: VF_COUNT("out:out_of_range"); break;
        case vf::EX_UNICODE: VF_COUNT("out:unicode_error"); break;
        default:
            vf::count_dyn("out:VIOLATION");
            c.fail(strf("view-argument:%s:%s", VN[k], o.kind == vf::EX_ASSERT ? ("assert:" + assert_text(o.what)).c_str() : vf::outkind_name(o.kind)),
                   strf("format %s with a %s of 4 units: %s", vf::vis(fmt).c_str(), VN[k], o.str().c_str()));
        }
        if (vf::events_total()) {
            c.fail(std::string("heap:") + vf::g_alloc.first_event, strf("allocator event while formatting a %s", VN[k]));
            vf::events_reset();
        }
    }
}

// argument values the token stages do not have: code points at and beyond every {c} boundary in every integer / character
// type, and text arguments made of bytes >= 0x80 (Latin-1 text for format_latin_1, malformed UTF-8 under the lenient modes)
static void check_values(Ctx &c, const std::string &fmt)
{
    const char *p = g_arena.place(fmt.c_str(), fmt.size() + 1);
    static const char HI5[] = "\xA3\xA9\xB0\xB1\xB2", HI2[] = "\x80\x80", HIMIX[] = "\xBF\xBFz\xC3";
    for (int k = 0; k < 17; ++k) {
        vf::events_reset();
        vf::Outcome o = vf::guard([&] {
            switch (k) {
            case 14: (void)ST::format(p, std::complex<double>(-1.5e300, 2.5e-300)); break;
            case 15: (void)ST::format(p, std::filesystem::path("dir/file.txt")); break;
            case 16: (void)ST::format(p, (const char8_t *)u8"caf\u00e9", u8"x"[0]); break;
            case 0: (void)ST::format(p, char16_t(0xD800)); break;
            case 1: (void)ST::format(p, char16_t(0xDFFF)); break;
            case 2: (void)ST::format(p, char32_t(0x110000)); break;
            case 3: (void)ST::format(p, char32_t(0xDC00)); break;
            case 4: (void)ST::format(p, wchar_t(0xD800)); break;
            case 5: (void)ST::format(p, -1); break;
            case 6: (void)ST::format(p, 0xD800); break;
            case 7: (void)ST::format(p, (long long)0x100000041LL); break;
            case 8: (void)ST::format(p, std::numeric_limits<long long>::min()); break;
            case 9: (void)ST::format_latin_1(p, HI5); break;
            case 10: (void)ST::format(ST::substitute_invalid, p, HI2); break;
            case 11: (void)ST::format(ST::assume_valid, p, HI5); break;
            case 12: (void)ST::format(ST::substitute_invalid, p, std::string(HIMIX)); break;
            default: (void)ST::format(p, ST::string::from_validated(HI5, 5)); break;
            }
        });
        VF_COUNT("ops");
        VF_COUNT("validated");
        static const char *VN[17] = {"char16_t D800", "char16_t DFFF", "char32_t 110000", "char32_t DC00", "wchar_t D800", "int -1", "int 0xD800",
                                     "long long 2^32+0x41", "LLONG_MIN", "format_latin_1 + high bytes", "substitute_invalid + continuation bytes",
                                     "assume_valid + high bytes", "substitute_invalid + std::string of continuation bytes", "ST::string of continuation bytes",
                                     "std::complex<double>", "std::filesystem::path", "const char8_t* text + char8_t"};
        bool expected_assert = o.kind == vf::EX_ASSERT && o.what.find(CHAR_PAD_MSG) != std::string::npos && k <= 8 &&
                               ref::contract_assert_possible(ref::parse(fmt), {true});
        switch (o.kind) {
        case vf::OK: VF_COUNT("out:string"); break;
        case vf::EX_BADFORMAT: VF_COUNT("out:bad_format"); break;
        case vf::EX_OUT_OF_RANGE: VF_COUNT("out:out_of_range"); break;
        case vf::EX_UNICODE: VF_COUNT("out:unicode_error"); break;
        default:
            if (expected_assert) {
                VF_COUNT("out:contract-assert(char-padding)");
                break;
            }
            vf::count_dyn("out:VIOLATION");
            c.fail(strf("argument-value:%s:%s", k <= 8 ? "code-point-boundary" : "high-byte-text",
                        o.kind == vf::EX_ASSERT ? ("assert:" + assert_text(o.what)).c_str() : vf::outkind_name(o.kind)),
                   strf("format %s with %s: %s", vf::vis(fmt).c_str(), VN[k], o.str().c_str()));
        }
        if (vf::events_total()) {
            c.fail(std::string("heap:") + vf::g_alloc.first_event, strf("allocator event while formatting %s with %s", vf::vis(fmt).c_str(), VN[k]));
            vf::events_reset();
        }
    }
}

static std::string describe_fmt(const std::string &s)
{
    return strf("format[%zu]=%s hex=%s ; argument lists: (), (65), (65,\"str\"), (1e-5,ST::string(\"st\"),'Q'), (ULLONG_MAX), (L\"w\\u00e9\"), (true), "
                "substitute_invalid+(65,\"str\"), format_latin_1+(65)",
                s.size(), vf::vis(s).c_str(), vf::hex_str(s).c_str());
}

// ------------------------------------------------------------------ realistic strings and their one-token edits
static const char *const BASES[] = {
    "xx{}yy",          "{{{}}}",           "{&1}{&2}",        "{>#08x}",        "{<+6X}|{_*12.3}",  "a{{b}}c{.2}",
    "{&2_-10}{}",      "{c}",              "{c5}",            "{_ c}",          "{0c}",             "{.3f}{}{&3c}",
    "{e}{E}{+.10e}",   "}}{}}}",           "{<016b}",         "{#o}{#b}{#X}",   "{&1&2}",           "{_}6}",
    "{.10}{.0}",       "{1}{2}{3}",        "\xC3\xA9{}\xE2\x82\xAC", "{>20}{<20}",    "{&3}{&2}{&1}",     "{+d}{#d}{x}{&1c}",
    "{.99f}",          "{_{5}{_}5}{_05}",
};
enum { N_BASES = sizeof(BASES) / sizeof(BASES[0]) };
enum { EDIT_POS = 24, EDIT_TOK = 21, EDIT_MODE = 3 };  // positions 0..23, token (20 = none), mode insert/replace/cut-tail

static std::string edited(uint64_t idx)
{
    unsigned tok = (unsigned)vf::take(idx, EDIT_TOK), mode = (unsigned)vf::take(idx, EDIT_MODE), pos = (unsigned)vf::take(idx, EDIT_POS);
    std::string b = BASES[idx % N_BASES];
    if (pos > b.size()) pos = (unsigned)b.size();
    std::string head = b.substr(0, pos), mid = tok < 20 ? std::string(1, (char)TOK20[tok]) : std::string(), tail;
    if (mode == 0) tail = b.substr(pos);                                   // insert
    else if (mode == 1) tail = pos < b.size() ? b.substr(pos + 1) : "";    // replace one byte
    else tail = "";                                                        // cut after the insertion point
    return head + mid + tail;
}

static void build(vf::Plan &plan, const vf::Opts &o)
{
    // ---- self-test of the reference parser (machinery error, never a violation)
    {
        struct T {
            const char *f;
            ref::ParseStatus st;
            size_t nf;
        };
        static const T tab[] = {{"", ref::WELL_FORMED, 0},      {"{{}}", ref::WELL_FORMED, 0},  {"{}", ref::WELL_FORMED, 1},
                                {"{", ref::UNTERMINATED, 0},    {"{_", ref::UNTERMINATED, 0},   {"{.", ref::UNTERMINATED, 0},
                                {"{&", ref::UNTERMINATED, 0},   {"{z}", ref::BAD_CHARACTER, 0}, {"{_}6}", ref::WELL_FORMED, 1},
                                {"}{}}}", ref::WELL_FORMED, 1}, {"{}{ }", ref::BAD_CHARACTER, 1}, {"{5 }", ref::BAD_CHARACTER, 0},
                                {"{. 5}", ref::WELL_FORMED, 1}, {"{&-1}", ref::WELL_FORMED, 1}, {"{. -}", ref::BAD_CHARACTER, 0}};
        for (const T &t : tab) {
            ref::Parsed p = ref::parse(t.f);
            if (p.status != t.st || p.n_fields != t.nf) {
                fprintf(stderr, "selftest: reference parser wrong on \"%s\" (status %d fields %zu)\n", t.f, (int)p.status, p.n_fields);
                exit(2);
            }
        }
        ref::Parsed p = ref::parse("{c5}");
        if (!ref::contract_assert_possible(p, {true}) || ref::contract_assert_possible(p, {false}) ||
            ref::contract_assert_possible(ref::parse("{c}{5}"), {true, true}) ||
            !ref::contract_assert_possible(ref::parse("{}{&1_*c}"), {true, false}) ||
            ref::contract_assert_possible(ref::parse("{}{}{c1}"), {true, true}) ||
            ref::contract_assert_possible(ref::parse("{&2c1}"), {true, false}) ||
            !ref::contract_assert_possible(ref::parse("{& 2c1}"), {true, false})) {
            fprintf(stderr, "selftest: contract_assert_possible wrong\n");
            exit(2);
        }
    }
    plan.rule = "cases = format strings of the enumerated spaces, each run with all 12 argument lists / routes / sinks (the edit stage can reach one string by several edits); non-trivial = the reference parser finds at "
                "least one field or a malformed/unterminated specifier in the string";
    plan.assumptions = {
        "format strings longer than the stated bounds are covered only by locality of the scanner (1-byte lookahead, strtol on digit runs)",
        "widths / precisions / indices are bounded by the token length (at most 6 digits); larger numbers are resource use, not parsing",
        "over-reads are detected by a PROT_NONE page directly after the terminator (plus ASan in the thorough tier); reads before the start of the block are not trapped",
        "the double argument of the token stages is 1e-5; long floating-point renderings (every precision up to the bound, huge / tiny / infinite values) have their own stage",
        "sinks other than ST::format (format_latin_1, writef to wide streams, printf to a FILE*) are run for their outcome class only; what they write is C17's subject"};

#ifdef VF_C10_REDUCED
    // sanitizer build of the quick tier: the rendering stages in full, the token spaces to a smaller length
    const unsigned L20 = 3;
    const unsigned L8 = 4;
#else
    const unsigned L20 = 5;
    const unsigned L8 = o.thorough() ? 8 : 6;
#endif

    plan.stage("null-format-pointer", 1, [](uint64_t, Ctx &c) { check_format(c, nullptr, N_LISTS); },
               [](uint64_t) { return std::string("format = nullptr ; all argument lists"); })
        .case_timeout_s = 5;

    plan.stage(strf("T20^<=%u x 12 argument lists / sinks", L20), vf::seq_count(20, L20),
               [L20](uint64_t i, Ctx &c) {
                   std::string s = seq_string(i, TOK20, 20, L20);
                   check_format(c, &s, N_LISTS);
               },
               [L20](uint64_t i) { return describe_fmt(seq_string(i, TOK20, 20, L20)); })
        .case_timeout_s = 5;

    plan.stage(strf("T8core^<=%u x 12 argument lists / sinks", L8), vf::seq_count(8, L8),
               [L8](uint64_t i, Ctx &c) {
                   std::string s = seq_string(i, TOK8, 8, L8);
                   check_format(c, &s, N_LISTS);
               },
               [L8](uint64_t i) { return describe_fmt(seq_string(i, TOK8, 8, L8)); })
        .case_timeout_s = 5;

    plan.stage("realistic-strings x every position x {insert,replace,cut} x {20 tokens,none}",
               (uint64_t)N_BASES * EDIT_POS * EDIT_MODE * EDIT_TOK,
               [](uint64_t i, Ctx &c) {
                   std::string s = edited(i);
                   check_format(c, &s, N_LISTS);
               },
               [](uint64_t i) { return describe_fmt(edited(i)); })
        .case_timeout_s = 5;

    // long renderings: every precision across the formatter's internal buffer sizes, for small / huge / non-finite values
    {
        static const double DV[6] = {1e-5, 1.5, 1e70, -1.7976931348623157e308, std::numeric_limits<double>::infinity(), 4.9406564584124654e-324};
        static const char *DCLS[4] = {"", "f", "e", "E"};
        static const char *DW[3] = {"", "90", "<_*400"};
        const unsigned PMAXP = o.thorough() ? 400 : 140;
        plan.stage(strf("floating-point field: precision 0..%u x {default,f,e,E} x {no width,90,<_*400} x 6 values (format, format_latin_1, writef<wchar_t>)", PMAXP),
                   (uint64_t)(PMAXP + 2) * 4 * 3 * 6,
                   [PMAXP](uint64_t i, Ctx &c) {
                       unsigned pr = (unsigned)vf::take(i, PMAXP + 2), cl = (unsigned)vf::take(i, 4), w = (unsigned)vf::take(i, 3), vi = (unsigned)vf::take(i, 6);
                       std::string f = std::string("x{") + DW[w] + (pr <= PMAXP ? "." + std::to_string(pr) : std::string()) + DCLS[cl] + "}y";
                       const char *p = g_arena.place(f.c_str(), f.size() + 1);
                       double v = DV[vi];
                       for (int sink = 0; sink < 3; ++sink) {
                           vf::events_reset();
                           vf::Outcome oc = vf::guard([&] {
                               if (sink == 0) (void)ST::format(p, v);
                               else if (sink == 1) (void)ST::format_latin_1(p, (float)v);
                               else {
                                   std::wostringstream os;
                                   ST::writef(os, p, v);
                               }
                           });
                           VF_COUNT("ops");
                           VF_COUNT("validated");
                           if (oc.kind == vf::OK) VF_COUNT("out:string");
                           else
                               c.fail(oc.kind == vf::EX_ASSERT ? "assert:" + assert_text(oc.what) : std::string("float-field:unexpected:") + vf::outkind_name(oc.kind),
                                      strf("format %s of %g (sink %d): %s", vf::vis(f).c_str(), v, sink, oc.str().c_str()));
                           if (vf::events_total()) {
                               c.fail(std::string("heap:") + vf::g_alloc.first_event, strf("allocator event while formatting %s of %g", vf::vis(f).c_str(), v));
                               vf::events_reset();
                           }
                       }
                       c.nontrivial();
                   },
                   [PMAXP](uint64_t i) {
                       unsigned pr = (unsigned)vf::take(i, PMAXP + 2), cl = (unsigned)vf::take(i, 4), w = (unsigned)vf::take(i, 3), vi = (unsigned)vf::take(i, 6);
                       return strf("x{%s%s%s}y of value #%u", DW[w], pr <= PMAXP ? ("." + std::to_string(pr)).c_str() : "", DCLS[cl], vi);
                   })
            .case_timeout_s = 5;
    }

    // long output: every minimum width up to the bound, so that the assembled text has every length across the in-object
    // buffer of the writer (256) and its doublings - the spots where a terminator or a pad run is most likely to step outside
    {
        const unsigned WMAXW = o.thorough() ? 4300 : 1100;
        static const char *WAL[3] = {"", "<", ">"};
        static const char *WPD[3] = {"", "0", "_*"};
        auto mk = [](uint64_t i) {
            std::string f = "{";
            f += WAL[vf::take(i, 3)];
            f += WPD[vf::take(i, 3)];
            f += std::to_string(1 + (unsigned)i);
            return f + "}";
        };
        plan.stage(strf("width sweep 1..%u x 3 alignments x 3 pad kinds x 12 argument lists / sinks", WMAXW), (uint64_t)9 * WMAXW,
                   [mk](uint64_t i, Ctx &c) {
                       std::string s = mk(i);
                       check_format(c, &s, N_LISTS);
                   },
                   [mk](uint64_t i) { return describe_fmt(mk(i)); })
            .case_timeout_s = 5;
    }

    // numbers beyond the int range in every numeric position of a field (they are read with strtol and narrowed): the
    // enumerated values narrow to something small or negative, so nothing large is asked of the allocator
    {
        static const char *const BIG[] = {"2147483648", "4294967295", "4294967296", "4294967297", "4294967301", "8589934592",
                                          "9223372036854775807", "9223372036854775808", "18446744073709551615", "99999999999999999999999"};
        static const char *const POS[] = {"{%s}", "{.%s}", "{&%s}", "{_*%s}", "{0%s}", "{<%s}", "{%s.1}", "{1.%s}", "{&1.%s}", "{%sc}", "{.%sf}", "{%sx}", "{#+%sb}"};
        enum { NBIG = sizeof BIG / sizeof *BIG, NPOS = sizeof POS / sizeof *POS };
        auto mk = [](uint64_t i) {
            unsigned pos = (unsigned)vf::take(i, NPOS), lit = (unsigned)vf::take(i, 2);
            return std::string(lit ? "ab" : "") + strf(POS[pos], BIG[i % NBIG]);
        };
        plan.stage(strf("numbers beyond the int range (%u values) in %u field positions x 12 argument lists / sinks + argument-value battery", (unsigned)NBIG,
                        (unsigned)NPOS),
                   (uint64_t)NBIG * NPOS * 2,
                   [mk](uint64_t i, Ctx &c) {
                       std::string s = mk(i);
                       check_format(c, &s, N_LISTS);
                       check_values(c, s);
                       check_views(c, s);
                   },
                   [mk](uint64_t i) { return describe_fmt(mk(i)); })
            .case_timeout_s = 10;
    }

    // every well-formed single field over the full option product (optionally behind a literal, so that the
    // writer already holds text when padding is computed): totality of the *rendering* paths the parser selects
    {
        static const char *ALIGN[3] = {"", "<", ">"};
        static const char *PAD[4] = {"", "_*", "0", "_0"};
        static const char *CLS[10] = {"", "d", "x", "X", "o", "b", "c", "f", "e", "E"};
        static const char *PREC[4] = {"", ".0", ".3", ".1"};
        static const char *LIT[2] = {"", "ab"};
        const unsigned W = o.thorough() ? 72 : 24;  // widths 0..W-1 (0 = none): every distance to every natural length
        uint64_t count = (uint64_t)3 * 4 * 2 * 2 * W * 4 * 10 * 2;
        auto mk = [W](uint64_t i) {
            std::string f = LIT[vf::take(i, 2)];
            f += "{";
            f += ALIGN[vf::take(i, 3)];
            f += PAD[vf::take(i, 4)];
            if (vf::take(i, 2)) f += "+";
            if (vf::take(i, 2)) f += "#";
            unsigned w = (unsigned)vf::take(i, W);
            if (w) f += std::to_string(w);
            f += PREC[vf::take(i, 4)];
            f += CLS[vf::take(i, 10)];
            f += "}";
            return f;
        };
        plan.stage(strf("well-formed field product (align x pad x + x # x width 0..%u x precision x class x leading literal) x 12 argument lists / sinks", W - 1),
                   count,
                   [mk](uint64_t i, Ctx &c) {
                       std::string s = mk(i);
                       check_format(c, &s, N_LISTS);
                       check_views(c, s);
                       check_values(c, s);
                   },
                   [mk](uint64_t i) { return describe_fmt(mk(i)) + " ; and with unterminated string_view arguments of every width"; })
            .case_timeout_s = 5;
    }
    // text arguments of every type at every length 0..70 (and around 85 / 128 / 256) of a repeated 1-/2-/3-/4-byte character: the
    // conversion of the argument may work in scratch storage sized by a guess about the text (memory safety here, the text in C11)
    {
        static const unsigned TLN[] = {0, 1, 2, 5, 10, 15, 16, 17, 20, 25, 29, 30, 31, 32, 33, 35, 38, 39, 40, 41, 42, 47, 48, 49, 63, 64, 65, 70, 84, 85, 86, 127, 128, 129, 255, 256, 257};
        enum { NTLN = sizeof TLN / sizeof *TLN };
        plan.stage(strf("text argument length: %u lengths x 4 character widths x 10 wide / narrow argument types x 2 sinks", (unsigned)NTLN), (uint64_t)NTLN * 4 * 10,
                   [](uint64_t i, Ctx &c) {
                       static const char32_t CH[4] = {U'a', 0xE9, 0x8001, 0x1F600};
                       unsigned ty = (unsigned)vf::take(i, 10), ci = (unsigned)vf::take(i, 4), n = TLN[i];
                       std::u32string t32(n, CH[ci]);
                       if (n > 1) t32[n - 1] = ci == 3 ? U'z' : U'\U0001F600';
                       ST::string ref = ST::string::from_utf32(t32.data(), t32.size());
                       std::wstring tw(t32.begin(), t32.end());
                       ST::utf16_buffer b16 = ref.to_utf16();
                       std::u16string t16(b16.data(), b16.size());
                       for (int sink = 0; sink < 2; ++sink) {
                           vf::events_reset();
                           vf::Outcome oc = vf::guard([&] {
                               ST::string_stream ss;
                               ST::string r;
                               switch (ty) {
                               case 0: sink ? (void)(ss << t32.c_str()) : (void)(r = ST::format("{}", t32.c_str())); break;
                               case 1: sink ? (void)(ss << t16.c_str()) : (void)(r = ST::format("{}", t16.c_str())); break;
                               case 2: sink ? (void)(ss << tw.c_str()) : (void)(r = ST::format("{}", tw.c_str())); break;
                               case 3: sink ? (void)(ss << ref.c_str()) : (void)(r = ST::format("{}", ref.c_str())); break;
                               case 4: sink ? (void)(ss << std::u32string_view(t32)) : (void)(r = ST::format("{>3}", std::u32string_view(t32))); break;
                               case 5: sink ? (void)(ss << std::u16string_view(t16)) : (void)(r = ST::format("{<3}", std::u16string_view(t16))); break;
                               case 6: sink ? (void)(ss << std::wstring_view(tw)) : (void)(r = ST::format("{}", std::wstring_view(tw))); break;
                               case 7: sink ? (void)(ss << t32) : (void)(r = ST::format("{}", ST::utf32_buffer(t32.data(), t32.size()))); break;
                               case 8: sink ? (void)(ss << t16) : (void)(r = ST::format("{}", ST::utf16_buffer(t16.data(), t16.size()))); break;
                               default: sink ? (void)(ss << tw) : (void)(r = ST::format("{}", ST::wchar_buffer(tw.data(), tw.size()))); break;
                               }
                               if (sink) r = ss.to_string();
                               if (ty != 4 && ty != 5 && r.size() != ref.size()) throw std::runtime_error("wrong length");
                           });
                           VF_COUNT("ops");
                           VF_COUNT("validated");
                           if (oc.kind == vf::OK) VF_COUNT("out:string");
                           else
                               c.fail(oc.kind == vf::EX_ASSERT ? "assert:" + assert_text(oc.what) : std::string("text-argument-length:unexpected:") + vf::outkind_name(oc.kind),
                                      strf("text argument type #%u, %u characters of width class %u, sink %d: %s", ty, n, ci, sink, oc.str().c_str()));
                           if (vf::events_total()) {
                               c.fail(std::string("heap:") + vf::g_alloc.first_event, strf("allocator event: text argument type #%u, %u characters", ty, n));
                               vf::events_reset();
                           }
                       }
                       if (n > 1) c.nontrivial();
                   },
                   [](uint64_t i) {
                       unsigned ty = (unsigned)vf::take(i, 10), ci = (unsigned)vf::take(i, 4);
                       return strf("text argument type #%u, %u characters of width class %u", ty, TLN[i], ci);
                   })
            .case_timeout_s = 5;
    }
    // a FILE* that cannot take the output (opened for reading; a full device): ST::printf has nothing to report an error with, so the
    // output is lost - but the call must come back
    {
        plan.stage("printf to a FILE* that cannot be written (read-only stream, /dev/full unbuffered and buffered): the call returns", 3 * 4,
                   [](uint64_t i, Ctx &c) {
                       unsigned kind = (unsigned)vf::take(i, 3), fi = (unsigned)i;
                       static const char *const FM[4] = {"x", "{}", "{>300}|{}", "literal text long enough to pass the stdio buffer when repeated {} {} {}"};
                       FILE *f = kind == 0 ? fopen("/dev/null", "r") : fopen("/dev/full", "w");
                       if (!f) return;
                       if (kind == 1) setvbuf(f, nullptr, _IONBF, 0);
                       vf::Outcome oc = vf::guard([&] {
                           for (int rep = 0; rep < 3; ++rep) {
                               if (fi == 0) ST::printf(f, FM[0]);
                               else if (fi == 1) ST::printf(f, FM[1], 42);
                               else if (fi == 2) ST::printf(f, FM[2], 7, "text");
                               else ST::printf(f, FM[3], 1, 2.5, "three");
                               fflush(f);
                           }
                       });
                       fclose(f);
                       VF_COUNT("ops");
                       VF_COUNT("validated");
                       if (!oc.ok()) c.fail(std::string("printf-to-unwritable-FILE:unexpected:") + vf::outkind_name(oc.kind), oc.str());
                       c.nontrivial();
                   },
                   [](uint64_t i) { return strf("printf to unwritable FILE*, kind %u, format #%u", (unsigned)(i % 3), (unsigned)(i / 3)); })
            .case_timeout_s = 10;
    }
    vf_early::add_stage(plan);
}

VF_MAIN("C10", build)
