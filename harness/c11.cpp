// C11 - formatted output equals the specified rendering of literals, fields and padding.
//
// Stage family 1: ONE field, full cartesian product
//     alignment {-,<,>} x pad {-,_*,_0,0} x width {-,1,2,nat-1,nat,nat+1,nat+3} x precision {-,.0,.1,.3}
//     x '#' x '+' x class {-,d,x,X,o,b,c,f,e,E} x item order {canonical, permuted, every item doubled}
//   applied to every value of a table: all 256 signed char + all 256 unsigned char values, boundary and
//   code-point values of every wider integer type, char/wchar_t/char16_t/char32_t/char8_t values, bool,
//   ASCII strings of length {0,1,3,4,5,20} in every supported string type (+ one non-ASCII string).
// Stage family 2: every format string  l0 f1 l1 [f2 l2 [f3 l3]]  with fields from a 10-field alphabet mixing
//   sequential and &N fields and literal pieces from {"", "a", "{{", "}}", "}", "a{{b}}"}, with 1, 2 and 3 arguments.
//
// Oracle: ref_format.h (independent parser + renderer written from the property text); exact byte comparison.
// Cases whose reference outcome is an exception or the contract assertion are skipped (they belong to C10).
#define VF_MAIN_TU
#include "early.h"
#include "verif.h"
#include "alloc.h"
#include "ref_format.h"
#include "st_format.h"
#include "early_battery.h"
#include <climits>
#include <filesystem>

using vf::Ctx;
using vf::strf;
using ref::wide_t;

// ------------------------------------------------------------------ argument table
enum TypeId {
    T_SCHAR, T_UCHAR, T_SHORT, T_USHORT, T_INT, T_UINT, T_LONG, T_ULONG, T_LLONG, T_ULLONG,
    T_CHAR, T_WCHAR, T_CHAR16, T_CHAR32, T_CHAR8, T_BOOL,
    T_CSTR, T_STSTRING, T_STDSTRING, T_SV,
    T_WCSTR, T_WSTRING, T_WSV,
    T_U16CSTR, T_U16STRING, T_U16SV,
    T_U32CSTR, T_U32STRING, T_U32SV,
    T_U8CSTR, T_U8STRING, T_U8SV,
    N_TYPES
};
static const char *const TYPE_NAME[N_TYPES] = {
    "signed char", "unsigned char", "short", "unsigned short", "int", "unsigned int", "long", "unsigned long", "long long",
    "unsigned long long", "char", "wchar_t", "char16_t", "char32_t", "char8_t", "bool",
    "const char*", "ST::string", "std::string", "std::string_view",
    "const wchar_t*", "std::wstring", "std::wstring_view",
    "const char16_t*", "std::u16string", "std::u16string_view",
    "const char32_t*", "std::u32string", "std::u32string_view",
    "const char8_t*", "std::u8string", "std::u8string_view"};

static_assert(sizeof(wchar_t) == 4, "this harness assumes a 32-bit wchar_t");
static_assert(sizeof(long) == 8, "this harness assumes LP64");

struct Val {
    int type = 0;
    uint64_t bits = 0;      // integer / bool types: the value, converted to the type at the call
    std::u32string cps;     // string types: code points
    std::string utf8;       // ... and their encodings (built by the reference encoder)
    std::wstring w;
    std::u16string u16;
    std::u8string u8;
    ST::string st;
    // backing storage of the string_view arguments: the text followed by "!!"
    std::string utf8_b;
    std::wstring w_b;
    std::u16string u16_b;
    std::u32string cps_b;
    std::u8string u8_b;
};

static bool is_int_type(int t) { return t <= T_CHAR8; }
static bool is_text_type(int t) { return t >= T_CSTR; }

static wide_t math_value(const Val &v)
{
    switch (v.type) {
    case T_SCHAR: return (wide_t)(signed char)v.bits;
    case T_UCHAR: return (wide_t)(unsigned char)v.bits;
    case T_SHORT: return (wide_t)(short)v.bits;
    case T_USHORT: return (wide_t)(unsigned short)v.bits;
    case T_INT: return (wide_t)(int)v.bits;
    case T_UINT: return (wide_t)(unsigned int)v.bits;
    case T_LONG: return (wide_t)(long)v.bits;
    case T_ULONG: return (wide_t)(unsigned long)v.bits;
    case T_LLONG: return (wide_t)(long long)v.bits;
    case T_ULLONG: return (wide_t)(unsigned long long)v.bits;
    case T_CHAR: return (wide_t)(char)v.bits;
    case T_WCHAR: return (wide_t)(wchar_t)v.bits;
    case T_CHAR16: return (wide_t)(char16_t)v.bits;
    case T_CHAR32: return (wide_t)(char32_t)v.bits;
    case T_CHAR8: return (wide_t)(char8_t)v.bits;
    default: return 0;
    }
}

static ref::Arg model_of(const Val &v)
{
    if (is_int_type(v.type)) return ref::Arg::integer(math_value(v));
    if (v.type == T_BOOL) return ref::Arg::boolean(v.bits != 0);
    return ref::Arg::str(v.utf8);
}

// the library call: one argument of the run-time selected static type
static ST::string call1(const char *f, const Val &v)
{
    switch (v.type) {
    case T_SCHAR: return ST::format(f, (signed char)v.bits);
    case T_UCHAR: return ST::format(f, (unsigned char)v.bits);
    case T_SHORT: return ST::format(f, (short)v.bits);
    case T_USHORT: return ST::format(f, (unsigned short)v.bits);
    case T_INT: return ST::format(f, (int)v.bits);
    case T_UINT: return ST::format(f, (unsigned int)v.bits);
    case T_LONG: return ST::format(f, (long)v.bits);
    case T_ULONG: return ST::format(f, (unsigned long)v.bits);
    case T_LLONG: return ST::format(f, (long long)v.bits);
    case T_ULLONG: return ST::format(f, (unsigned long long)v.bits);
    case T_CHAR: return ST::format(f, (char)v.bits);
    case T_WCHAR: return ST::format(f, (wchar_t)v.bits);
    case T_CHAR16: return ST::format(f, (char16_t)v.bits);
    case T_CHAR32: return ST::format(f, (char32_t)v.bits);
    case T_CHAR8: return ST::format(f, (char8_t)v.bits);
    case T_BOOL: return ST::format(f, v.bits != 0);
    case T_CSTR: return ST::format(f, v.utf8.c_str());
    case T_STSTRING: return ST::format(f, v.st);
    case T_STDSTRING: return ST::format(f, v.utf8);
    // views are windows into longer storage ("!!" follows): their size is the only bound
    case T_SV: return ST::format(f, std::string_view(v.utf8_b.data(), v.utf8.size()));
    case T_WCSTR: return ST::format(f, v.w.c_str());
    case T_WSTRING: return ST::format(f, v.w);
    case T_WSV: return ST::format(f, std::wstring_view(v.w_b.data(), v.w.size()));
    case T_U16CSTR: return ST::format(f, v.u16.c_str());
    case T_U16STRING: return ST::format(f, v.u16);
    case T_U16SV: return ST::format(f, std::u16string_view(v.u16_b.data(), v.u16.size()));
    case T_U32CSTR: return ST::format(f, v.cps.c_str());
    case T_U32STRING: return ST::format(f, v.cps);
    case T_U32SV: return ST::format(f, std::u32string_view(v.cps_b.data(), v.cps.size()));
    case T_U8CSTR: return ST::format(f, v.u8.c_str());
    case T_U8STRING: return ST::format(f, v.u8);
    default: return ST::format(f, std::u8string_view(v.u8_b.data(), v.u8.size()));
    }
}

static std::string describe_val(const Val &v)
{
    if (is_int_type(v.type)) {
        wide_t m = math_value(v);
        bool neg = m < 0;
        unsigned long long mag = (unsigned long long)(neg ? -m : m);
        return strf("(%s)%s%llu [%s0x%llX]", TYPE_NAME[v.type], neg ? "-" : "", mag, neg ? "-" : "", mag);
    }
    if (v.type == T_BOOL) return strf("(bool)%s", v.bits ? "true" : "false");
    return strf("(%s)%s", TYPE_NAME[v.type], vf::vis(v.utf8).c_str());
}

static Val int_val(int type, uint64_t bits)
{
    Val v;
    v.type = type;
    v.bits = bits;
    return v;
}

static Val text_val(int type, const std::u32string &cps)
{
    Val v;
    v.type = type;
    v.cps = cps;
    for (char32_t c : cps) {
        v.utf8 += ref::utf8_of(c);
        v.w += (wchar_t)c;
        if (c < 0x10000) v.u16 += (char16_t)c;
        else {
            uint32_t r = c - 0x10000;
            v.u16 += (char16_t)(0xD800 + r / 1024);
            v.u16 += (char16_t)(0xDC00 + r % 1024);
        }
    }
    v.u8.assign((const char8_t *)v.utf8.data(), v.utf8.size());
    v.st = ST::string::from_validated(v.utf8.data(), v.utf8.size());
    v.utf8_b = v.utf8 + "!!";
    v.w_b = v.w + L"!!";
    v.u16_b = v.u16 + u"!!";
    v.cps_b = v.cps + U"!!";
    v.u8_b = v.u8 + u8"!!";
    return v;
}

template <class T>
static void add_boundary(std::vector<Val> &out, int type)
{
    typedef std::numeric_limits<T> lim;
    const wide_t lo = (wide_t)lim::min(), hi = (wide_t)lim::max();
    const wide_t two32 = (wide_t)1 << 32;
    const wide_t cand[] = {two32 + 0x41 /* first: the documented example of a 64-bit value with the character class */, 0, 1, -1, 9, 10, 255, 256, lo, lo + 1, hi - 1, hi,
                           // code points (character class) and their neighbours
                           0x41, 0x7F, 0x80, 0xE9, 0x7FF, 0x800, 0x20AC, 0xD7FF, 0xD800, 0xDFFF, 0xE000, 0xFFFD, 0xFFFF, 0x10000,
                           0x1F600, 0x10FFFF, 0x110000, ((wide_t)1 << 31) - 1, (wide_t)1 << 31, two32 - 1,
                           // 64-bit only: values whose low 32 bits look like a valid code point
                           two32, two32 + 0x41, two32 + 0xD800, -two32 + 0x41, ((wide_t)1 << 63) - two32 + 0x20AC, -(wide_t)0x80, -(wide_t)0x10000};
    std::vector<wide_t> seen;
    for (wide_t c : cand) {
        if (c < lo || c > hi) continue;
        if (std::find(seen.begin(), seen.end(), c) != seen.end()) continue;
        seen.push_back(c);
        out.push_back(int_val(type, (uint64_t)(long long)c));
    }
}

static std::vector<Val> g_small;  // all signed char + unsigned char values
static std::vector<Val> g_vals;   // everything else

static void build_tables()
{
    for (int i = -128; i < 128; ++i) g_small.push_back(int_val(T_SCHAR, (uint64_t)(long long)i));
    for (int i = 0; i < 256; ++i) g_small.push_back(int_val(T_UCHAR, (uint64_t)i));

    add_boundary<signed char>(g_vals, T_SCHAR);
    add_boundary<unsigned char>(g_vals, T_UCHAR);
    add_boundary<short>(g_vals, T_SHORT);
    add_boundary<unsigned short>(g_vals, T_USHORT);
    add_boundary<int>(g_vals, T_INT);
    add_boundary<unsigned int>(g_vals, T_UINT);
    add_boundary<long>(g_vals, T_LONG);
    add_boundary<unsigned long>(g_vals, T_ULONG);
    add_boundary<long long>(g_vals, T_LLONG);
    add_boundary<unsigned long long>(g_vals, T_ULLONG);
    add_boundary<char>(g_vals, T_CHAR);
    add_boundary<wchar_t>(g_vals, T_WCHAR);
    add_boundary<char16_t>(g_vals, T_CHAR16);
    add_boundary<char32_t>(g_vals, T_CHAR32);
    add_boundary<char8_t>(g_vals, T_CHAR8);
    g_vals.push_back(int_val(T_BOOL, 0));
    g_vals.push_back(int_val(T_BOOL, 1));
    static const char *const TXT[] = {"", "Q", "abc", "wxyz", "hello", "twenty-characters-ok"};
    for (int t = T_CSTR; t < N_TYPES; ++t) {
        for (const char *s : TXT) {
            std::u32string cps;
            for (const char *p = s; *p; ++p) cps += (char32_t)(unsigned char)*p;
            g_vals.push_back(text_val(t, cps));
        }
        // one non-ASCII text (1-, 2-, 3- and 4-byte sequences); only used where no byte-level cut can fall inside it
        g_vals.push_back(text_val(t, U"h\u00e9\u20ac\U0001F600"));
        // embedded NUL: every argument type that carries its own length must render all of its units
        if (t != T_CSTR && t != T_WCSTR && t != T_U16CSTR && t != T_U32CSTR && t != T_U8CSTR) {
            g_vals.push_back(text_val(t, std::u32string(U"ab\0cd", 5)));
            g_vals.push_back(text_val(t, std::u32string(U"\0", 1)));
        }
    }
}

static bool ascii_only(const std::string &s)
{
    for (unsigned char c : s)
        if (c >= 0x80) return false;
    return true;
}

// ------------------------------------------------------------------ spec product
struct Dims {
    unsigned nA = 3, nP = 4, nW = 7, nR = 4, nH = 2, nS = 2, nC = 10, nO = 3;
    uint64_t size() const { return (uint64_t)nA * nP * nW * nR * nH * nS * nC * nO; }
};
static const char CLASSES[10] = {0, 'd', 'x', 'X', 'o', 'b', 'c', 'f', 'e', 'E'};
static const char *const PADS[4] = {"", "_*", "_0", "0"};
static const char *const PRECS[4] = {"", ".0", ".3", ".1"};

struct Opt {
    unsigned a, p, w, r, h, s, c, o;
};
static Opt decode_opt(uint64_t i, const Dims &d)
{
    Opt q;
    q.c = (unsigned)vf::take(i, d.nC);
    q.w = (unsigned)vf::take(i, d.nW);
    q.p = (unsigned)vf::take(i, d.nP);
    q.a = (unsigned)vf::take(i, d.nA);
    q.h = (unsigned)vf::take(i, d.nH);
    q.s = (unsigned)vf::take(i, d.nS);
    q.r = (unsigned)vf::take(i, d.nR);
    q.o = (unsigned)vf::take(i, d.nO);
    return q;
}

// width option -> number (0 = no width).  nat = natural length of the rendering without width.
static long long width_of(unsigned wopt, size_t nat)
{
    long long n = (long long)nat;
    switch (wopt) {
    case 0: return 0;
    case 1: return n + 1;
    case 2: return n + 3;
    case 3: return n >= 1 ? n : 1;
    case 4: return n - 1 >= 1 ? n - 1 : 1;
    case 5: return 1;
    default: return 2;
    }
}

// text of the field.  Orders are chosen so that no two numbers / the '0' flag run into each other:
//   canonical : align pad # + width precision class
//   permuted  : pad class width + precision # align
//   doubled   : canonical with every repeatable item written twice (same value, so no override)
static std::string field_text(const Opt &q, long long width)
{
    std::string A = q.a == 1 ? "<" : q.a == 2 ? ">" : "";
    std::string P = PADS[q.p];
    std::string H = q.h ? "#" : "", S = q.s ? "+" : "";
    std::string W = width > 0 ? std::to_string(width) : "";
    std::string R = PRECS[q.r];
    std::string C = CLASSES[q.c] ? std::string(1, CLASSES[q.c]) : "";
    switch (q.o) {
    case 0: return "{" + A + P + H + S + W + R + C + "}";
    case 1: return "{" + P + C + W + S + R + H + A + "}";
    default: return "{" + A + A + P + P + H + H + S + S + W + R + R + C + C + "}";
    }
}

// what the field text is meant to say, for the self-test of the builder against the reference parser
static bool spec_matches(const ref::FieldSpec &s, const Opt &q, long long width)
{
    static const long long PV[4] = {-1, 0, 3, 1};
    if (!s.strict || s.overridden) return false;
    if (s.align != (q.a == 1 ? '<' : q.a == 2 ? '>' : 0)) return false;
    if (s.zero != (q.p == 3)) return false;
    if (s.has_pad != (q.p == 1 || q.p == 2)) return false;
    if (s.has_pad && s.pad != (q.p == 1 ? '*' : '0')) return false;
    if (s.hash != (q.h != 0) || s.plus != (q.s != 0)) return false;
    if (s.has_width != (width > 0) || (width > 0 && s.width != width)) return false;
    if (s.has_precision != (q.r != 0) || (q.r != 0 && s.precision != PV[q.r])) return false;
    char c = CLASSES[q.c];
    bool fl = (c == 'f' || c == 'e' || c == 'E');
    if (s.digit_class != (fl ? 0 : c) || s.float_class != (fl ? c : 0)) return false;
    if (s.has_index) return false;
    return true;
}

// ------------------------------------------------------------------ comparison + signatures

static std::string multiset(std::string s)
{
    std::sort(s.begin(), s.end());
    return s;
}

static const char *diff_kind(const std::string &want, const std::string &got)
{
    if (want.size() != got.size()) return "length";
    if (multiset(want) == multiset(got)) return "layout";
    return "content";
}

static std::string assert_slug(const std::string &what)
{
    size_t p = what.find(": ");
    std::string m = p == std::string::npos ? what : what.substr(p + 2);
    for (auto &ch : m)
        if (ch == ' ') ch = '-';
    return m;
}

static std::string out_slug(const vf::Outcome &o)
{
    if (o.kind == vf::EX_ASSERT) return "assert:" + assert_slug(o.what);
    return vf::outkind_name(o.kind);
}

static vf::GuardArena g_arena;
static void heap_events(Ctx &c, const std::string &what);

// ------------------------------------------------------------------ one (value, option tuple) case
enum Verdict { V_SKIP, V_EQUAL, V_MISMATCH, V_UNEXPECTED };
struct Eval {
    Verdict verdict = V_SKIP;
    const char *skip = "";
    std::string f, want, got;
    vf::Outcome o;
    ref::FieldSpec spec;
    size_t nat = 0;
    bool effect = false;  // rendering differs from the plain {} rendering
};

static Eval eval_single(const Val &v, const Opt &q, bool counted)
{
    Eval e;
    // natural length: the reference rendering of the same options without width and pad
    ref::Arg model = model_of(v);
    Opt q0 = q;
    q0.w = 0;
    q0.p = 0;
    ref::Rendered r0 = ref::render(ref::parse(field_text(q0, 0)), {model});
    e.nat = r0.outcome == ref::R_TEXT ? r0.bytes.size() : 1;
    long long width = width_of(q.w, e.nat);
    e.f = field_text(q, width);
    ref::Parsed p = ref::parse(e.f);
    if (p.status != ref::WELL_FORMED || p.pieces.size() != 1 || !p.pieces[0].is_field) {
        fprintf(stderr, "c11: field builder produced a malformed field %s\n", e.f.c_str());  // excluded by the self-test
        _exit(2);
    }
    e.spec = p.pieces[0].spec;
    const ref::FieldSpec &s = e.spec;
    ref::Rendered want = ref::render(p, {model});
    if (want.outcome == ref::R_CONTRACT_ASSERT) {
        e.skip = "contract-assert,C10";
        return e;
    }
    if (want.outcome != ref::R_TEXT) {
        e.skip = "reference-not-text";
        return e;
    }
    if (v.type == T_CHAR8 && s.char_class()) {
        // documented special case: a char8_t is a UTF-8 code unit, copied as is; not the property's "code point" rule
        e.skip = "char8_t-code-unit";
        return e;
    }
    if (is_text_type(v.type) && !ascii_only(v.utf8) && (s.has_precision || s.has_width)) {
        // cut / width counted in bytes or in characters is not specified for multi-byte text
        e.skip = "non-ascii-text-with-cut-or-width";
        return e;
    }
    e.want = want.bytes;
    const char *fp = g_arena.place(e.f.c_str(), e.f.size() + 1);
    ST::string got;
    e.o = vf::guard([&] { got = call1(fp, v); });
    if (counted) VF_COUNT("ops");
    if (!e.o.ok()) {
        if (e.o.kind == vf::EX_UNICODE && is_int_type(v.type) && s.char_class()) {
            wide_t m = math_value(v);
            if (m >= 0xD800 && m <= 0xDFFF) {
                e.skip = "unicode_error-on-surrogate";  // the statement is about successful calls only
                return e;
            }
        }
        e.verdict = V_UNEXPECTED;
        return e;
    }
    if (counted) VF_COUNT("validated");
    e.got.assign(got.c_str(), got.size());
    if (e.got == e.want) {
        e.verdict = V_EQUAL;
        e.effect = ref::render(ref::parse("{}"), {model}).bytes != e.want;
    } else
        e.verdict = V_MISMATCH;
    return e;
}

// Signature of a failing case = the option set of a *minimised* failing case (every option that can be dropped
// while the case keeps failing is dropped), so that one root cause gives a handful of signatures and different
// root causes give different ones.
static std::string failing_signature(const Val &v, Opt q, Eval &e)
{
    auto still_bad = [&](const Opt &t, Eval &out) {
        Eval x = eval_single(v, t, false);
        if (x.verdict == V_MISMATCH || x.verdict == V_UNEXPECTED) {
            out = x;
            return true;
        }
        return false;
    };
    unsigned *fields[] = {&q.o, &q.a, &q.r, &q.h, &q.s, &q.p, &q.w, &q.c};
    for (int pass = 0; pass < 2; ++pass)
        for (unsigned *fld : fields) {
            if (*fld == 0) continue;
            unsigned keep = *fld;
            *fld = 0;
            Eval x;
            if (still_bad(q, x)) e = x;
            else *fld = keep;
        }
    const ref::FieldSpec &s = e.spec;
    std::string opts;
    auto add = [&](const std::string &x) { opts += (opts.empty() ? "" : ",") + x; };
    if (q.o) add(q.o == 1 ? "order=permuted" : "items-doubled");
    if (q.a) add(q.a == 1 ? "align=left" : "align=right");
    if (q.p) add(q.p == 3 ? "zero-flag" : q.p == 2 ? "pad=_0" : "pad=_*");
    if (q.h) add("#");
    if (q.s) add("+");
    if (q.w) add(s.width > (long long)e.nat ? "width>natural" : "width<=natural");
    if (q.r) add(q.r == 1 ? "precision=0" : "precision>0");
    if (q.c) add(std::string("class=") + CLASSES[q.c]);
    if (opts.empty()) opts = "plain";
    std::string what = e.verdict == V_UNEXPECTED ? "unexpected-" + out_slug(e.o) : std::string(diff_kind(e.want, e.got));
    if (is_int_type(v.type)) {
        wide_t m = math_value(v);
        if (s.char_class()) {
            const wide_t two32 = (wide_t)1 << 32;
            const char *vc = (m >= two32 || m < -two32 / 2) ? "value-beyond-32-bits"
                             : (m < 0 || m > 0x10FFFF)     ? "value-outside-0..10FFFF"
                             : (m >= 0xD800 && m <= 0xDFFF) ? "surrogate-code-point"
                                                            : "valid-code-point";
            // the kind of byte difference (length / content) depends on the value only, not on the cause: left out
            if (e.verdict == V_MISMATCH) return strf("field:char-class:%s:%s", vc, opts.c_str());
            return strf("field:char-class:%s:%s:%s", vc, what.c_str(), opts.c_str());
        }
        return strf("field:int(%s):%s:%s", m < 0 ? "negative" : m == 0 ? "zero" : "positive", what.c_str(), opts.c_str());
    }
    const char *fam = v.type == T_BOOL ? "bool" : (v.type <= T_SV || v.type >= T_U8CSTR) ? "text" : "wide-text";
    return strf("field:%s:%s:%s", fam, what.c_str(), opts.c_str());
}

static void heap_events(Ctx &c, const std::string &what)
{
    if (vf::events_total()) {
        c.fail(std::string("heap:") + vf::g_alloc.first_event, "allocator event while formatting " + what);
        vf::events_reset();
    }
}

static void run_single(Ctx &c, const Val &v, const Opt &q)
{
    Eval e = eval_single(v, q, true);
    heap_events(c, e.f);
    switch (e.verdict) {
    case V_SKIP: vf::count_dyn(std::string("out:skipped(") + e.skip + ")"); return;
    case V_EQUAL:
        VF_COUNT("out:equal");
        if (e.effect) c.nontrivial();
        return;
    default: break;
    }
    if (e.verdict == V_MISMATCH) VF_COUNT("out:MISMATCH");
    else vf::count_dyn(std::string("out:UNEXPECTED-") + vf::outkind_name(e.o.kind));
    std::string detail = e.verdict == V_MISMATCH
                             ? strf("ST::format(%s, %s) = %s ; specified rendering %s", vf::vis(e.f).c_str(), describe_val(v).c_str(),
                                    vf::vis(e.got).c_str(), vf::vis(e.want).c_str())
                             : strf("ST::format(%s, %s) -> %s ; specified rendering %s", vf::vis(e.f).c_str(), describe_val(v).c_str(),
                                    e.o.str().c_str(), vf::vis(e.want).c_str());
    Eval m = e;
    std::string sig = failing_signature(v, q, m);
    if (m.f != e.f)
        detail += strf(" ; minimised: ST::format(%s, same value) %s %s, specified %s", vf::vis(m.f).c_str(), m.verdict == V_MISMATCH ? "=" : "->",
                       m.verdict == V_MISMATCH ? vf::vis(m.got).c_str() : m.o.str().c_str(), vf::vis(m.want).c_str());
    c.fail(sig, detail);
}

static std::string describe_single(const Val &v, const Opt &q)
{
    static const char *const WN[7] = {"none", "nat+1", "nat+3", "nat", "nat-1", "1", "2"};
    Opt q0 = q;
    q0.w = 0;
    q0.p = 0;
    ref::Rendered r0 = ref::render(ref::parse(field_text(q0, 0)), {model_of(v)});
    size_t nat = r0.outcome == ref::R_TEXT ? r0.bytes.size() : 1;
    return strf("ST::format(%s, %s)  [width option %s, natural length %zu]", vf::vis(field_text(q, width_of(q.w, nat))).c_str(),
                describe_val(v).c_str(), WN[q.w], nat);
}


// ------------------------------------------------------------------ user-defined argument types
// A user-defined format_type may itself call ST::format (the documented way to reuse the library's rendering) and hand the
// result on with ST::format_string: the rendering of a field is then the inner call's text, padded like any string, and the
// outer call's literals and other fields are unaffected by the nested call.
struct NestPoint {
    int x, y;
};
struct NestLine {
    NestPoint a, b;
};
inline void format_type(const ST::format_spec &spec, ST::format_writer &out, const NestPoint &p)
{
    ST::string inner = ST::format("({},{})", p.x, p.y);
    ST::format_string(spec, out, inner.c_str(), inner.size());
}
inline void format_type(const ST::format_spec &spec, ST::format_writer &out, const NestLine &l)
{
    ST::string inner = ST::format("{}-{}", l.a, l.b);  // two levels of nesting
    ST::format_string(spec, out, inner.c_str(), inner.size());
}

// A user-defined type whose format_type takes it BY VALUE (the signature ST_FORMAT_TYPE declares) and that is expensive to copy:
// every field that names the argument renders the same value
struct ByValueLabel {
    std::string text;
};
inline void format_type(const ST::format_spec &spec, ST::format_writer &out, ByValueLabel v)
{
    ST::format_string(spec, out, v.text.c_str(), v.text.size());
}

// A user-defined format_type writing through every method the writer offers: what arrives in the output is exactly what was
// handed over (array literals with an embedded NUL, pointer + size with an embedded NUL, runs of one character)
struct WriterProbe {
    int which;
};
inline void format_type(const ST::format_spec &, ST::format_writer &out, const WriterProbe &p)
{
    switch (p.which) {
    case 0: out.append("<a\0b>"); break;                       // array literal, 5 characters
    case 1: out.append("\0"); break;                           // array literal, 1 character
    case 2: out.append("plain literal"); break;
    case 3: out.append("p\0q\0r", 5); break;                   // pointer + size
    case 4: out.append_char('*', 3); out.append_char('\0', 2); out.append_char('#'); break;
    case 5: out.append("", 0); out.append_char('x', 0); break;  // nothing
    case 6: out.append("<").append("a\0").append_char('-', 70).append(">"); break;
    default: out.append("0123456789", 10); out.append("\0\0"); break;
    }
}
static std::string writer_probe_text(int which)
{
    switch (which) {
    case 0: return std::string("<a\0b>", 5);
    case 1: return std::string("\0", 1);
    case 2: return "plain literal";
    case 3: return std::string("p\0q\0r", 5);
    case 4: return std::string("***\0\0#", 6);
    case 5: return "";
    case 6: return std::string("<a\0", 3) + std::string(70, '-') + ">";
    default: return std::string("0123456789\0\0", 12);
    }
}
static void run_writer_probe(Ctx &c, uint64_t i)
{
    int which = (int)vf::take(i, 8), shape = (int)vf::take(i, 3);
    static const char *const FM[3] = {"{}", "[{}|{}]", "{}{&1}"};
    std::string t = writer_probe_text(which);
    std::string want = shape == 0 ? t : shape == 1 ? "[" + t + "|7]" : t + t;
    std::string got;
    vf::Outcome oc = vf::guard([&] {
        ST::string r = shape == 1 ? ST::format(FM[1], WriterProbe{which}, 7) : ST::format(FM[shape], WriterProbe{which});
        got.assign(r.c_str(), r.size());
    });
    VF_COUNT("validated");
    if (!oc.ok()) c.fail(strf("user-defined-writer:unexpected-%s", out_slug(oc).c_str()), strf("format %s with writer probe #%d -> %s", FM[shape], which, oc.str().c_str()));
    else if (got != want)
        c.fail(strf("user-defined-writer:%s", diff_kind(want, got)),
               strf("format %s: a user-defined format_type handed the writer %s, the result is %s, expected %s", FM[shape], vf::vis(t).c_str(), vf::vis(got).c_str(), vf::vis(want).c_str()));
    c.nontrivial();
}

// every text argument type, every length 0..70 (and around 85 / 128 / 256) of one repeated 1-, 2-, 3- or 4-byte character: the
// conversion of the argument to UTF-8 may use scratch storage sized by a guess about the text
static std::u32string tl_text(unsigned ci, unsigned n)
{
    static const char32_t CH[4] = {U'a', 0xE9, 0x8001, 0x1F600};
    std::u32string t(n, CH[ci]);
    if (n > 1) t[n - 1] = ci == 3 ? U'z' : U'\U0001F600';  // a last character of another width
    return t;
}
static const unsigned TL_LENS[] = {0,  1,  2,  3,  4,  5,  6,  7,  8,  9,  10, 11, 12, 13, 14, 15, 16, 17, 18, 19, 20, 21, 22, 23, 24, 25, 26, 27, 28,
                                   29, 30, 31, 32, 33, 34, 35, 36, 37, 38, 39, 40, 41, 42, 43, 44, 45, 46, 47, 48, 49, 50, 51, 52, 53, 54, 55, 56, 57,
                                   58, 59, 60, 61, 62, 63, 64, 65, 66, 67, 68, 69, 70, 84, 85, 86, 127, 128, 129, 255, 256, 257};
enum { N_TL_LENS = sizeof TL_LENS / sizeof *TL_LENS, N_TL_TYPES = 17 };
static const char *const TL_TYPE[N_TL_TYPES] = {"const char*", "std::string", "std::string_view", "ST::string", "const char8_t*", "std::u8string", "ST::char_buffer",
                                                "const wchar_t*", "std::wstring", "std::wstring_view", "const char16_t*", "std::u16string", "std::u16string_view",
                                                "const char32_t*", "std::u32string", "std::u32string_view", "ST::utf32_buffer"};
static void run_text_length(Ctx &c, uint64_t i)
{
    unsigned ty = (unsigned)vf::take(i, N_TL_TYPES), ci = (unsigned)vf::take(i, 4), n = TL_LENS[vf::take(i, N_TL_LENS)];
    std::u32string t32 = tl_text(ci, n);
    ST::string ref = ST::string::from_utf32(t32.data(), t32.size());  // conversions are C01's matter; here only the hand-over counts
    std::string want(ref.c_str(), ref.size());
    std::wstring tw(t32.begin(), t32.end());
    ST::utf16_buffer b16 = ref.to_utf16();
    std::u16string t16(b16.data(), b16.size());
    std::string got;
    vf::Outcome oc = vf::guard([&] {
        ST::string r;
        switch (ty) {
        case 0: r = ST::format("{}", want.c_str()); break;
        case 1: r = ST::format("{}", want); break;
        case 2: r = ST::format("{}", std::string_view(want)); break;
        case 3: r = ST::format("{}", ref); break;
        case 4: r = ST::format("{}", (const char8_t *)want.c_str()); break;
        case 5: r = ST::format("{}", std::u8string((const char8_t *)want.data(), want.size())); break;
        case 6: r = ST::format("{}", ST::char_buffer(want.data(), want.size())); break;
        case 7: r = ST::format("{}", tw.c_str()); break;
        case 8: r = ST::format("{}", tw); break;
        case 9: r = ST::format("{}", std::wstring_view(tw)); break;
        case 10: r = ST::format("{}", t16.c_str()); break;
        case 11: r = ST::format("{}", t16); break;
        case 12: r = ST::format("{}", std::u16string_view(t16)); break;
        case 13: r = ST::format("{}", t32.c_str()); break;
        case 14: r = ST::format("{}", t32); break;
        case 15: r = ST::format("{}", std::u32string_view(t32)); break;
        default: r = ST::format("{}", ST::utf32_buffer(t32.data(), t32.size())); break;
        }
        got.assign(r.c_str(), r.size());
    });
    VF_COUNT("validated");
    if (!oc.ok())
        c.fail(strf("text-argument-length:%s:unexpected-%s", TL_TYPE[ty], out_slug(oc).c_str()),
               strf("ST::format(\"{}\", %s of %u characters, %u UTF-8 bytes) -> %s", TL_TYPE[ty], n, (unsigned)want.size(), oc.str().c_str()));
    else if (got != want)
        c.fail(strf("text-argument-length:%s:%s", TL_TYPE[ty], diff_kind(want, got)),
               strf("ST::format(\"{}\", %s of %u characters, %u UTF-8 bytes) returned %u bytes", TL_TYPE[ty], n, (unsigned)want.size(), (unsigned)got.size()));
    if (n > 1) c.nontrivial();
}

static const char *const NEST_FMT[] = {"{}", "P{}", "{}Q", "P{}Q", "{}{}", "a{}b{}c", "{>12}|", "{<12}|", "{_*14}", "{&2}{&1}", "{}{&1}{}", "{{{}}}", "xx{.3}yy"};
enum { N_NEST_FMT = sizeof NEST_FMT / sizeof *NEST_FMT };
// a _stfmt formatter object used for several calls with different arguments
static void run_formatter_reuse(Ctx &c, uint64_t i)
{
    static const char *const RF[] = {"{}", "a{}b", "{>6}|{}", "{x}{&1}", "{{{}}}"};
    unsigned fi = (unsigned)(i % 5);
    const char *f = RF[fi];
    auto fo = ST::literals::operator""_stfmt(f, strlen(f));
    for (int round = 0; round < 3; ++round) {
        int a1 = 10 + round * 7, a2 = -3 - round;
        std::string want = ref::render(ref::parse(f), {ref::Arg::integer(a1), ref::Arg::integer(a2)}).bytes;
        ST::string got;
        vf::Outcome oc = vf::guard([&] { got = fo(a1, a2); });
        VF_COUNT("ops");
        VF_COUNT("validated");
        if (!oc.ok() || std::string(got.c_str(), got.size()) != want) {
            c.fail("stfmt-object-reused:wrong-text", strf("call #%d of the object made by %s_stfmt with (%d, %d) gives %s, specified %s", round + 1, vf::vis(f).c_str(), a1,
                                                          a2, oc.ok() ? vf::vis(std::string(got.c_str(), got.size())).c_str() : oc.str().c_str(), vf::vis(want).c_str()));
            return;
        }
    }
    c.nontrivial();
}

static void run_nested(Ctx &c, uint64_t i)
{
    unsigned fi = (unsigned)vf::take(i, N_NEST_FMT), kind = (unsigned)vf::take(i, 4), sink = (unsigned)vf::take(i, 3);
    NestPoint p1{1, 2}, p2{-30, 400};
    NestLine ln{p1, p2};
    // the reference: the same format string with the nested renderings passed as plain strings
    const std::string s1 = "(1,2)", s2 = "(-30,400)", sl = "(1,2)-(-30,400)";
    std::string f = NEST_FMT[fi];
    const char *fp = g_arena.place(f.c_str(), f.size() + 1);
    ref::Parsed parsed = ref::parse(f);
    std::vector<ref::Arg> model;
    switch (kind) {
    case 0: model = {ref::Arg::str(s1), ref::Arg::str(s2)}; break;
    case 1: model = {ref::Arg::str(sl), ref::Arg::str(s1)}; break;
    case 2: model = {ref::Arg::str(s1), ref::Arg::integer(7)}; break;
    default: model = {ref::Arg::integer(7), ref::Arg::str(sl)}; break;
    }
    ref::Rendered want = ref::render(parsed, model);
    if (want.outcome != ref::R_TEXT) {
        VF_COUNT("out:skipped(reference-not-text)");
        return;
    }
    ST::string got;
    vf::Outcome oc = vf::guard([&] {
        auto call = [&](auto &&...a) {
            if (sink == 0) return ST::format(fp, a...);
            if (sink == 1) return ST::format(ST::check_validity, fp, a...);
            // the object a _stfmt literal yields is called twice: every call renders its own arguments from scratch
            auto fo = ST::literals::operator""_stfmt(fp, f.size());
            try {
                (void)fo(a...);
            } catch (...) {
            }
            return fo(a...);
        };
        switch (kind) {
        case 0: got = call(p1, p2); break;
        case 1: got = call(ln, p1); break;
        case 2: got = call(p1, 7); break;
        default: got = call(7, ln); break;
        }
    });
    VF_COUNT("ops");
    heap_events(c, f);
    static const char *KN[4] = {"(Point, Point)", "(Line, Point)", "(Point, int)", "(int, Line)"};
    if (!oc.ok()) {
        c.fail(strf("nested-format:unexpected-%s", out_slug(oc).c_str()), strf("ST::format(%s, %s) -> %s", vf::vis(f).c_str(), KN[kind], oc.str().c_str()));
        return;
    }
    VF_COUNT("validated");
    std::string g(got.c_str(), got.size());
    if (g == want.bytes) {
        VF_COUNT("out:equal");
        c.nontrivial();
        return;
    }
    c.fail(strf("nested-format:%s", diff_kind(want.bytes, g)),
           strf("ST::format(%s, %s) with user-defined types whose format_type calls ST::format = %s ; specified %s", vf::vis(f).c_str(), KN[kind],
                vf::vis(g).c_str(), vf::vis(want.bytes).c_str()));
}

// ------------------------------------------------------------------ a field that names two pad items
// "{08_*}" / "{_*08}": the statement does not say which of the two pad items wins, but whichever does, the
// rendering is that of the field with the other item removed.  Anything else (e.g. the '*' placed between sign
// and digits) is neither.
static const char *const PO_ITEM[4] = {"0", "_*", "_0", "_-"};
static const char *const PO_CLASS[5] = {"", "d", "x", "o", "b"};
struct PadOver {
    unsigned i1, i2, wpos, a, h, s, c, w, v;
};
static std::vector<Val> g_po_vals;
static uint64_t padover_count() { return (uint64_t)4 * 4 * 2 * 3 * 2 * 2 * 5 * 3 * g_po_vals.size(); }
static PadOver decode_padover(uint64_t i)
{
    PadOver q;
    q.i1 = (unsigned)vf::take(i, 4);
    q.i2 = (unsigned)vf::take(i, 4);
    q.wpos = (unsigned)vf::take(i, 2);
    q.a = (unsigned)vf::take(i, 3);
    q.h = (unsigned)vf::take(i, 2);
    q.s = (unsigned)vf::take(i, 2);
    q.c = (unsigned)vf::take(i, 5);
    q.w = (unsigned)vf::take(i, 3);
    q.v = (unsigned)vf::take(i, g_po_vals.size());
    return q;
}
// keep: bit 0 = first item written, bit 1 = second item written
static std::string padover_text(const PadOver &q, long long width, unsigned keep)
{
    std::string A = q.a == 1 ? "<" : q.a == 2 ? ">" : "";
    std::string W = std::to_string(width);
    std::string f = "{" + A + (q.h ? "#" : "") + (q.s ? "+" : "");
    if (keep & 1) f += PO_ITEM[q.i1];
    if (q.wpos == 0) f += W;
    if (keep & 2) f += PO_ITEM[q.i2];
    if (q.wpos == 1) f += W;
    return f + PO_CLASS[q.c] + "}";
}
static bool padover_valid(const PadOver &q)
{
    if (q.i1 == q.i2) return false;
    // a '0' flag written directly in front of / behind the width digits would be read as part of the number
    if (q.wpos == 0 && q.i2 == 0) return false;   // "W0"
    if (q.wpos == 1 && q.i2 == 0) return true;    // "...0W": flag then width, fine
    return true;
}
static void run_padover(Ctx &c, const PadOver &q)
{
    if (!padover_valid(q)) {
        VF_COUNT("out:skipped(not-expressible)");
        return;
    }
    const Val &v = g_po_vals[q.v];
    ref::Arg model = model_of(v);
    std::string f0 = std::string("{") + (q.h ? "#" : "") + (q.s ? "+" : "") + PO_CLASS[q.c] + "}";
    ref::Rendered r0 = ref::render(ref::parse(f0), {model});
    if (r0.outcome != ref::R_TEXT) {
        VF_COUNT("out:skipped(reference-not-text)");
        return;
    }
    long long nat = (long long)r0.bytes.size();
    long long width = q.w == 0 ? nat + 1 : q.w == 1 ? nat + 4 : (nat > 0 ? nat : 1);
    std::string f = padover_text(q, width, 3), f1 = padover_text(q, width, 1), f2 = padover_text(q, width, 2);
    ref::Parsed pb = ref::parse(f), p1 = ref::parse(f1), p2 = ref::parse(f2);
    if (pb.status != ref::WELL_FORMED || p1.status != ref::WELL_FORMED || p2.status != ref::WELL_FORMED || pb.pieces.size() != 1 ||
        !pb.pieces[0].is_field || !pb.pieces[0].spec.strict || pb.pieces[0].spec.width != width || !p1.pieces[0].spec.strict ||
        p1.pieces[0].spec.overridden || p1.pieces[0].spec.width != width || !p2.pieces[0].spec.strict || p2.pieces[0].spec.overridden ||
        p2.pieces[0].spec.width != width) {
        fprintf(stderr, "c11: pad-override builder produced an unintended field %s / %s / %s\n", f.c_str(), f1.c_str(), f2.c_str());
        _exit(2);
    }
    ref::Rendered w1 = ref::render(p1, {model}), w2 = ref::render(p2, {model});
    if (w1.outcome != ref::R_TEXT || w2.outcome != ref::R_TEXT) {
        VF_COUNT("out:skipped(reference-not-text)");
        return;
    }
    const char *fp = g_arena.place(f.c_str(), f.size() + 1);
    ST::string got;
    vf::Outcome o = vf::guard([&] { got = call1(fp, v); });
    VF_COUNT("ops");
    const char *fam = is_int_type(v.type) ? (math_value(v) < 0 ? "int(negative)" : "int(non-negative)") : v.type == T_BOOL ? "bool" : "text";
    std::string opts = strf("%s-then-%s%s%s%s", PO_ITEM[q.i1], PO_ITEM[q.i2], q.a == 1 ? ",align=left" : q.a == 2 ? ",align=right" : "", q.h ? ",#" : "",
                            q.s ? ",+" : "");
    if (!o.ok()) {
        c.fail(strf("field:two-pad-items:%s:unexpected-%s:%s", fam, out_slug(o).c_str(), opts.c_str()),
               strf("ST::format(%s, %s) -> %s", vf::vis(f).c_str(), describe_val(v).c_str(), o.str().c_str()));
        return;
    }
    VF_COUNT("validated");
    std::string g(got.c_str(), got.size());
    if (g == w1.bytes || g == w2.bytes) {
        VF_COUNT(w1.bytes == w2.bytes ? "out:two-pad-items:both-readings-equal" : "out:two-pad-items:equals-one-reading");
        if (w1.bytes != w2.bytes) c.nontrivial();
        return;
    }
    c.fail(strf("field:two-pad-items:%s:neither-reading:%s", fam, opts.c_str()),
           strf("ST::format(%s, %s) = %s ; with only the first pad item (%s) the specified rendering is %s, with only the second (%s) it is %s",
                vf::vis(f).c_str(), describe_val(v).c_str(), vf::vis(g).c_str(), vf::vis(f1).c_str(), vf::vis(w1.bytes).c_str(), vf::vis(f2).c_str(),
                vf::vis(w2.bytes).c_str()));
}

// ------------------------------------------------------------------ multi-field strings
static const char *const MF_FIELD[10] = {"{}", "{&1}", "{&2}", "{&3}", "{>5}", "{&1x}", "{<4}", "{&2_*6}", "{#x}", "{.2}"};
static const char *const MF_LIT[6] = {"", "a", "{{", "}}", "}", "a{{b}}"};
static Val g_mf_int255, g_mf_intm7, g_mf_str, g_mf_u42, g_mf_hello, g_mf_true;

struct Multi {
    unsigned k, nargs;
    unsigned f[4], l[5];  // l[] holds indices into MF_LIT
};
// literal alphabets: all six pieces, or (for the 4-field stage) the three that matter most next to a field
static const unsigned LIT_ALL[6] = {0, 1, 2, 3, 4, 5};
static const unsigned LIT_CORE[3] = {0, 3, 5};
// index space: for k fields: 10^k * nlit^(k+1) * 3 argument lists
static uint64_t multi_count(unsigned k, unsigned nlit) { return vf::ipow(10, k) * vf::ipow(nlit, k + 1) * 3; }
static Multi decode_multi(uint64_t i, unsigned k, const unsigned *lits, unsigned nlit)
{
    Multi m;
    m.k = k;
    m.nargs = 1 + (unsigned)vf::take(i, 3);
    for (unsigned j = 0; j <= k; ++j) m.l[j] = lits[vf::take(i, nlit)];
    for (unsigned j = 0; j < k; ++j) m.f[j] = (unsigned)vf::take(i, 10);
    return m;
}
static std::string multi_text(const Multi &m)
{
    std::string s = MF_LIT[m.l[0]];
    for (unsigned j = 0; j < m.k; ++j) {
        s += MF_FIELD[m.f[j]];
        s += MF_LIT[m.l[j + 1]];
    }
    return s;
}
static const char *multi_args_text(unsigned n)
{
    return n == 1 ? "(int)255" : n == 2 ? "(int)-7, (const char*)\"str\"" : "(unsigned)42, ST::string(\"hello\"), true";
}

static void run_multi(Ctx &c, const Multi &m)
{
    std::string f = multi_text(m);
    std::vector<ref::Arg> model;
    if (m.nargs == 1) model = {model_of(g_mf_int255)};
    else if (m.nargs == 2) model = {model_of(g_mf_intm7), model_of(g_mf_str)};
    else model = {model_of(g_mf_u42), model_of(g_mf_hello), model_of(g_mf_true)};
    ref::Parsed p = ref::parse(f);
    ref::Rendered want = ref::render(p, model);
    if (want.outcome != ref::R_TEXT) {
        vf::count_dyn(std::string("out:skipped(reference-") + ref::outcome_name(want.outcome) + ",C10)");
        return;
    }
    const char *fp = g_arena.place(f.c_str(), f.size() + 1);
    ST::string got;
    vf::Outcome o = vf::guard([&] {
        if (m.nargs == 1) got = ST::format(fp, 255);
        else if (m.nargs == 2) got = ST::format(fp, -7, "str");
        else got = ST::format(fp, 42u, g_mf_hello.st, true);
    });
    VF_COUNT("ops");
    bool indexed = false, escapes = false;
    for (const ref::Piece &pc : p.pieces)
        if (pc.is_field && pc.spec.has_index) indexed = true;
    escapes = f.find("{{") != std::string::npos || f.find("}}") != std::string::npos;
    bool lone = false;
    for (unsigned j = 0; j <= m.k; ++j)
        if (m.l[j] == 4) lone = true;
    if (!o.ok()) {
        vf::count_dyn(std::string("out:") + vf::outkind_name(o.kind));
        c.fail(strf("multi:unexpected-%s:escapes=%d,lone-brace=%d", out_slug(o).c_str(), (int)escapes, (int)lone),
               strf("ST::format(%s, %s) -> %s ; expected %s", vf::vis(f).c_str(), multi_args_text(m.nargs), o.str().c_str(),
                    vf::vis(want.bytes).c_str()));
        return;
    }
    VF_COUNT("validated");
    std::string g(got.c_str(), got.size());
    if (g == want.bytes) {
        VF_COUNT("out:equal");
        if (p.n_fields >= 2 || (p.n_fields >= 1 && (escapes || lone))) c.nontrivial();
        return;
    }
    VF_COUNT("out:MISMATCH");
    // is the difference in the literal part or in the choice / rendering of the arguments?
    const char *where = "fields";
    if (p.n_fields == 0) where = "literals";
    else {
        // render with every literal piece removed: if that agrees with the library output after removing
        // the same characters, blame the literals.  Cheap heuristic, only used to name the signature.
        std::string wl, gl;
        for (char ch : want.bytes)
            if (ch != 'a' && ch != 'b' && ch != '{' && ch != '}') wl += ch;
        for (char ch : g)
            if (ch != 'a' && ch != 'b' && ch != '{' && ch != '}') gl += ch;
        if (wl == gl) where = "literals";
    }
    std::string sig = !strcmp(where, "literals") ? strf("multi:literals-differ:escapes=%d,lone-brace=%d", (int)escapes, (int)lone)
                                                  : strf("multi:fields-differ:indexed=%d", (int)indexed);
    c.fail(sig, strf("ST::format(%s, %s) = %s ; specified rendering %s", vf::vis(f).c_str(), multi_args_text(m.nargs), vf::vis(g).c_str(),
                     vf::vis(want.bytes).c_str()));
}

// ------------------------------------------------------------------ self-test of the reference
static void selftest(const Dims &full)
{
    // (a) UTF-8 encoder against known encodings
    struct U {
        uint32_t cp;
        const char *enc;
    };
    static const U ut[] = {{0x41, "A"},          {0x7F, "\x7F"},           {0x80, "\xC2\x80"},         {0xE9, "\xC3\xA9"},
                           {0x7FF, "\xDF\xBF"},  {0x800, "\xE0\xA0\x80"},  {0x20AC, "\xE2\x82\xAC"},   {0xFFFD, "\xEF\xBF\xBD"},
                           {0xFFFF, "\xEF\xBF\xBF"}, {0x10000, "\xF0\x90\x80\x80"}, {0x1F600, "\xF0\x9F\x98\x80"}, {0x10FFFF, "\xF4\x8F\xBF\xBF"}};
    for (const U &u : ut)
        if (ref::utf8_of(u.cp) != u.enc) {
            fprintf(stderr, "selftest: reference UTF-8 encoder wrong for U+%X\n", u.cp);
            exit(2);
        }
    // (b) integer renderer against libc printf (third source) where the two notations coincide:
    //     %[-|0][#][+]<w>ll{d,x,X,o}; negative values only with d ('-' and '0' are not combined: printf lets '-' win)
    static const long long vals[] = {0, 1, 7, 8, 9, 10, 15, 16, 255, 256, 1234, 65535, 2147483647LL, 4294967296LL, 9223372036854775807LL,
                                     -1, -9, -10, -1234, -2147483648LL, -9223372036854775807LL - 1};
    for (long long v : vals)
        for (int conv = 0; conv < 4; ++conv)
            for (int w = 0; w <= 24; w += (w < 12 ? 1 : 6))
                for (int fl = 0; fl < 12; ++fl) {
                    bool hash = fl & 1, plus = fl & 2;
                    int padmode = fl / 4;  // 0 right/space, 1 left, 2 zero
                    const char cv = "dxXo"[conv];
                    if (conv != 0 && (v < 0 || plus)) continue;
                    if (conv == 0 && hash) continue;
                    std::string pf = "%";
                    if (padmode == 1) pf += '-';
                    if (padmode == 2) pf += '0';
                    if (hash) pf += '#';
                    if (plus) pf += '+';
                    if (w) pf += std::to_string(w);
                    pf += "ll";
                    pf += cv;
                    char buf[128];
                    snprintf(buf, sizeof buf, pf.c_str(), v);
                    std::string sf = "{";
                    if (padmode == 1) sf += '<';
                    if (padmode == 2) sf += '0';
                    if (hash) sf += '#';
                    if (plus) sf += '+';
                    if (w) sf += std::to_string(w);
                    sf += cv;
                    sf += '}';
                    ref::Rendered r = ref::render(ref::parse(sf), {ref::Arg::integer((wide_t)v)});
                    if (r.outcome != ref::R_TEXT || r.bytes != buf) {
                        fprintf(stderr, "selftest: reference renderer disagrees with printf: %s of %lld -> \"%s\" vs printf(%s) \"%s\"\n", sf.c_str(),
                                v, r.bytes.c_str(), pf.c_str(), buf);
                        exit(2);
                    }
                }
    // (c) fixed table from the property text / existing documentation examples
    struct R {
        const char *f;
        int kind;  // 0 int, 1 text, 2 bool
        long long iv;
        const char *tv;
        const char *want;
    };
    static const R rt[] = {{"{}", 0, 1234, "", "1234"},          {"{<08o}", 0, -1234, "", "-0002322"}, {"{#08x}", 0, -1234, "", "-0x004d2"},
                           {"{_06}", 0, -12, "", "000-12"},      {"{<+6x}", 0, 1234, "", "+4d2  "},    {"{#x}", 0, 0, "", "0"},
                           {"{#o}", 0, 8, "", "010"},            {"{#b}", 0, 5, "", "0b101"},          {"{.2}", 0, 1234, "", "1234"},
                           {"{.4}", 1, 0, "TESTXX", "TEST"},     {"{_-6}", 1, 0, "TEST", "TEST--"},    {"{>6}", 1, 0, "TEST", "  TEST"},
                           {"{06}", 2, 1, "", "true00"},         {">{.2_*6}", 2, 0, "", ">fa****"},    {"{c}", 0, 0x20AC, "", "\xE2\x82\xAC"},
                           {"{c}", 0, 0x100000041LL, "", "\xEF\xBF\xBD"}, {"{c}", 0, -1, "", "\xEF\xBF\xBD"}, {"{{{}}}", 0, 5, "", "{5}"},
                           {"}}x}", 0, 5, "", "}x}"},            {"{&1}{}{&1}", 0, 5, "", "555"},      {"{2}", 0, 5, "", " 5"}};
    for (const R &t : rt) {
        ref::Arg a = t.kind == 0 ? ref::Arg::integer(t.iv) : t.kind == 1 ? ref::Arg::str(t.tv) : ref::Arg::boolean(t.iv != 0);
        ref::Rendered r = ref::render(ref::parse(t.f), {a});
        if (r.outcome != ref::R_TEXT || r.bytes != t.want) {
            fprintf(stderr, "selftest: reference renderer wrong on %s: \"%s\" (outcome %s), want \"%s\"\n", t.f, r.bytes.c_str(),
                    ref::outcome_name(r.outcome), t.want);
            exit(2);
        }
    }
    {
        std::vector<ref::Arg> two = {ref::Arg::integer(1), ref::Arg::str("s")};
        if (ref::render(ref::parse("{}{&2}{}"), two).bytes != "1ss" || ref::render(ref::parse("{&2}{}{}"), two).bytes != "s1s" ||
            ref::render(ref::parse("{}{}{}"), two).outcome != ref::R_OUT_OF_RANGE ||
            ref::render(ref::parse("{&3}"), two).outcome != ref::R_OUT_OF_RANGE ||
            ref::render(ref::parse("{&0}"), two).outcome != ref::R_OUT_OF_RANGE ||
            ref::render(ref::parse("{c4}"), two).outcome != ref::R_CONTRACT_ASSERT ||
            ref::render(ref::parse("{"), two).outcome != ref::R_BAD_FORMAT) {
            fprintf(stderr, "selftest: reference argument selection / outcome classification wrong\n");
            exit(2);
        }
    }
    // (d) the field builder says what it means: every option tuple, two natural lengths, parsed back by the reference parser
    for (uint64_t i = 0; i < full.size(); ++i) {
        Opt q = decode_opt(i, full);
        for (size_t nat : {(size_t)1, (size_t)11}) {
            long long w = width_of(q.w, nat);
            std::string f = field_text(q, w);
            ref::Parsed p = ref::parse(f);
            if (p.status != ref::WELL_FORMED || p.pieces.size() != 1 || !p.pieces[0].is_field || !spec_matches(p.pieces[0].spec, q, w)) {
                fprintf(stderr, "selftest: field builder and reference parser disagree on %s\n", f.c_str());
                exit(2);
            }
        }
    }
}

static void build(vf::Plan &plan, const vf::Opts &o)
{
    Dims full;
    selftest(full);
    build_tables();
    g_mf_int255 = int_val(T_INT, 255);
    g_mf_intm7 = int_val(T_INT, (uint64_t)(long long)-7);
    g_mf_u42 = int_val(T_UINT, 42);
    g_mf_true = int_val(T_BOOL, 1);
    g_mf_str = text_val(T_CSTR, U"str");
    g_mf_hello = text_val(T_STSTRING, U"hello");

    plan.rule = "cases = (argument value, field option tuple) pairs and multi-field format strings; non-trivial = the reference outcome is text, "
                "the library call succeeded, and either the rendering differs from the plain {} rendering of the same argument "
                "(single field) or the string has at least two fields or one field next to a brace escape / lone brace (multi field)";
    plan.assumptions = {
        "reference renderer checked at start-up against libc printf (d/x/X/o with width, +, #, 0, -) and a table taken from the property text",
        "a field that sets one option twice with different values is not enumerated: which one wins is not specified; for a field with two "
        "different pad items (_C and 0, or _C and _D) the result must equal the specified rendering with one of the two items removed",
        "non-ASCII text is only compared where no precision / width applies (byte vs character counting is not specified)",
        "char8_t with the character class is skipped (documented code-unit pass-through); null C strings are not enumerated",
        "floating-point arguments are C13's; the f/e/E letters are enumerated here only as items that must not disturb other types",
        "integer values wider than 8 bits come from a boundary / code-point table, not from a complete sweep (that is C12's digit sweep)"};

    // the boundary table always gets the full option product
    Dims dq = full;
    const uint64_t per = dq.size();
    plan.stage(strf("one-field: %zu boundary values x %llu option tuples", g_vals.size(), (unsigned long long)per), (uint64_t)g_vals.size() * per,
               [dq, per](uint64_t i, Ctx &c) { run_single(c, g_vals[i / per], decode_opt(i % per, dq)); },
               [dq, per](uint64_t i) { return describe_single(g_vals[i / per], decode_opt(i % per, dq)); });

    // the complete 8-bit sweep: full product in the thorough tier, reduced widths / no precision / canonical order in quick
    Dims ds = full;
    if (!o.thorough()) {
        ds.nW = 3;  // none, nat+1, nat+3
        ds.nR = 1;
        ds.nO = 1;
    }
    const uint64_t pers = ds.size();
    plan.stage(strf("one-field: all 512 signed/unsigned char values x %llu option tuples", (unsigned long long)pers), (uint64_t)g_small.size() * pers,
               [ds, pers](uint64_t i, Ctx &c) { run_single(c, g_small[i / pers], decode_opt(i % pers, ds)); },
               [ds, pers](uint64_t i) { return describe_single(g_small[i / pers], decode_opt(i % pers, ds)); });

    for (long long x : {-1234LL, 1234LL, 0LL, 255LL, -1LL}) g_po_vals.push_back(int_val(T_INT, (uint64_t)x));
    g_po_vals.push_back(int_val(T_LLONG, (uint64_t)std::numeric_limits<long long>::min()));
    g_po_vals.push_back(int_val(T_ULLONG, ~uint64_t(0)));
    g_po_vals.push_back(int_val(T_SCHAR, (uint64_t)(long long)-7));
    g_po_vals.push_back(int_val(T_BOOL, 1));
    g_po_vals.push_back(text_val(T_CSTR, U"abc"));
    g_po_vals.push_back(text_val(T_STSTRING, U"hello"));
    plan.stage(strf("one-field with two pad items (0/_*/_0/_- in both orders) x align x # x + x class x width x %zu values", g_po_vals.size()),
               padover_count(), [](uint64_t i, Ctx &c) { run_padover(c, decode_padover(i)); },
               [](uint64_t i) {
                   PadOver q = decode_padover(i);
                   return strf("ST::format(%s with width nat%s, %s)", vf::vis(padover_text(q, 0, 3)).c_str(), q.w == 0 ? "+1" : q.w == 1 ? "+4" : "",
                               describe_val(g_po_vals[q.v]).c_str());
               });

    // ---- width sweep: every minimum width up to the bound (the output crosses the 256-byte in-object buffer of the
    //      stream it is assembled in and the following doublings), three alignments, three pad kinds
    {
        static std::vector<Val> wv;
        wv.push_back(int_val(T_INT, (uint64_t)(long long)-42));
        wv.push_back(int_val(T_ULLONG, ~uint64_t(0)));
        wv.push_back(text_val(T_CSTR, U"ab"));
        wv.push_back(text_val(T_STSTRING, U"twenty-characters-ok"));
        wv.push_back(int_val(T_BOOL, 1));
        const unsigned WMAX = o.thorough() ? 2100 : 600;
        static const char *const WA[3] = {"", "<", ">"};
        static const char *const WP[3] = {"", "0", "_*"};
        static const char *const WC[3] = {"", "x", "#x"};
        auto mk = [WMAX](uint64_t i, unsigned &vi) {
            vi = (unsigned)vf::take(i, wv.size());
            std::string f = "{";
            f += WA[vf::take(i, 3)];
            f += WP[vf::take(i, 3)];
            unsigned cl = (unsigned)vf::take(i, 3);
            if (cl == 2) f += "#";
            f += std::to_string(1 + (unsigned)i);
            if (cl) f += "x";
            return "[" + f + "}]";
        };
        plan.stage(strf("one-field: width sweep 1..%u x 3 alignments x {none,0,_*} x {none,x,#x} x %zu values", WMAX, wv.size()),
                   (uint64_t)wv.size() * 3 * 3 * 3 * WMAX,
                   [mk](uint64_t i, Ctx &c) {
                       unsigned vi;
                       std::string f = mk(i, vi);
                       const Val &v = wv[vi];
                       ref::Rendered want = ref::render(ref::parse(f), {model_of(v)});
                       if (want.outcome != ref::R_TEXT) {
                           VF_COUNT("out:skipped(reference-not-text)");
                           return;
                       }
                       const char *fp = g_arena.place(f.c_str(), f.size() + 1);
                       ST::string got;
                       vf::Outcome oc = vf::guard([&] { got = call1(fp, v); });
                       VF_COUNT("ops");
                       heap_events(c, f);
                       const char *fam = is_int_type(v.type) ? "int" : v.type == T_BOOL ? "bool" : "text";
                       if (!oc.ok()) {
                           c.fail(strf("field:width-sweep:%s:unexpected-%s", fam, out_slug(oc).c_str()),
                                  strf("ST::format(%s, %s) -> %s", vf::vis(f).c_str(), describe_val(v).c_str(), oc.str().c_str()));
                           return;
                       }
                       VF_COUNT("validated");
                       std::string g(got.c_str(), got.size());
                       if (g == want.bytes) {
                           VF_COUNT("out:equal");
                           c.nontrivial();
                           return;
                       }
                       const char *wc = want.bytes.size() <= 257 ? "output<=255" : want.bytes.size() <= 513 ? "output 256..511" : "output>=512";
                       c.fail(strf("field:width-sweep:%s:%s:%s", fam, diff_kind(want.bytes, g), wc),
                              strf("ST::format(%s, %s) = %s (%zu bytes) ; specified rendering %s (%zu bytes)", vf::vis(f).c_str(), describe_val(v).c_str(),
                                   vf::vis(g.substr(0, 40)).c_str(), g.size(), vf::vis(want.bytes.substr(0, 40)).c_str(), want.bytes.size()));
                   },
                   [mk](uint64_t i) {
                       unsigned vi;
                       std::string f = mk(i, vi);
                       return strf("ST::format(%s, %s)", vf::vis(f).c_str(), describe_val(wv[vi]).c_str());
                   });
    }

    plan.stage(strf("user-defined argument types whose format_type calls ST::format (1 and 2 levels): %u format strings x 4 argument lists x 3 entry points", (unsigned)N_NEST_FMT),
               (uint64_t)N_NEST_FMT * 4 * 3, [](uint64_t i, Ctx &c) { run_nested(c, i); },
               [](uint64_t i) {
                   unsigned fi = (unsigned)vf::take(i, N_NEST_FMT), kind = (unsigned)vf::take(i, 4), sink = (unsigned)vf::take(i, 3);
                   return strf("format %s, argument list #%u, entry point #%u", vf::vis(NEST_FMT[fi]).c_str(), kind, sink);
               });

    plan.stage("user-defined format_type writing through every format_writer method (array literals and pointer + size with embedded NULs, character runs) x 3 format shapes",
               8 * 3, [](uint64_t i, Ctx &c) { run_writer_probe(c, i); }, [](uint64_t i) { return strf("writer probe #%u, shape #%u", (unsigned)(i % 8), (unsigned)(i / 8)); });
    plan.stage(strf("text argument length: %u lengths (0..70, around 85 / 128 / 256) of a repeated 1-/2-/3-/4-byte character x %u text argument types", (unsigned)N_TL_LENS,
                    (unsigned)N_TL_TYPES),
               (uint64_t)N_TL_TYPES * 4 * N_TL_LENS, [](uint64_t i, Ctx &c) { run_text_length(c, i); },
               [](uint64_t i) {
                   unsigned ty = (unsigned)vf::take(i, N_TL_TYPES), ci = (unsigned)vf::take(i, 4), n = TL_LENS[vf::take(i, N_TL_LENS)];
                   return strf("%s, %u characters of width class %u", TL_TYPE[ty], n, ci);
               });

    plan.stage("std::filesystem::path arguments (generic and non-generic texts) x 5 fields: rendered as the path's own text, like the same text given as a string", 7 * 5,
               [](uint64_t i, Ctx &c) {
                   static const char *const PT[7] = {"a//b", "./a/../b/", "//srv/share\\x", "d\xC3\xA9/f", "", "dir///sub//file.txt", "trailing/"};
                   static const char *const PF[5] = {"{}", "{>14}|", "{<14}|", "{.3}", "[{_*16}]"};
                   const char *t = PT[i % 7], *f = PF[i / 7];
                   std::string got, want;
                   vf::Outcome oc = vf::guard([&] {
                       ST::string a = ST::format(f, std::filesystem::path(std::u8string((const char8_t *)t)));
                       ST::string b = ST::format(f, std::string(t));
                       got.assign(a.c_str(), a.size());
                       want.assign(b.c_str(), b.size());
                   });
                   VF_COUNT("validated");
                   if (!oc.ok()) c.fail(strf("path-argument:unexpected-%s", out_slug(oc).c_str()), strf("format %s of path %s -> %s", f, vf::vis(t).c_str(), oc.str().c_str()));
                   else if (got != want)
                       c.fail(strf("path-argument:%s", diff_kind(want, got)), strf("format %s of path %s gives %s, of the same text as a string %s", f, vf::vis(t).c_str(), vf::vis(got).c_str(), vf::vis(want).c_str()));
                   c.nontrivial();
               },
               [](uint64_t i) { return strf("path text #%u, field #%u", (unsigned)(i % 7), (unsigned)(i / 7)); });

    // argument references with two digits (twelve arguments)
    plan.stage("argument references {&1} .. {&12} with twelve arguments, alone, combined, with options and with leading zeros", 12 + 12,
               [](uint64_t i, Ctx &c) {
                   std::string f, want;
                   if (i < 12) {
                       f = "{&" + std::to_string(i + 1) + "}";
                       want = std::to_string(101 + i);
                   } else {
                       // (numbers in a specifier are decimal, leading zeros or not: {&010} is argument 10, {.010} precision 10, {5.08} width 5 precision 8)
                       static const char *const F[12] = {"{&1}{&12}", "{&10x}", "{&12>5}|", "{&9}{&10}", "[{&11<6}]", "{&10}{&1}{&10}",
                                                         "{&010}", "{&09}", "{&012x}", "{&0010>4}|", "{&08}{&011}", "{&1}{&009}"};
                       static const char *const W[12] = {"101112", "6e", "  112|", "109110", "[111   ]", "110101110", "110", "109", "70", " 110|", "108111", "101109"};
                       f = F[i - 12];
                       want = W[i - 12];
                   }
                   std::string got;
                   vf::Outcome oc = vf::guard([&] {
                       ST::string r = ST::format(f.c_str(), 101, 102, 103, 104, 105, 106, 107, 108, 109, 110, 111, 112);
                       got.assign(r.c_str(), r.size());
                   });
                   VF_COUNT("validated");
                   if (!oc.ok()) c.fail(strf("argument-reference:unexpected-%s", out_slug(oc).c_str()), strf("format %s with twelve arguments -> %s", f.c_str(), oc.str().c_str()));
                   else if (got != want) c.fail(strf("argument-reference:%s", diff_kind(want, got)), strf("format %s of 101..112 gives %s, expected %s", f.c_str(), vf::vis(got).c_str(), want.c_str()));
                   c.nontrivial();
               },
               [](uint64_t i) { return strf("argument reference case %u", (unsigned)i); });
    // a precision on text arguments of every width: the same bytes (or the same refusal) as for the UTF-8 text given as a std::string -
    // the cut is made in the UTF-8 form, wherever a unit boundary of the argument's own encoding lies
    plan.stage("precision 0..9 x 6 mixed-width texts x 13 wide / narrow text argument types: same result as the UTF-8 std::string argument", 10 * 6 * 13,
               [](uint64_t i, Ctx &c) {
                   static const char32_t *const TX[6] = {U"\u00e9\U0001F600", U"a\U0001F600b", U"\U0001F600\U0001F600", U"ab\u20ac\u00e9", U"\u20ac\U0001F600\u00e9z", U"plain"};
                   unsigned pr = (unsigned)vf::take(i, 10), ti = (unsigned)vf::take(i, 6), ty = (unsigned)i;
                   std::u32string t32 = TX[ti];
                   ST::string ref = ST::string::from_utf32(t32.data(), t32.size());
                   std::string u8(ref.c_str(), ref.size());
                   std::wstring tw(t32.begin(), t32.end());
                   ST::utf16_buffer b16 = ref.to_utf16();
                   std::u16string t16(b16.data(), b16.size());
                   std::string f = "[{." + std::to_string(pr) + "}]";
                   auto run = [&](int which, std::string &out) {
                       return vf::guard([&] {
                           ST::string r;
                           switch (which) {
                           case -1: r = ST::format(f.c_str(), u8); break;
                           case 0: r = ST::format(f.c_str(), u8.c_str()); break;
                           case 1: r = ST::format(f.c_str(), std::string_view(u8)); break;
                           case 2: r = ST::format(f.c_str(), ref); break;
                           case 3: r = ST::format(f.c_str(), tw.c_str()); break;
                           case 4: r = ST::format(f.c_str(), tw); break;
                           case 5: r = ST::format(f.c_str(), std::wstring_view(tw)); break;
                           case 6: r = ST::format(f.c_str(), t16.c_str()); break;
                           case 7: r = ST::format(f.c_str(), t16); break;
                           case 8: r = ST::format(f.c_str(), std::u16string_view(t16)); break;
                           case 9: r = ST::format(f.c_str(), t32.c_str()); break;
                           case 10: r = ST::format(f.c_str(), t32); break;
                           case 11: r = ST::format(f.c_str(), std::u32string_view(t32)); break;
                           default: r = ST::format(f.c_str(), ST::utf16_buffer(t16.data(), t16.size())); break;
                           }
                           out.assign(r.c_str(), r.size());
                       });
                   };
                   std::string want, got;
                   vf::Outcome ow = run(-1, want), og = run((int)ty, got);
                   VF_COUNT("validated");
                   if (ow.kind != og.kind || (ow.ok() && want != got))
                       c.fail(strf("text-argument-precision:%s:differs-from-the-std::string-argument", TL_TYPE[ty < 3 ? (ty == 2 ? 3 : ty == 1 ? 2 : 0) : ty + 4 > 16 ? 16 : ty + 4]),
                              strf("format %s of text #%u as argument type #%u: %s; as std::string: %s", f.c_str(), ti, ty, og.ok() ? vf::vis(got).c_str() : og.str().c_str(),
                                   ow.ok() ? vf::vis(want).c_str() : ow.str().c_str()));
                   if (pr > 0 && pr < u8.size()) c.nontrivial();
               },
               [](uint64_t i) { return strf("precision case %u", (unsigned)i); });

    plan.stage("user-defined type formatted BY VALUE and referenced by several fields; null / empty views with a width; leading zeros in width and precision", 16,
               [](uint64_t i, Ctx &c) {
                   std::string got, want;
                   const char *what = "";
                   vf::Outcome oc = vf::guard([&] {
                       ST::string r;
                       switch (i) {
                       case 0: what = "{}|{&1}"; r = ST::format("{}|{&1}", ByValueLabel{"a-label-that-is-longer-than-any-small-string-buffer"}); want = "a-label-that-is-longer-than-any-small-string-buffer|a-label-that-is-longer-than-any-small-string-buffer"; break;
                       case 1: what = "{&1}{&1}{&1}"; r = ST::format("{&1}{&1}{&1}", ByValueLabel{"0123456789abcdefXYZ"}); want = "0123456789abcdefXYZ0123456789abcdefXYZ0123456789abcdefXYZ"; break;
                       case 2: what = "{.7}|{>9.7&1}|"; r = ST::format("{.7}|{>9.7&1}|", ByValueLabel{"a-label-of-some-length"}); want = "a-label|  a-label|"; break;
                       case 3: what = "{}{}{&2}{&1}"; r = ST::format("{}{}{&2}{&1}", ByValueLabel{"first-value-long-enough"}, ByValueLabel{"second-value-long-enough"}); want = "first-value-long-enoughsecond-value-long-enoughsecond-value-long-enoughfirst-value-long-enough"; break;
                       case 4: what = "[{4}] of std::string_view()"; r = ST::format("[{4}]", std::string_view()); want = "[    ]"; break;
                       case 5: what = "[{>3_*}] of std::string_view()"; r = ST::format("[{>3_*}]", std::string_view()); want = "[***]"; break;
                       case 6: what = "[{<5_-}] of std::u8string_view()"; r = ST::format("[{<5_-}]", std::u8string_view()); want = "[-----]"; break;
                       case 7: what = "[{3}] of std::wstring_view()"; r = ST::format("[{3}]", std::wstring_view()); want = "[   ]"; break;
                       case 8: what = "[{3}] of std::u16string_view() and std::u32string_view()"; r = ST::format("[{3}][{2}]", std::u16string_view(), std::u32string_view()); want = "[   ][  ]"; break;
                       case 9: what = "[{4}] of an empty ST::string / std::string / char_buffer"; r = ST::format("[{4}][{4}][{4}]", ST::string(), std::string(), ST::char_buffer()); want = "[    ][    ][    ]"; break;
                       case 10: what = "{.010}"; r = ST::format("{.010}", "abcdefghijkl"); want = "abcdefghij"; break;
                       case 11: what = "{.08}"; r = ST::format("{.08}", "abcdefghijkl"); want = "abcdefgh"; break;
                       case 12: what = "{12.010}|"; r = ST::format("{12.010}|", "abcdefghijkl"); want = "abcdefghij  |"; break;
                       case 13: what = "{.009}"; r = ST::format("{.009}", "abcdefghijkl"); want = "abcdefghi"; break;
                       case 14: what = "{.010f}"; r = ST::format("{.010f}", 0.5); want = "0.5000000000"; break;
                       default: what = "{>012.03f}|"; r = ST::format("{>12.03f}|", 1.5); want = "       1.500|"; break;
                       }
                       got.assign(r.c_str(), r.size());
                   });
                   VF_COUNT("validated");
                   if (!oc.ok()) c.fail(strf("special-arguments:unexpected-%s", out_slug(oc).c_str()), strf("format %s -> %s", what, oc.str().c_str()));
                   else if (got != want) c.fail(strf("special-arguments:%s", diff_kind(want, got)), strf("format %s gives %s, expected %s", what, vf::vis(got).c_str(), vf::vis(want).c_str()));
                   c.nontrivial();
               },
               [](uint64_t i) { return strf("special argument case %u", (unsigned)i); });

    plan.stage("a _stfmt formatter object called three times with different arguments (5 format strings)", 5,
               [](uint64_t i, Ctx &c) { run_formatter_reuse(c, i); }, [](uint64_t i) { return strf("format string #%u", (unsigned)i); });

    for (unsigned k = 0; k <= 3; ++k)
        plan.stage(strf("multi-field: %u field(s) from 10 x literals from 6 x 1..3 arguments", k), multi_count(k, 6),
                   [k](uint64_t i, Ctx &c) { run_multi(c, decode_multi(i, k, LIT_ALL, 6)); },
                   [k](uint64_t i) {
                       Multi m = decode_multi(i, k, LIT_ALL, 6);
                       return strf("ST::format(%s, %s)", vf::vis(multi_text(m)).c_str(), multi_args_text(m.nargs));
                   });
    if (o.thorough())
        plan.stage("multi-field: 4 fields from 10 x literals from {\"\",\"}}\",\"a{{b}}\"} x 1..3 arguments", multi_count(4, 3),
                   [](uint64_t i, Ctx &c) { run_multi(c, decode_multi(i, 4, LIT_CORE, 3)); },
                   [](uint64_t i) {
                       Multi m = decode_multi(i, 4, LIT_CORE, 3);
                       return strf("ST::format(%s, %s)", vf::vis(multi_text(m)).c_str(), multi_args_text(m.nargs));
                   });
    vf_early::add_stage(plan);
}

VF_MAIN("C11", build)
