// C01 - well-formed text transcodes losslessly and to the standard encoding, by every public
// route and in every validation mode.
//   stage 1: every Unicode scalar value (complete: 1,112,064) in neighbour contexts, primary routes
//   stage 2: every sequence over the boundary alphabet B up to length L, ALL routes
//   stage 3: Latin-1: all 256^2 byte pairs + every byte between neighbours, all routes + round trips
//   stage 4: conversion chains through the library's own outputs (B^<=3)
#define UTF_PROP 1
#include "utf_harness.h"
#include <filesystem>

static const uint32_t NB[4] = {0x41, 0xE9, 0x20AC, 0x1F600};  // 1-,2-,3-,4-byte neighbours

// context k of scalar c -> code point sequence
//  0: [c]   1..4: [n,c]   5..8: [c,n]   9..24: [n,c,n']
static void ctx_seq(unsigned k, uint32_t c, U32V &cps)
{
    cps.clear();
    if (k == 0) cps = {c};
    else if (k <= 4) cps = {NB[k - 1], c};
    else if (k <= 8) cps = {c, NB[k - 5]};
    else cps = {NB[(k - 9) / 4], c, NB[(k - 9) % 4]};
}
static const unsigned QUICK_CTX[4] = {0, 4, 8, 12};  // alone, [n4,c], [c,n4], [n1,c,n4]

static std::string show_cps(const U32V &cps);
static void path_routes(Ctx &c, const U32V &cps);
static void run_all_encodings(Ctx &c, const U32V &cps, const RunOpts &ro)
{
    U32V units;
    for (ref::Enc e : {ref::E8, ref::E16, ref::E32}) {
        encode_cps(cps, e, units);
        run_case(c, e, units, ro);
    }
    if (ro.primary_only) return;
    path_routes(c, cps);
}

static void path_routes(Ctx &c, const U32V &cps)
{
    U32V units;
    // std::filesystem::path routes (well-formed text only, so they live here and not in the shared route table): the path
    // holds the text in the platform's narrow encoding, every way in and out must reproduce the UTF-8 bytes
    encode_cps(cps, ref::E8, units);
    std::string u8(units.begin(), units.end());
    vf::Outcome oc = vf::guard([&] {
        ST::string s = ST::string::from_validated(u8.data(), u8.size());
        std::filesystem::path p = s.to_path();
        std::u8string back = p.u8string();
        ST::string viaset("old");
        viaset.set(p);
        ST::string viaassign;
        viaassign = p;
        VF_ADD("ops", 5);
        VF_COUNT("validated");
        auto same = [&](const ST::string &x) { return x.size() == u8.size() && memcmp(x.c_str(), u8.data(), u8.size()) == 0; };
        if (std::string((const char *)back.data(), back.size()) != u8) c.fail("c01:s_to_path:wrong-units", show_cps(cps) + " : to_path().u8string() differs from the UTF-8 text");
        if (!same(ST::string::from_path(p)) || !same(ST::string(p)) || !same(viaset) || !same(viaassign))
            c.fail("c01:path_to_s:wrong-units", show_cps(cps) + " : from_path / constructor / set / assignment from a path differs from the UTF-8 text");
    });
    if (!oc.ok()) c.fail(std::string("c01:path-routes:") + vf::outkind_name(oc.kind), show_cps(cps) + " : " + oc.str());
}

static std::string show_cps(const U32V &cps)
{
    std::string o = "scalars";
    for (uint32_t v : cps) o += strf(" U+%04X", v);
    return o;
}

// chain: push the sequence through library conversions only, each hop's input being the previous
// hop's *library* output; the end must equal the start and every intermediate the reference
static void run_chains(Ctx &c, const U32V &cps)
{
    U32V r8, r16, r32;
    encode_cps(cps, ref::E8, r8);
    encode_cps(cps, ref::E16, r16);
    encode_cps(cps, ref::E32, r32);
    std::string s8;
    for (uint32_t u : r8) s8 += (char)u;
    auto eq8 = [&](const ST::char_buffer &b) {
        if (b.size() != r8.size()) return false;
        for (size_t i = 0; i < b.size(); ++i)
            if ((unsigned char)b.data()[i] != r8[i]) return false;
        return true;
    };
    auto eq16 = [&](const ST::utf16_buffer &b) {
        if (b.size() != r16.size()) return false;
        for (size_t i = 0; i < b.size(); ++i)
            if (b.data()[i] != r16[i]) return false;
        return true;
    };
    auto eq32 = [&](const char32_t *p, size_t n) {
        if (n != r32.size()) return false;
        for (size_t i = 0; i < n; ++i)
            if ((uint32_t)p[i] != r32[i]) return false;
        return true;
    };
    static const ST::utf_validation_t M[3] = {ST::assume_valid, ST::substitute_invalid, ST::check_validity};
    for (int m = 0; m < 3; ++m) {
        vf::Outcome oc = vf::guard([&] {
            // 8 -> 16 -> 32 -> 8
            ST::utf16_buffer a = ST::utf8_to_utf16(s8.data(), s8.size(), M[m]);
            ST::utf32_buffer b = ST::utf16_to_utf32(a, M[m]);
            ST::char_buffer d = ST::utf32_to_utf8(b, M[m]);
            VF_ADD("ops", 3);
            if (!eq16(a) || !eq32(b.data(), b.size()) || !eq8(d)) c.fail("c01:chain:8-16-32-8", show_cps(cps));
            // 8 -> 32 -> 16 -> 8
            ST::utf32_buffer e = ST::utf8_to_utf32(s8.data(), s8.size(), M[m]);
            ST::utf16_buffer f = ST::utf32_to_utf16(e, M[m]);
            ST::char_buffer g = ST::utf16_to_utf8(f, M[m]);
            VF_ADD("ops", 3);
            if (!eq32(e.data(), e.size()) || !eq16(f) || !eq8(g)) c.fail("c01:chain:8-32-16-8", show_cps(cps));
            // 8 -> wchar -> 16 -> wchar -> 32 -> wchar -> 8
            ST::wchar_buffer w1 = ST::utf8_to_wchar(s8.data(), s8.size(), M[m]);
            ST::utf16_buffer h = ST::wchar_to_utf16(w1, M[m]);
            ST::wchar_buffer w2 = ST::utf16_to_wchar(h, M[m]);
            ST::utf32_buffer i32 = ST::wchar_to_utf32(w2, M[m]);
            ST::wchar_buffer w3 = ST::utf32_to_wchar(i32, M[m]);
            ST::char_buffer j = ST::wchar_to_utf8(w3, M[m]);
            VF_ADD("ops", 6);
            if (!eq32((const char32_t *)w1.data(), w1.size()) || !eq16(h) || !eq32((const char32_t *)w2.data(), w2.size()) ||
                !eq32(i32.data(), i32.size()) || !eq32((const char32_t *)w3.data(), w3.size()) || !eq8(j))
                c.fail("c01:chain:8-w-16-w-32-w-8", show_cps(cps));
            // through ST::string members
            ST::string s(s8.data(), s8.size(), M[m]);
            ST::string t = ST::string::from_utf16(s.to_utf16(), M[m]);
            ST::string u = ST::string::from_utf32(t.to_utf32(), M[m]);
            ST::string v = ST::string::from_wchar(u.to_wchar(), M[m]);
            ST::string w = ST::string::from_std_string(v.to_std_u16string(), M[m]);
            ST::string x = ST::string::from_std_string(w.to_std_u32string(), M[m]);
            ST::string y = ST::string::from_std_wstring(x.to_std_wstring(), M[m]);
            ST::string z = ST::string::from_std_string(y.to_std_string(), M[m]);
            VF_ADD("ops", 15);
            if (!eq8(z.to_utf8()) || !eq8(t.to_utf8()) || !eq8(u.to_utf8()) || !eq8(v.to_utf8()))
                c.fail("c01:chain:string-members", show_cps(cps));
        });
        VF_COUNT("validated");
        if (!oc.ok()) c.fail(strf("c01:chain:%s", vf::outkind_name(oc.kind)), show_cps(cps) + " " + oc.str());
    }
    c.nontrivial();
}

// Latin-1: bytes -> every UTF form (EL1 routes) and back through the library
static void run_latin1(Ctx &c, const U32V &bytes)
{
    RunOpts ro;
    run_case(c, ref::EL1, bytes, ro);
    std::string s;
    for (uint32_t b : bytes) s += (char)b;
    vf::Outcome oc = vf::guard([&] {
        static const ST::utf_validation_t M[3] = {ST::assume_valid, ST::substitute_invalid, ST::check_validity};
        for (int m = 0; m < 3; ++m)
            for (int sub = 0; sub < 2; ++sub) {
                ST::char_buffer a = ST::utf8_to_latin_1(ST::latin_1_to_utf8(s.data(), s.size()), M[m], sub);
                ST::char_buffer b = ST::utf16_to_latin_1(ST::latin_1_to_utf16(s.data(), s.size()), M[m], sub);
                ST::char_buffer d = ST::utf32_to_latin_1(ST::latin_1_to_utf32(s.data(), s.size()), M[m], sub);
                ST::char_buffer e = ST::wchar_to_latin_1(ST::latin_1_to_wchar(s.data(), s.size()), M[m], sub);
                ST::char_buffer f = ST::string::from_latin_1(s.data(), s.size()).to_latin_1(sub);
                std::string g = ST::string::from_latin_1(ST::char_buffer(s.data(), s.size())).to_std_string(false, sub);
                VF_ADD("ops", 12);
                VF_COUNT("validated");
                const ST::char_buffer *all[5] = {&a, &b, &d, &e, &f};
                static const char *nm[5] = {"utf8", "utf16", "utf32", "wchar", "string"};
                for (int k = 0; k < 5; ++k)
                    if (all[k]->size() != s.size() || memcmp(all[k]->data(), s.data(), s.size()) != 0)
                        c.fail(strf("c01:latin1-roundtrip:%s", nm[k]), show_units(ref::EL1, bytes) + " came back as " +
                                                                           vf::hex_units(all[k]->data(), all[k]->size()));
                if (g != s) c.fail("c01:latin1-roundtrip:std_string", show_units(ref::EL1, bytes));
            }
    });
    if (!oc.ok()) c.fail(strf("c01:latin1-roundtrip:%s", vf::outkind_name(oc.kind)), show_units(ref::EL1, bytes) + " " + oc.str());
}

static void build(vf::Plan &plan, const vf::Opts &o)
{
    selftest();
    plan.rule = "cases = distinct scalar/byte sequences of the listed complete domains; every case is compared unit for unit with "
                "the reference encoding through every listed route and mode; non-trivial = at least one route produced output "
                "that was compared (all cases)";
    plan.assumptions = {"reference encoders validated against CPython codecs by CRC over all 1,112,064 scalar values",
                        "sequences longer than 3 scalars are covered over the boundary alphabet only (the decoders have a 4-unit window)",
                        "chains of conversions follow from single hops: every hop is checked exact on every reference encoding in the "
                        "enumerated set, and stage 4 additionally feeds library output into the next hop"};
    // the ASan+UBSan build of the thorough tier runs the quick bounds (it is ~8x slower per case); the plain build the large ones
#ifdef VF_ASAN
    const bool big = false;
#else
    const bool big = o.thorough();
#endif
    unsigned nctx = big ? 25 : 4;
    plan.stage(strf("all-scalars x %u contexts (primary routes, 3 source encodings, all modes)", nctx), (uint64_t)NSCALARS * nctx,
               [=](uint64_t i, Ctx &c) {
                   unsigned k = (unsigned)(i / NSCALARS);
                   uint32_t v = nth_scalar((uint32_t)(i % NSCALARS));
                   U32V cps;
                   ctx_seq(nctx == 25 ? k : QUICK_CTX[k], v, cps);
                   RunOpts ro;
                   ro.primary_only = true;
                   run_all_encodings(c, cps, ro);
               },
               [=](uint64_t i) {
                   unsigned k = (unsigned)(i / NSCALARS);
                   U32V cps;
                   ctx_seq(nctx == 25 ? k : QUICK_CTX[k], nth_scalar((uint32_t)(i % NSCALARS)), cps);
                   return show_cps(cps);
               });
    unsigned L = big ? 5 : 4;
    plan.stage(strf("B^<=%u (all routes, 3 source encodings, all modes)", L), vf::seq_count(B.size(), L),
               [=](uint64_t i, Ctx &c) {
                   U32V cps;
                   seq_from(i, B, L, cps);
                   RunOpts ro;
                   run_all_encodings(c, cps, ro);
               },
               [=](uint64_t i) {
                   U32V cps;
                   seq_from(i, B, L, cps);
                   return show_cps(cps);
               });
    if (big) {
        plan.stage("B^6 (primary routes)", vf::ipow(B.size(), 6),
                   [=](uint64_t i, Ctx &c) {
                       U32V cps;
                       seq_exact(i, B, 6, cps);
                       RunOpts ro;
                       ro.primary_only = true;
                       run_all_encodings(c, cps, ro);
                   },
                   [=](uint64_t i) {
                       U32V cps;
                       seq_exact(i, B, 6, cps);
                       return show_cps(cps);
                   });
    }
    // every length across the in-object limits of all buffer types (16 units of 1 or 2 bytes, 12 units of 4 bytes) and a few
    // doublings beyond: n copies of a 1-, 2-, 3- or 4-byte scalar, optionally with a different last scalar, all routes
    {
        const unsigned NMAXLEN = big ? 300 : 70;
        static const uint32_t FILLCP[4] = {0x61, 0xE9, 0x20AC, 0x1F600};
        plan.stage(strf("length sweep: 0..%u copies of a 1-/2-/3-/4-byte scalar (+ a different last one), all routes, 3 source encodings", NMAXLEN),
                   (uint64_t)(NMAXLEN + 1) * 4 * 2,
                   [](uint64_t i, Ctx &c) {
                       unsigned tail = (unsigned)vf::take(i, 2), k = (unsigned)vf::take(i, 4);
                       U32V cps((size_t)i, FILLCP[k]);
                       if (tail) cps.push_back(FILLCP[(k + 1) % 4]);
                       RunOpts all;
                       run_all_encodings(c, cps, all);
                       c.nontrivial();
                   },
                   [](uint64_t i) {
                       unsigned tail = (unsigned)vf::take(i, 2), k = (unsigned)vf::take(i, 4);
                       return strf("%llu x U+%04X%s", (unsigned long long)i, FILLCP[k], tail ? strf(" + U+%04X", FILLCP[(k + 1) % 4]).c_str() : "");
                   });
    }
    // path routes on texts made of separators and dots (a path may normalise what it prints, not what it stores)
    {
        static const uint32_t PA[6] = {'/', 'a', '.', '\\', ' ', 0xE9};
        const unsigned PL = big ? 7 : 6;
        plan.stage(strf("path routes: {/,a,.,\\,space,U+00E9}^<=%u", PL), vf::seq_count(6, PL),
                   [PL](uint64_t i, Ctx &c) {
                       std::vector<unsigned> d;
                       vf::seq_decode(i, 6, PL, d);
                       U32V cps;
                       for (unsigned k : d) cps.push_back(PA[k]);
                       RunOpts ro;
                       path_routes(c, cps);
                       (void)ro;
                       if (cps.size() >= 2) c.nontrivial();
                   },
                   [PL](uint64_t i) {
                       std::vector<unsigned> d;
                       vf::seq_decode(i, 6, PL, d);
                       U32V cps;
                       for (unsigned k : d) cps.push_back(PA[k]);
                       return show_cps(cps);
                   });
    }
    // every scalar value as a single character argument: concatenation and += with wchar_t / char32_t (and char16_t in the BMP) on
    // either side - one character in, its standard UTF-8 form appended
    plan.stage("all scalars as a character operand of + and += (wchar_t, char32_t, char16_t; left and right)", NSCALARS,
               [](uint64_t i, Ctx &c) {
                   uint32_t v = nth_scalar((uint32_t)i);
                   U32V cps = {v}, u8;
                   encode_cps(cps, ref::E8, u8);
                   std::string w;
                   for (uint32_t b : u8) w += (char)b;
                   const std::string pre = "ab", wl = w + pre, wr = pre + w;
                   ST::string base = ST::string::from_validated("ab", 2);
                   auto bytes = [](const ST::string &x) { return std::string(x.c_str(), x.size()); };
                   vf::Outcome o = vf::guard([&] {
                       std::string g[8];
                       g[0] = bytes((wchar_t)v + base);
                       g[1] = bytes(base + (wchar_t)v);
                       g[2] = bytes((char32_t)v + base);
                       g[3] = bytes(base + (char32_t)v);
                       ST::string t = base;
                       t += (wchar_t)v;
                       g[4] = bytes(t);
                       ST::string t2 = base;
                       t2 += (char32_t)v;
                       g[5] = bytes(t2);
                       if (v < 0x10000) {
                           g[6] = bytes((char16_t)v + base);
                           g[7] = bytes(base + (char16_t)v);
                       } else {
                           g[6] = wl;
                           g[7] = wr;
                       }
                       static const char *const N[8] = {"wchar_t + s", "s + wchar_t", "char32_t + s", "s + char32_t", "s += wchar_t", "s += char32_t", "char16_t + s", "s + char16_t"};
                       VF_COUNT("validated");
                       for (int k = 0; k < 8; ++k) {
                           const std::string &want = (k == 0 || k == 2 || k == 6) ? wl : wr;
                           if (g[k] != want) c.fail(strf("c01:%s:wrong-units", N[k]), strf("U+%04X: %s gives %s, expected %s", v, N[k], vf::hex_str(g[k], 16).c_str(), vf::hex_str(want, 16).c_str()));
                       }
                   });
                   if (!o.ok()) c.fail(strf("c01:character-operand:%s", vf::outkind_name(o.kind)), strf("U+%04X: %s", v, o.str().c_str()));
                   if (v >= 0x80) c.nontrivial();
               },
               [](uint64_t i) { return strf("U+%04X as a character operand", nth_scalar((uint32_t)i)); });
    // long periodic texts: lengths around 2 KiB and 4 KiB (where per-block counters of a word-at-a-time loop would wrap) with a
    // multi-unit character at the same offset of every 8-unit group, for each of the 8 offsets; and uniform texts
    {
        static const unsigned LL[] = {2039, 2040, 2041, 2047, 2048, 2049, 2055, 2056, 2057, 4095, 4096, 4097, 4104};
        enum { NLL = sizeof LL / sizeof *LL };
        plan.stage(strf("long periodic texts: %u lengths around 2048 / 4096 x 10 patterns (a wide character at offset k of every group of 8, k = 0..7; all wide; alternating) x 4 source forms", (unsigned)NLL),
                   (uint64_t)NLL * 10 * 2,
                   [](uint64_t i, Ctx &c) {
                       unsigned pat = (unsigned)vf::take(i, 10), form = (unsigned)vf::take(i, 2), n = LL[i];
                       auto wide = [&](unsigned k) { return pat < 8 ? k % 8 == pat : pat == 8 ? true : k % 2 == 0; };
                       if (form == 0) {
                           U32V b(n);
                           for (unsigned k = 0; k < n; ++k) b[k] = wide(k) ? 0xE9 : 'a';
                           run_latin1(c, b);  // Latin-1 bytes
                       } else {
                           U32V cps(n);
                           for (unsigned k = 0; k < n; ++k) cps[k] = wide(k) ? (pat % 2 ? 0x20AC : 0x1F600) : 'a';
                           RunOpts prim;
                           prim.primary_only = true;
                           run_all_encodings(c, cps, prim);  // the same scalars as UTF-8, UTF-16 and UTF-32 sources
                       }
                       c.nontrivial();
                   },
                   [](uint64_t i) {
                       unsigned pat = (unsigned)vf::take(i, 10), form = (unsigned)vf::take(i, 2);
                       return strf("%u units, pattern #%u, %s", LL[i], pat, form ? "UTF sources" : "Latin-1 source");
                   })
            .case_timeout_s = 20;
    }
    plan.stage("latin1: all 256^2 byte pairs", 65536,
               [](uint64_t i, Ctx &c) {
                   U32V b = {(uint32_t)(i / 256), (uint32_t)(i % 256)};
                   run_latin1(c, b);
                   c.nontrivial();
               },
               [](uint64_t i) { return show_units(ref::EL1, U32V{(uint32_t)(i / 256), (uint32_t)(i % 256)}); });
    plan.stage("latin1: every byte alone / between neighbours / behind a 16-byte prefix", 256 * 4,
               [](uint64_t i, Ctx &c) {
                   uint32_t b = (uint32_t)(i % 256);
                   unsigned k = (unsigned)(i / 256);
                   U32V s;
                   if (k == 0) s = {b};
                   else if (k == 1) s = {0x41, b, 0x41};
                   else if (k == 2) s = {0xE9, b, 0xFF};
                   else {
                       s = ascii_prefix(16);
                       s.push_back(b);
                   }
                   run_latin1(c, s);
                   c.nontrivial();
               },
               [](uint64_t i) { return strf("byte %02X in context %u", (unsigned)(i % 256), (unsigned)(i / 256)); });
    unsigned LC = big ? 4 : 3;
    plan.stage(strf("chains through library outputs, B^<=%u", LC), vf::seq_count(B.size(), LC),
               [=](uint64_t i, Ctx &c) {
                   U32V cps;
                   seq_from(i, B, LC, cps);
                   run_chains(c, cps);
               },
               [=](uint64_t i) {
                   U32V cps;
                   seq_from(i, B, LC, cps);
                   return show_cps(cps);
               });
    vf_early::add_stage(plan);
}

VF_MAIN("C01", build)
