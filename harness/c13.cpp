// C13 - floating-point text equals the C library rendering for every value and precision;
// to_float/to_double equal strtof/strtod; no abort, no overrun.
//
// Deciding step: complete enumeration of
//   * a structured double grid (every biased exponent x both signs x 7 mantissa patterns, every power of
//     ten with both neighbours, a list of rounding / notation-switch values) and a structured float grid
//     (every exponent x both signs x 64 mantissa patterns)
//     x notation {default,f,e,E} x sign flag x a precision list, through ST::format, against snprintf;
//   * the same grids through from_double / from_float (every valid letter) and string_stream <<;
//   * every one of the 256 format letters for from_double / from_float;
//   * the padding product (width x alignment x pad) over a value list;
//   * every byte string over a 16-symbol alphabet up to length L through to_float / to_double
//     against strtof / strtod.
#define VF_MAIN_TU
#include "early.h"
#include "verif.h"
#include "alloc.h"
#include "ref_num.h"
#include "st_format.h"
#include "early_battery.h"
#include <cmath>
#include <cfenv>
#include <cfloat>
#include <memory>

using vf::Ctx;
using vf::strf;

// ---------------------------------------------------------------- value grids
static double from_bits(uint64_t b)
{
    double d;
    memcpy(&d, &b, 8);
    return d;
}
static uint64_t bits_of(double d)
{
    uint64_t b;
    memcpy(&b, &d, 8);
    return b;
}
static float fbits(uint32_t b)
{
    float f;
    memcpy(&f, &b, 4);
    return f;
}
static uint32_t bits_of(float f)
{
    uint32_t b;
    memcpy(&b, &f, 4);
    return b;
}

static const double HUMAN[] = {0.1,      0.2,     0.3,        0.5,      1.5,        2.5,          3.5,         0.125,     0.375,     1.0,
                               -1.0,     -1.5,    9.5,        99.5,     999999.5,   9999995.0,    999999.0,    1000000.0, 123456.0,  1234567.0,
                               0.0001,   0.00001, 0.00009995, 0.000123, 1e15,       1e16,         1e17,        1e21,      1e22,      1e23,
                               1e100,    -1e100,  1e-100,     3.14159,  16384.0,    0.0234,       123456789.0, 0.045,     1.005,     2.675,
                               1.0 / 3,  2.0 / 3, 1e-5,       1e-4,     0.99999995, 9.9999999e22, 4.35,        0.285,     1.45,      8.345,
                               DBL_MAX,  DBL_MIN, DBL_EPSILON, 4.9406564584124654e-324, 2.2250738585072009e-308, -0.0, 0.0, 5e-324 * 3, 1e308, 1.7976931348623157e308};

static std::vector<double> double_grid(bool extended)
{
    std::vector<uint64_t> MANT = {0, 1, 1ull << 51, (1ull << 52) - 1, 0x5555555555555ull, 0xAAAAAAAAAAAAAull, 0x8000000000001ull};
    if (extended)
        for (int k = 1; k < 51; ++k) MANT.push_back(1ull << k);  // every single-bit mantissa
    std::vector<double> g;
    for (uint64_t e = 0; e < 2048; ++e)
        for (uint64_t s = 0; s < 2; ++s)
            for (uint64_t m : MANT) g.push_back(from_bits((s << 63) | (e << 52) | m));
    for (int e = -323; e <= 308; ++e) {
        char t[16];
        snprintf(t, sizeof t, "1e%d", e);
        double p = strtod(t, nullptr);
        g.push_back(p);
        g.push_back(nextafter(p, -INFINITY));
        g.push_back(nextafter(p, INFINITY));
    }
    for (double h : HUMAN) g.push_back(h);
    // keep the first occurrence of every bit pattern
    std::set<uint64_t> seen;
    std::vector<double> out;
    for (double d : g)
        if (seen.insert(bits_of(d)).second) out.push_back(d);
    return out;
}

static std::vector<uint32_t> float_mantissas()
{
    std::set<uint32_t> m;
    for (int k = 0; k < 23; ++k) m.insert(1u << k);
    for (int k = 2; k <= 23; ++k) m.insert((1u << k) - 1);
    static const uint32_t extra[] = {0,        0x555555, 0x2AAAAA, 0x400001, 0x7FFFFE, 0x333333, 0x4CCCCC, 0x123456, 0x654321, 0x7F0000,
                                     0x00FFFF, 0x0F0F0F, 0x70F0F0, 0x600000, 0x200001, 0x5A5A5A, 0x25A5A5, 0x7FFFFD, 5,        0x49249};
    for (uint32_t x : extra) {
        if (m.size() == 64) break;
        m.insert(x);
    }
    return std::vector<uint32_t>(m.begin(), m.end());
}
static std::vector<float> float_grid()
{
    std::vector<uint32_t> mant = float_mantissas();
    std::vector<float> g;
    for (uint32_t e = 0; e < 256; ++e)
        for (uint32_t s = 0; s < 2; ++s)
            for (uint32_t m : mant) g.push_back(fbits((s << 31) | (e << 23) | m));
    return g;
}

// double -> float without leaving the float range (the conversion of an out-of-range finite value is undefined)
static float to_f(double d)
{
    if (std::isfinite(d) && std::fabs(d) > FLT_MAX) return d < 0 ? -FLT_MAX : FLT_MAX;
    return (float)d;
}

static const char *vclass(double v, bool subnormal)
{
    if (std::isnan(v)) return "nan";
    if (std::isinf(v)) return "inf";
    if (v == 0) return "zero";
    return subnormal ? "subnormal" : "normal";
}
[[maybe_unused]] static const char *vclass(double v) { return vclass(v, std::fabs(v) < DBL_MIN); }
[[maybe_unused]] static const char *vclass(float f) { return vclass((double)f, std::fabs(f) < FLT_MIN); }
static std::string dstr(double v) { return strf("%.17g [bits %016llx]", v, (unsigned long long)bits_of(v)); }
static std::string dstr(float v) { return strf("%.9gf [bits %08x]", (double)v, bits_of(v)); }

// ---------------------------------------------------------------- specs
static const int PREC_ALL[] = {-1, 0, 1, 2, 5, 6, 7, 15, 17, 20, 30, 60, 100, 350};
static const char NOTATION[4] = {0, 'f', 'e', 'E'};  // 0 = default (%g)
static const char *NOTATION_NAME[4] = {"default", "f", "e", "E"};

static const char *prec_class(int p)
{
    return p < 0 ? "prec-none" : p == 0 ? "prec0" : p <= 17 ? "prec1-17" : p <= 60 ? "prec18-60" : "prec61-350";
}

struct Spec {
    int notation = 0;   // index into NOTATION
    bool plus = false;
    int precision = -1;
    int width = 0;      // 0 = none
    int align = 0;      // 0 default, 1 '<', 2 '>'
    int pad = 0;        // 0 none, 1 "_*", 2 "_0", 3 "0" flag, 4 "_ "
    std::string text() const
    {
        std::string s = "{";
        if (align == 1) s += '<';
        if (align == 2) s += '>';
        if (pad == 1) s += "_*";
        if (pad == 2) s += "_0";
        if (pad == 3) s += "0";
        if (pad == 4) s += "_ ";
        if (plus) s += '+';
        if (width > 0) s += std::to_string(width);
        if (precision >= 0) s += "." + std::to_string(precision);
        if (NOTATION[notation]) s += NOTATION[notation];
        return s + "}";
    }
    char pad_char() const { return pad == 1 ? '*' : (pad == 2 || pad == 3) ? '0' : ' '; }
    char conv() const { return NOTATION[notation] ? NOTATION[notation] : 'g'; }
};

// "st_formatter.h:463: Format buffer too small" -> signature without the line number
static std::string abort_sig(const vf::Outcome &o)
{
    std::string w = o.what, file = w, msg;
    size_t c1 = w.find(':');
    if (c1 != std::string::npos) {
        file = w.substr(0, c1);
        size_t c2 = w.find(": ", c1);
        msg = c2 == std::string::npos ? w.substr(c1 + 1) : w.substr(c2 + 2);
    }
    return strf("abort:%s:%s", file.c_str(), msg.c_str());
}


// A user-defined sink (a public extension point: derive from ST::format_writer, run ST::apply_format): its append / append_char may
// themselves format numbers - a log sink that timestamps every piece, say.  The outer rendering must be unaffected.
struct ReentrantSink : ST::format_writer {
    std::string collected;
    int depth = 0;
    explicit ReentrantSink(const char *f) : ST::format_writer(f) {}
    void noise()
    {
        if (depth) return;
        ++depth;
        ST::string a = ST::format("{.66f}|{}|{.80e}", 0.5, 42, 2.5f), b = ST::string::from_double(1e200, 'f');
        ST::string_stream ss;
        ss << 1.0 / 7 << -3.5f;
        (void)a;
        (void)b;
        --depth;
    }
    ST::format_writer &append(const char *data, size_t size) override
    {
        noise();
        collected.append(data, size);
        noise();
        return *this;
    }
    ST::format_writer &append_char(char ch, size_t count = 1) override
    {
        noise();
        collected.append(count, ch);
        noise();
        return *this;
    }
};

// one ST::format call with a float or double argument against snprintf + the padding model
template <class FT>
static void check_format(Ctx &c, FT v, const Spec &sp)
{
    const char *tname = sizeof(FT) == 4 ? "float" : "double";
    std::string spec = sp.text();
    std::string body = ref::c_printf(sp.plus, sp.precision, sp.conv(), (double)v);
    std::string want = ref::pad_field(body, sp.width, sp.align == 1, sp.pad_char());
    std::string alt = want;
    if (sp.pad == 3 && sp.align != 1) alt = ref::pad_zero_after_sign(body, sp.width);  // placement of a '0' pad vs the sign is not asserted
    std::string call = strf("ST::format(\"%s\", %s)", spec.c_str(), dstr(v).c_str());
    vf::Outcome o = vf::guard([&] {
        ST::string s = ST::format(spec.c_str(), v);
        VF_COUNT("ops");
        VF_COUNT("validated");
        std::string got(s.c_str(), s.size());
        if (got != want && got != alt) {
            // separate "the number is rendered differently" from "the padding is placed differently": strip 0..n pad
            // characters from the padded side and keep the first split that explains the difference simply
            std::string dc = ref::diff_class(got, want);
            bool padding_only = false;
            if (sp.width > 0 && sp.pad_char() != '0') {
                // pad characters on the wrong side / in the wrong number
                size_t b = got.find_first_not_of(sp.pad_char()), e = got.find_last_not_of(sp.pad_char());
                if (b != std::string::npos && got.substr(b, e - b + 1) == body) padding_only = true;
            }
            if (sp.width > 0 && sp.pad_char() == '0' && got.size() >= body.size()) {
                size_t extra = got.size() - body.size();
                if ((got.compare(0, body.size(), body) == 0 && got.find_first_not_of('0', body.size()) == std::string::npos) ||
                    (got.compare(extra, body.size(), body) == 0 && got.substr(0, extra).find_first_not_of('0') == std::string::npos))
                    padding_only = true;
            }
            if (sp.width > 0 && !padding_only) {
                size_t run = 0;
                if (sp.align == 1)
                    while (run < got.size() && got[got.size() - 1 - run] == sp.pad_char()) ++run;
                else
                    while (run < got.size() && got[run] == sp.pad_char()) ++run;
                for (size_t j = run + 1; j-- > 0;) {
                    std::string core = sp.align == 1 ? got.substr(0, got.size() - j) : got.substr(j);
                    std::string k = ref::diff_class(core, body);
                    if (k == "same") {
                        padding_only = true;
                        break;
                    }
                    if (k == "sign-missing" || k == "sign-extra" || k == "sign-wrong" || k == "letter-case") {
                        dc = k;
                        break;
                    }
                }
            }
            if (padding_only)
                c.fail(strf("format{%s}:padding:%s:%s", tname, sp.align == 1 ? "left" : sp.align == 2 ? "right" : "default-align",
                            sp.pad == 0 ? "pad-default" : sp.pad == 3 ? "pad-0flag" : "pad-explicit"),
                       strf("%s returned %s, printf rendering padded to %d is %s", call.c_str(), vf::vis(got).c_str(), sp.width, vf::vis(want).c_str()));
            else
                c.fail(strf("format{%s}:text:%s:%s", tname, dc.c_str(), NOTATION_NAME[sp.notation]),
                       strf("%s returned %s (size %zu), snprintf(\"%%%s%s%c\") padded gives %s (size %zu)", call.c_str(), vf::vis(got, 160).c_str(),
                            got.size(), sp.plus ? "+" : "", sp.precision >= 0 ? ("." + std::to_string(sp.precision)).c_str() : "", sp.conv(),
                            vf::vis(want, 160).c_str(), want.size()));
        } else if (s.c_str()[s.size()] != 0)
            c.fail(strf("format{%s}:terminator", tname), call + " result not NUL-terminated");
    });
    vf::count_dyn(std::string("out:format:") + vf::outkind_name(o.kind));
    if (o.kind == vf::EX_ASSERT)
        c.fail(abort_sig(o), strf("%s stops the process: %s; the printf rendering has %zu characters: %s", call.c_str(), o.what.c_str(), body.size(),
                                  vf::vis(body, 80).c_str()));
    else if (!o.ok())
        c.fail(strf("format{%s}:%s:%s:%s", tname, vf::outkind_name(o.kind), NOTATION_NAME[sp.notation], prec_class(sp.precision)), call + ": " + o.str());
}

// ---------------------------------------------------------------- from_double / from_float / string_stream
static void cmp_parse_back(Ctx &c, const std::string &text)
{
    // the text printf produced, read by to_double / to_float, against strtod / strtof on the same text
    ST::string t = ST::string::from_validated(text.data(), text.size());
    char *e1 = nullptr, *e2 = nullptr;
    double wd = strtod(text.c_str(), &e1);
    float wf = strtof(text.c_str(), &e2);
    ST::conversion_result r1, r2;
    double gd = t.to_double(r1);
    float gf = t.to_float(r2);
    VF_ADD("ops", 2);
    VF_COUNT("validated");
    bool ok1 = e1 != text.c_str(), full1 = (size_t)(e1 - text.c_str()) == text.size();
    bool ok2 = e2 != text.c_str(), full2 = (size_t)(e2 - text.c_str()) == text.size();
    if (bits_of(gd) != bits_of(wd) || r1.ok() != ok1 || r1.full_match() != full1)
        c.fail("parse-back:to_double", strf("to_double on %s: %a ok=%d full=%d, strtod: %a ok=%d full=%d", vf::vis(text).c_str(), gd, r1.ok(), r1.full_match(), wd, ok1, full1));
    if (bits_of(gf) != bits_of(wf) || r2.ok() != ok2 || r2.full_match() != full2)
        c.fail("parse-back:to_float", strf("to_float on %s: %a ok=%d full=%d, strtof: %a ok=%d full=%d", vf::vis(text).c_str(), (double)gf, r2.ok(), r2.full_match(), (double)wf, ok2, full2));
}

static const char LETTERS[] = "efgEFG";
enum { OP_LETTER0 = 0, OP_DEFAULT = 6, OP_ALIAS = 7, OP_STREAM = 8, OP_STREAM_APPENDED = 9, NOPS = 10 };

template <class FT>
static std::string op_name(int op)
{
    const char *fn = sizeof(FT) == 4 ? "from_float" : "from_double";
    if (op < OP_DEFAULT) return strf("%s(v, '%c')", fn, LETTERS[op]);
    if (op == OP_DEFAULT) return strf("%s(v)", fn);
    if (op == OP_ALIAS) return sizeof(FT) == 4 ? "from_float((double)v)" : "from_float(v) [double overload]";
    if (op == OP_STREAM) return "string_stream << v";
    return "string_stream << \"x=\" << v << v";
}

template <class FT>
static void check_from(Ctx &c, FT v, int op)
{
    const char *tname = sizeof(FT) == 4 ? "float" : "double";
    char conv = op < OP_DEFAULT ? LETTERS[op] : 'g';
    std::string body = ref::c_printf(false, -1, conv, (double)v);
    std::string want = op == OP_STREAM_APPENDED ? "x=" + body + body : body;
    std::string call = strf("%s with v=%s", op_name<FT>(op).c_str(), dstr(v).c_str());
    const char *route = op < OP_STREAM ? (sizeof(FT) == 4 ? "from_float" : "from_double") : "string_stream<<";
    vf::Outcome o = vf::guard([&] {
        ST::string s;
        if (op < OP_DEFAULT) {
            if constexpr (sizeof(FT) == 4) s = ST::string::from_float(v, conv);
            else s = ST::string::from_double(v, conv);
        } else if (op == OP_DEFAULT) {
            if constexpr (sizeof(FT) == 4) s = ST::string::from_float(v);
            else s = ST::string::from_double(v);
        } else if (op == OP_ALIAS) {
            s = ST::string::from_float((double)v);
        } else if (op == OP_STREAM) {
            ST::string_stream ss;
            ss << v;
            s = ss.to_string();
        } else {
            ST::string_stream ss;
            ss << "x=" << v << v;
            s = ss.to_string();
        }
        VF_COUNT("ops");
        VF_COUNT("validated");
        std::string got(s.c_str(), s.size());
        if (got != want)
            c.fail(strf("%s{%s}:text:%s:%c", route, tname, ref::diff_class(got, want), conv),
                   strf("%s returned %s (size %zu), snprintf(\"%%%c\") gives %s (size %zu)", call.c_str(), vf::vis(got, 160).c_str(), got.size(), conv,
                        vf::vis(want, 160).c_str(), want.size()));
        else if (s.c_str()[s.size()] != 0)
            c.fail(strf("%s{%s}:terminator", route, tname), call + " result not NUL-terminated");
    });
    vf::count_dyn(std::string("out:from:") + vf::outkind_name(o.kind));
    if (o.kind == vf::EX_ASSERT)
        c.fail(abort_sig(o), strf("%s stops the process: %s; the printf rendering has %zu characters: %s", call.c_str(), o.what.c_str(), body.size(),
                                  vf::vis(body, 80).c_str()));
    else if (!o.ok())
        c.fail(strf("%s{%s}:%s:%c", route, tname, vf::outkind_name(o.kind), conv), call + ": " + o.str());
    if (op == OP_DEFAULT) cmp_parse_back(c, body);
}

// every possible format letter
template <class FT>
static void check_letter(Ctx &c, FT v, unsigned char letter)
{
    const char *fn = sizeof(FT) == 4 ? "from_float" : "from_double";
    bool supported = letter != 0 && strchr(LETTERS, letter) != nullptr;
    bool printf_float_conv = letter != 0 && strchr("aAeEfFgG", letter) != nullptr;
    std::string call = strf("%s(%s, char 0x%02X)", fn, dstr(v).c_str(), letter);
    std::string got;
    vf::Outcome o = vf::guard([&] {
        ST::string s;
        if constexpr (sizeof(FT) == 4) s = ST::string::from_float(v, (char)letter);
        else s = ST::string::from_double(v, (char)letter);
        VF_COUNT("ops");
        got.assign(s.c_str(), s.size());
    });
    VF_COUNT("validated");
    vf::count_dyn(std::string("out:letter:") + (supported ? "supported:" : "unsupported:") + vf::outkind_name(o.kind));
    if (o.kind == vf::EX_ASSERT) {
        c.fail(abort_sig(o), strf("%s stops the process: %s", call.c_str(), o.what.c_str()));
        return;
    }
    if (supported || (printf_float_conv && o.ok())) {
        if (!o.ok()) {
            c.fail(strf("%s:%s:supported-letter", fn, vf::outkind_name(o.kind)), call + ": " + o.str());
            return;
        }
        std::string want = ref::c_printf(false, -1, (char)letter, (double)v);
        if (got != want)
            c.fail(strf("%s:text:%s:%c", fn, ref::diff_class(got, want), letter), strf("%s returned %s, snprintf gives %s", call.c_str(), vf::vis(got).c_str(), vf::vis(want).c_str()));
        return;
    }
    // not a floating-point conversion of printf: handing it to printf is undefined (%n writes, %s reads a pointer),
    // so it has to be refused; the library documents ST::bad_format for that
    if (o.ok())
        c.fail(strf("%s:unsupported-letter-accepted", fn), strf("%s returned %s instead of refusing the letter", call.c_str(), vf::vis(got).c_str()));
    else if (o.kind != vf::EX_BADFORMAT)
        c.fail(strf("%s:unsupported-letter:%s", fn, vf::outkind_name(o.kind)), call + ": " + o.str());
}

// ---------------------------------------------------------------- parsing
static const unsigned char FALPHA[] = {' ', '+', '-', '0', '1', '9', '.', 'e', 'E', 'x', 'p', 'i', 'n', 'f', 'a', 0x00};
static const unsigned NFALPHA = sizeof(FALPHA);

static std::string ftext(uint64_t idx, unsigned L)
{
    std::vector<unsigned> seq;
    vf::seq_decode(idx, NFALPHA, L, seq);
    std::string s;
    for (unsigned k : seq) s.push_back((char)FALPHA[k]);
    return s;
}

static void check_parse(Ctx &c, const std::string &bytes)
{
    vf::Outcome o = vf::guard([&] {
        ST::string t = ST::string::from_validated(bytes.data(), bytes.size());
        char *e1 = nullptr, *e2 = nullptr;
        double wd = strtod(bytes.c_str(), &e1);
        float wf = strtof(bytes.c_str(), &e2);
        size_t c1 = (size_t)(e1 - bytes.c_str()), c2 = (size_t)(e2 - bytes.c_str());
        bool ok1 = c1 > 0, full1 = c1 == bytes.size(), ok2 = c2 > 0, full2 = c2 == bytes.size();
        if (bytes.empty()) {
            ok1 = ok2 = false;
            full1 = full2 = true;
        }
        ST::conversion_result r1, r2;
        double gd = t.to_double(r1), gd0 = t.to_double();
        float gf = t.to_float(r2), gf0 = t.to_float();
        VF_ADD("ops", 4);
        VF_ADD("validated", 2);
        {
            // result objects that already hold the flags of an earlier conversion (a full match / a failure)
            static const ST::string good = ST_LITERAL("1.5"), junk = ST_LITERAL("zz 1");
            ST::conversion_result a1, a2, b1, b2;
            (void)good.to_double(a1);
            (void)good.to_float(a2);
            (void)junk.to_double(b1);
            (void)junk.to_float(b2);
            (void)t.to_double(a1);
            (void)t.to_float(a2);
            (void)t.to_double(b1);
            (void)t.to_float(b2);
            VF_ADD("ops", 4);
            if (a1.ok() != ok1 || b1.ok() != ok1 || a1.full_match() != full1 || b1.full_match() != full1)
                c.fail("parse:to_double:reused-result-object", strf("to_double(result) on %s with a result object used before: ok=%d/%d full_match=%d/%d, expected %d %d",
                                                                    vf::vis(bytes).c_str(), a1.ok(), b1.ok(), a1.full_match(), b1.full_match(), ok1, full1));
            if (a2.ok() != ok2 || b2.ok() != ok2 || a2.full_match() != full2 || b2.full_match() != full2)
                c.fail("parse:to_float:reused-result-object", strf("to_float(result) on %s with a result object used before: ok=%d/%d full_match=%d/%d, expected %d %d",
                                                                   vf::vis(bytes).c_str(), a2.ok(), b2.ok(), a2.full_match(), b2.full_match(), ok2, full2));
        }
        const char *tclass = bytes.empty() ? "empty" : c1 == 0 ? "nothing-consumed" : full1 ? "all-consumed" : "partly-consumed";
        const char *rclass = std::isnan(wd) ? "nan" : std::isinf(wd) ? "inf" : wd == 0 ? "zero" : "finite";
        vf::count_dyn(strf("out:parse:%s:%s", tclass, c1 ? rclass : "-"));
        if (bits_of(gd) != bits_of(wd) || bits_of(gd0) != bits_of(wd))
            c.fail(strf("parse:to_double:value:%s:%s", tclass, rclass),
                   strf("to_double on %s returned %a / %a (without result), strtod returns %a", vf::vis(bytes).c_str(), gd, gd0, wd));
        if (r1.ok() != ok1) c.fail(strf("parse:to_double:ok:%s", tclass), strf("to_double on %s: ok=%d, strtod consumed %zu of %zu", vf::vis(bytes).c_str(), r1.ok(), c1, bytes.size()));
        if (r1.full_match() != full1)
            c.fail(strf("parse:to_double:full_match:%s", tclass), strf("to_double on %s: full_match=%d, strtod consumed %zu of %zu", vf::vis(bytes).c_str(), r1.full_match(), c1, bytes.size()));
        if (bits_of(gf) != bits_of(wf) || bits_of(gf0) != bits_of(wf))
            c.fail(strf("parse:to_float:value:%s:%s", tclass, rclass),
                   strf("to_float on %s returned %a / %a (without result), strtof returns %a", vf::vis(bytes).c_str(), (double)gf, (double)gf0, (double)wf));
        if (r2.ok() != ok2) c.fail(strf("parse:to_float:ok:%s", tclass), strf("to_float on %s: ok=%d, strtof consumed %zu of %zu", vf::vis(bytes).c_str(), r2.ok(), c2, bytes.size()));
        if (r2.full_match() != full2)
            c.fail(strf("parse:to_float:full_match:%s", tclass), strf("to_float on %s: full_match=%d, strtof consumed %zu of %zu", vf::vis(bytes).c_str(), r2.full_match(), c2, bytes.size()));
        if (c1 > 0) c.nontrivial();
    });
    if (!o.ok()) c.fail(strf("parse:%s", vf::outkind_name(o.kind)), o.str());
}

// Decimal texts at and next to the midpoint of two adjacent floats: a to_float that goes through double
// (or rounds twice in any other way) differs from strtof exactly here.  kind 0: the exact midpoint,
// 1: the midpoint with a further digit 1 appended (just above), 2: just below.
static std::string midpoint_text(float f, int kind)
{
    float g = nextafterf(f, f < 0 ? -INFINITY : INFINITY);
    double m = ((double)f + (double)g) / 2;  // exact: both have 24-bit significands and adjacent exponents
    char buf[320];
    snprintf(buf, sizeof buf, "%.200e", m);  // exact decimal expansion (at most ~170 significant digits are non-zero)
    std::string t = buf;
    size_t epos = t.find('e');
    std::string mant = t.substr(0, epos), ex = t.substr(epos);
    while (mant.size() > 3 && mant.back() == '0') mant.pop_back();
    if (kind == 1) mant += "1";
    if (kind == 2) {
        // last digit is non-zero (or the text is d.0): lower it by one and append 9 -> strictly below the midpoint
        if (mant.back() != '0' && mant.back() != '.') {
            mant.back() = (char)(mant.back() - 1);
            mant += "9";
        } else
            return "";
    }
    return mant + ex;
}

// ---------------------------------------------------------------- self-test
static void selftest(const std::vector<double> &dg, const std::vector<float> &fg)
{
    auto die = [](const char *m) {
        fprintf(stderr, "selftest: %s\n", m);
        exit(2);
    };
    if (float_mantissas().size() != 64) die("float mantissa pattern set does not have 64 distinct members");
    if (fg.size() != 32768) die("float grid size");
    if (dg.size() < 28672 + 1200) die("double grid size");
    std::set<uint32_t> fs;
    for (float f : fg) fs.insert(bits_of(f));
    if (fs.size() != fg.size()) die("float grid has duplicates");
    // the padding model and the printf wrapper on fixed expectations (glibc)
    if (ref::c_printf(false, -1, 'g', 1.5) != "1.5" || ref::c_printf(true, 2, 'f', 3.14159) != "+3.14" || ref::c_printf(false, 3, 'e', 16384.0) != "1.638e+04" ||
        ref::c_printf(false, 0, 'E', 0.0234) != "2E-02" || ref::c_printf(false, -1, 'f', -INFINITY) != "-inf")
        die("c_printf wrapper");
    if (ref::pad_field("1.5", 6, false, ' ') != "   1.5" || ref::pad_field("1.5", 6, true, '*') != "1.5***" || ref::pad_field("1.5", 3, false, '0') != "1.5" ||
        ref::pad_field("1.5", 0, false, '0') != "1.5" || ref::pad_zero_after_sign("-1.5", 8) != "-00001.5" || ref::pad_zero_after_sign("1.5", 5) != "001.5")
        die("padding model");
    Spec s;
    s.align = 1;
    s.pad = 1;
    s.plus = true;
    s.width = 12;
    s.precision = 3;
    s.notation = 2;
    if (s.text() != "{<_*+12.3e}") die("spec text");
    if (ref::c_printf(false, 350, 'f', DBL_MAX).size() != 309 + 1 + 350) die("4 KiB reference buffer holds the longest rendering in the bound");
    // midpoint texts: exact midpoint of 1.0f and its successor is 1 + 2^-24; strtof must separate the three texts
    if (midpoint_text(1.0f, 0) != "1.000000059604644775390625e+00") die("midpoint text");
    if (strtof(midpoint_text(1.0f, 0).c_str(), nullptr) != 1.0f || strtof(midpoint_text(1.0f, 1).c_str(), nullptr) != nextafterf(1.0f, 2.0f) ||
        strtof(midpoint_text(1.0f, 2).c_str(), nullptr) != 1.0f)
        die("strtof on midpoint texts");
    if ((float)strtod(midpoint_text(1.0f, 1).c_str(), nullptr) == strtof(midpoint_text(1.0f, 1).c_str(), nullptr)) die("midpoint text does not separate strtof from strtod+narrowing");
}

// ---------------------------------------------------------------- plan
static const double PADVALS[] = {0.0,    -0.0,    1.0,   -1.5,      3.14159,   16384.0, 0.0234,  1e100, -1e100,   1e-5,        123456789.0, 0.1,
                                 1e15,   1e16,    1e22,  -2.5e-300, INFINITY,  -INFINITY, NAN,   -NAN,  DBL_MAX,  -DBL_MIN,    5e-324,      999999.5};
static const int NPADVALS = sizeof(PADVALS) / sizeof(PADVALS[0]);
static const int PADPREC[] = {-1, 0, 3, 17};
// width classes: none, 1, 5, len-1, len, len+1, len+3, 30, 64, 400
static const int NWIDTH = 10;
static int width_of(int wc, int len)
{
    switch (wc) {
    case 0: return 0;
    case 1: return 1;
    case 2: return 5;
    case 3: return std::max(0, len - 1);
    case 4: return len;
    case 5: return len + 1;
    case 6: return len + 3;
    case 7: return 30;
    case 8: return 64;
    default: return 400;
    }
}

template <class FT>
static void add_format_stage(vf::Plan &plan, const char *name, std::shared_ptr<std::vector<FT>> grid, std::shared_ptr<std::vector<int>> precs)
{
    uint64_t np = precs->size();
    auto decode = [grid, precs, np](uint64_t i, Spec &sp) -> FT {
        sp.precision = (*precs)[vf::take(i, np)];
        sp.notation = (int)vf::take(i, 4);
        sp.plus = vf::take(i, 2) != 0;
        return (*grid)[i];
    };
    plan.stage(strf("format:%s(%zu values)x{default,f,e,E}x{-,+}x%zu-precisions", name, grid->size(), (size_t)np), (uint64_t)grid->size() * 8 * np,
               [decode](uint64_t i, Ctx &c) {
                   Spec sp;
                   FT v = decode(i, sp);
                   check_format<FT>(c, v, sp);
                   if (std::isfinite((double)v) && v != 0) c.nontrivial();
               },
               [decode](uint64_t i) {
                   Spec sp;
                   FT v = decode(i, sp);
                   return strf("ST::format(\"%s\", %s)", sp.text().c_str(), dstr(v).c_str());
               });
}

template <class FT>
static void add_from_stage(vf::Plan &plan, const char *name, std::shared_ptr<std::vector<FT>> grid)
{
    plan.stage(strf("from+stream:%s(%zu values)x{e,f,g,E,F,G,default,alias,<<,<<appended}", name, grid->size()), (uint64_t)grid->size() * NOPS,
               [grid](uint64_t i, Ctx &c) {
                   int op = (int)vf::take(i, NOPS);
                   FT v = (*grid)[i];
                   check_from<FT>(c, v, op);
                   if (std::isfinite((double)v) && v != 0) c.nontrivial();
               },
               [grid](uint64_t i) {
                   int op = (int)vf::take(i, NOPS);
                   return strf("%s with v=%s", op_name<FT>(op).c_str(), dstr((*grid)[i]).c_str());
               });
}

static void build(vf::Plan &plan, const vf::Opts &o)
{
    auto dg = std::make_shared<std::vector<double>>(double_grid(o.thorough()));
    auto fg = std::make_shared<std::vector<float>>(float_grid());
    selftest(*dg, *fg);
    plan.rule =
        "rendering cases: one case = one (value, field spec) or (value, call) pair; non-trivial = the value is finite and not zero (the text depends on "
        "mantissa, exponent and precision); padding cases: non-trivial = the field width exceeds the length of the printf rendering; letter cases: non-trivial = the letter is not one of efgEFG; parsing cases: one case = one byte string, "
        "non-trivial = strtod consumes at least one character";
    plan.assumptions = {
        "not all 2^64 doubles / 2^32 floats: the double grid is every biased exponent 0..2047 x both signs x mantissa patterns {0, 1, 2^51, 2^52-1, 0x5555.., "
        "0xAAAA.., 0x8000000000001} plus every power of ten 1e-323..1e308 with both neighbours plus a list of rounding/notation-switch values; the float "
        "grid is every exponent x both signs x 64 mantissa patterns",
        "glibc snprintf / strtod / strtof in the C locale are the specification, as the property states; precision <= 350, width <= 400",
        "pad characters are expected on the side given by the alignment (left of the text by default); for the '0' flag both \"0000-1.5\" and \"-00001.5\" are accepted",
        "a letter that is not a printf floating-point conversion must be refused by from_float/from_double (passing it on to printf would be undefined)",
        "writes outside the fixed stack buffers are observed by the ASan build of the thorough tier only"};

    auto precs = std::make_shared<std::vector<int>>();
    for (int p : PREC_ALL) precs->push_back(p);
    add_format_stage<double>(plan, "double-grid", dg, precs);
    add_format_stage<float>(plan, "float-grid", fg, precs);
    add_from_stage<double>(plan, "double-grid", dg);
    add_from_stage<float>(plan, "float-grid", fg);

    // stream insertion with the stream at every fill level around its capacity boundaries (in-object 256, first heap
    // block 512, second 1,024): renderings of every length 1..13 (%g never gives more)
    {
        static const double SV[] = {0.0, -0.0, 5.0, -5.0, 1.5, -1.25, 12.5, 1e10, -1e10, 1.5e10, 123456.0, -123456.0, 1.23456e-5, -1.23456e-5,
                                    1.23456e+20, -1.23456e+20, 1.23456e-100, -1.23456e-100, 1.7976931348623157e308, -1.7976931348623157e308,
                                    4.9406564584124654e-324, -4.9406564584124654e-324, std::numeric_limits<double>::infinity(),
                                    -std::numeric_limits<double>::infinity(), std::numeric_limits<double>::quiet_NaN()};
        enum { NSV = sizeof SV / sizeof *SV };
        static const unsigned CAPS[3] = {256, 512, 1024};
        plan.stage(strf("stream: fill levels capacity-20..capacity+2 for capacities 256/512/1024 x %u doubles and floats, << v << \"|\"", (unsigned)NSV),
                   (uint64_t)3 * 23 * NSV * 2,
                   [](uint64_t i, Ctx &c) {
                       bool as_float = vf::take(i, 2) != 0;
                       unsigned vi = (unsigned)vf::take(i, NSV), off = (unsigned)vf::take(i, 23), cap = CAPS[i % 3];
                       size_t fill = cap - 20 + off;
                       double v = as_float ? (double)(float)SV[vi] : SV[vi];
                       std::string want = std::string(fill, 'p') + ref::c_printf(false, -1, 'g', v) + "|";
                       vf::Outcome oc = vf::guard([&] {
                           ST::string_stream ss;
                           ss.append_char('p', fill);
                           if (as_float) ss << (float)SV[vi] << "|";
                           else ss << SV[vi] << "|";
                           VF_COUNT("ops");
                           VF_COUNT("validated");
                           std::string got(ss.raw_buffer(), ss.size());
                           if (got != want)
                               c.fail(strf("string_stream<<{%s}:at-capacity-boundary:text", as_float ? "float" : "double"),
                                      strf("stream holding %zu bytes << %s: tail %s, expected %s", fill, dstr(v).c_str(),
                                           vf::vis(got.substr(std::min(got.size(), fill))).c_str(), vf::vis(want.substr(fill)).c_str()));
                       });
                       if (!oc.ok())
                           c.fail(strf("string_stream<<{%s}:at-capacity-boundary:%s", as_float ? "float" : "double",
                                       oc.kind == vf::EX_ASSERT ? "assert" : vf::outkind_name(oc.kind)),
                                  strf("stream holding %zu bytes << %s: %s", fill, dstr(v).c_str(), oc.str().c_str()));
                       c.nontrivial();
                   },
                   [](uint64_t i) {
                       bool as_float = vf::take(i, 2) != 0;
                       unsigned vi = (unsigned)vf::take(i, NSV), off = (unsigned)vf::take(i, 23), cap = CAPS[i % 3];
                       return strf("stream holding %u bytes << (%s)%s", cap - 20 + off, as_float ? "float" : "double", dstr(SV[vi]).c_str());
                   });
    }

    // every format letter
    // precisions far beyond anything a fixed-size field could hold (the precision travels through the library as a number and as
    // digits of a printf format string): every power of two up to 2^17 with its neighbours
    {
        static const int BIGP[] = {999, 1000, 4095, 4096, 4097, 9999, 10000, 32767, 32768, 32769, 65534, 65535, 65536, 65537, 70000, 99999, 100000, 131071, 131072, 131073};
        enum { NBIGP = sizeof BIGP / sizeof *BIGP };
        static const double BV[5] = {1.0, 0.75, 1.0 / 3, 1e100, -2.5e-7};
        plan.stage(strf("format:very large precisions (%u values from 999 to 131073) x {f,e,E,default} x {double,float} x 5 values x {none, width = precision + 10}", (unsigned)NBIGP),
                   (uint64_t)NBIGP * 4 * 2 * 5 * 2,
                   [](uint64_t i, Ctx &c) {
                       Spec sp;
                       sp.precision = BIGP[vf::take(i, NBIGP)];
                       sp.notation = (int)vf::take(i, 4);
                       bool fl = vf::take(i, 2) != 0;
                       double v = BV[vf::take(i, 5)];
                       if (i) {
                           sp.width = sp.precision + 10;
                           sp.align = 1;
                       }
                       if (fl) check_format<float>(c, (float)v, sp);
                       else check_format<double>(c, v, sp);
                       c.nontrivial();
                   },
                   [](uint64_t i) {
                       int p = BIGP[vf::take(i, NBIGP)];
                       return strf("precision %d, notation #%u", p, (unsigned)vf::take(i, 4));
                   });
    }
    // the floating-point rounding mode of the calling thread: glibc's printf family honours it, and "equals the C library rendering"
    // means the rendering the C library gives under the same mode
    {
        static const int MODES[4] = {FE_UPWARD, FE_DOWNWARD, FE_TOWARDZERO, FE_TONEAREST};
        static const double RV[8] = {0.1, 1.0 / 3, 2.0 / 3, -0.1, 123456.789, 1e-7 / 3, 5e-324, 0.5};
        plan.stage("rounding modes {upward, downward, toward zero, nearest} x 8 values x {from_double e/f/g, from_float, stream <<, format {}/{.3f}/{e}} against snprintf under the same mode",
                   4 * 8,
                   [](uint64_t i, Ctx &c) {
                       int mode = MODES[i / 8];
                       double v = RV[i % 8];
                       std::vector<std::pair<std::string, std::string>> rows;  // (what, got|want)
                       vf::Outcome o = vf::guard([&] {
                           fesetround(mode);
                           auto want = [&](const char *f, double x) {
                               char b[512];
                               snprintf(b, sizeof b, f, x);
                               return std::string(b);
                           };
                           auto add = [&](const char *what, const ST::string &got, const std::string &w) {
                               rows.push_back({what, std::string(got.c_str(), got.size()) + "\x01" + w});
                           };
                           add("from_double(v)", ST::string::from_double(v), want("%g", v));
                           add("from_double(v,'e')", ST::string::from_double(v, 'e'), want("%e", v));
                           add("from_double(v,'f')", ST::string::from_double(v, 'f'), want("%f", v));
                           add("from_float(v)", ST::string::from_float((float)v), want("%g", (double)(float)v));
                           {
                               ST::string_stream ss;
                               ss << v;
                               add("string_stream<<double", ss.to_string(), want("%g", v));
                           }
                           {
                               ST::string_stream ss;
                               ss << (float)v;
                               add("string_stream<<float", ss.to_string(), want("%g", (double)(float)v));
                           }
                           add("format({})", ST::format("{}", v), want("%g", v));
                           add("format({.3f})", ST::format("{.3f}", v), want("%.3f", v));
                           add("format({e})", ST::format("{e}", v), want("%e", v));
                           add("format({.12})", ST::format("{.12}", v), want("%.12g", v));
                           fesetround(FE_TONEAREST);
                       });
                       fesetround(FE_TONEAREST);
                       VF_COUNT("validated");
                       if (!o.ok()) c.fail(strf("rounding-mode:%s", vf::outkind_name(o.kind)), o.str());
                       for (auto &r : rows) {
                           size_t sep = r.second.find('\x01');
                           std::string got = r.second.substr(0, sep), w = r.second.substr(sep + 1);
                           if (got != w)
                               c.fail(strf("rounding-mode:%s:differs-from-snprintf-under-the-same-mode", r.first.c_str()),
                                      strf("mode #%u value %s: %s returned %s, snprintf gives %s", (unsigned)(i / 8), dstr(v).c_str(), r.first.c_str(), got.c_str(), w.c_str()));
                       }
                       c.nontrivial();
                   },
                   [](uint64_t i) { return strf("rounding mode #%u, value #%u", (unsigned)(i / 8), (unsigned)(i % 8)); });
    }
    // a precision written as a bare '.' means 0, as in printf("%.f")
    {
        static const char *const BF[8] = {"{.f}", "{.e}", "{.E}", "{.}", "{8.f}|", "{+.f}", "{<8.e}|", "{_*>9.}"};
        static const char *const BC[8] = {"%.f", "%.e", "%.E", "%.g", "%8.f|", "%+.f", "%-8.e|", "%.g"};
        static const double BV2[5] = {1.5, 2.5, 0.04, 123456.789, -0.6};
        plan.stage("a bare '.' precision ({.f}, {.e}, {.}, {8.f}, ...) x 5 values x float / double against printf(\"%.f\")", 8 * 5 * 2,
                   [](uint64_t i, Ctx &c) {
                       unsigned fi = (unsigned)vf::take(i, 8), vi = (unsigned)vf::take(i, 5);
                       bool fl = i != 0;
                       double v = fl ? (double)(float)BV2[vi] : BV2[vi];
                       char b[128];
                       snprintf(b, sizeof b, BC[fi], v);
                       std::string want = b;
                       if (fi == 7) want = std::string(9 > want.size() ? 9 - want.size() : 0, '*') + want;
                       std::string got;
                       vf::Outcome o = vf::guard([&] {
                           ST::string r = fl ? ST::format(BF[fi], (float)BV2[vi]) : ST::format(BF[fi], BV2[vi]);
                           got.assign(r.c_str(), r.size());
                       });
                       VF_COUNT("validated");
                       if (!o.ok()) c.fail(strf("bare-dot-precision:%s", vf::outkind_name(o.kind)), o.str());
                       else if (got != want) c.fail("bare-dot-precision:differs-from-printf", strf("ST::format(\"%s\", %s) returned %s, printf gives %s", BF[fi], dstr(v).c_str(), got.c_str(), want.c_str()));
                       c.nontrivial();
                   },
                   [](uint64_t i) { return strf("bare-dot case %u", (unsigned)i); });
    }
    // a user-defined sink whose append / append_char format numbers themselves (re-entrancy from the sink side)
    {
        static const char *const RF[6] = {"{100.70f}", "{>90.66f}|", "{<90.66e}|", "{}", "{_*120.80f}", "x{.64f}y{>80}z"};
        static const double RD[3] = {1.0 / 3, -2.5e-7, 1e100};
        plan.stage("user-defined format_writer whose append / append_char format numbers themselves: 6 fields x 3 values, collected text equals ST::format", 6 * 3,
                   [](uint64_t i, Ctx &c) {
                       const char *f = RF[i % 6];
                       double v = RD[i / 6];
                       std::string got, want;
                       vf::Outcome o = vf::guard([&] {
                           ST::string w = (i % 6 == 5) ? ST::format(f, v, 7) : ST::format(f, v);
                           want.assign(w.c_str(), w.size());
                           ReentrantSink sink(f);
                           if (i % 6 == 5) ST::apply_format(sink, v, 7);
                           else ST::apply_format(sink, v);
                           got = sink.collected;
                       });
                       VF_COUNT("validated");
                       if (!o.ok()) c.fail(strf("reentrant-sink:%s", vf::outkind_name(o.kind)), o.str());
                       else if (got != want)
                           c.fail("reentrant-sink:text-differs-from-ST::format", strf("format %s of %s through a sink that formats numbers in append/append_char: %s, ST::format gives %s", f,
                                                                                     dstr(v).c_str(), vf::vis(got, 120).c_str(), vf::vis(want, 120).c_str()));
                       c.nontrivial();
                   },
                   [](uint64_t i) { return strf("re-entrant sink case %u", (unsigned)i); });
    }
    plan.stage("from:all-256-letters-x-24-values-x{from_double,from_float}", 256ull * NPADVALS * 2,
               [](uint64_t i, Ctx &c) {
                   unsigned letter = (unsigned)vf::take(i, 256);
                   int vi = (int)vf::take(i, NPADVALS);
                   if (i) check_letter<float>(c, to_f(PADVALS[vi]), (unsigned char)letter);
                   else check_letter<double>(c, PADVALS[vi], (unsigned char)letter);
                   if (!letter || !strchr(LETTERS, (int)letter)) c.nontrivial();
               },
               [](uint64_t i) {
                   unsigned letter = (unsigned)vf::take(i, 256);
                   int vi = (int)vf::take(i, NPADVALS);
                   return strf("%s(%s, char 0x%02X)", i ? "from_float" : "from_double", i ? dstr(to_f(PADVALS[vi])).c_str() : dstr(PADVALS[vi]).c_str(), letter);
               });

    // padding product
    {
        std::shared_ptr<std::vector<double>> pv = std::make_shared<std::vector<double>>(PADVALS, PADVALS + NPADVALS);
        std::shared_ptr<std::vector<int>> pp = std::make_shared<std::vector<int>>(PADPREC, PADPREC + 4);
        if (o.thorough()) {
            // every biased exponent (sign alternating with the exponent), one dense mantissa pattern; a longer precision list
            for (uint64_t e = 0; e < 2048; ++e) pv->push_back(from_bits(((e & 1) << 63) | (e << 52) | 0x5555555555555ull));
            static const int TP[] = {-1, 0, 1, 6, 17, 30, 100, 350};
            pp = std::make_shared<std::vector<int>>(TP, TP + 8);
        }
        uint64_t np = pp->size();
        auto decode = [pv, pp, np](uint64_t i, Spec &sp) -> double {
            int wc = (int)vf::take(i, NWIDTH);
            sp.align = (int)vf::take(i, 3);
            sp.pad = (int)vf::take(i, 5);
            sp.plus = vf::take(i, 2) != 0;
            sp.notation = (int)vf::take(i, 4);
            sp.precision = (*pp)[vf::take(i, np)];
            double v = (*pv)[i];
            int len = (int)ref::c_printf(sp.plus, sp.precision, sp.conv(), v).size();
            sp.width = width_of(wc, len);
            return v;
        };
        plan.stage(strf("format:padding(%zu values)x%zu-precisions-x{default,f,e,E}x{-,+}x10-widths-x3-alignments-x5-pads", pv->size(), (size_t)np),
                   (uint64_t)pv->size() * np * 4 * 2 * NWIDTH * 3 * 5,
                   [decode](uint64_t i, Ctx &c) {
                       Spec sp;
                       double v = decode(i, sp);
                       check_format<double>(c, v, sp);
                       if (sp.width > (int)ref::c_printf(sp.plus, sp.precision, sp.conv(), v).size()) c.nontrivial();
                   },
                   [decode](uint64_t i) {
                       Spec sp;
                       double v = decode(i, sp);
                       return strf("ST::format(\"%s\", %s)", sp.text().c_str(), dstr(v).c_str());
                   });
    }

    // decimal texts at / just above / just below the midpoint between each grid float and its successor
    plan.stage("parse:float-midpoints(32768 floats)x{exact,just-above,just-below}", (uint64_t)fg->size() * 3,
               [fg](uint64_t i, Ctx &c) {
                   int kind = (int)vf::take(i, 3);
                   float f = (*fg)[i];
                   if (!std::isfinite(f) || !std::isfinite(nextafterf(f, f < 0 ? -INFINITY : INFINITY))) {
                       vf::count_dyn("out:midpoint:not-applicable");
                       return;
                   }
                   std::string t = midpoint_text(f, kind);
                   if (t.empty()) {
                       vf::count_dyn("out:midpoint:not-applicable");
                       return;
                   }
                   float wf = strtof(t.c_str(), nullptr);
                   vf::count_dyn(std::string("out:midpoint:") + (bits_of(wf) == bits_of(f) ? "rounds-to-lower" : "rounds-to-upper"));
                   check_parse(c, t);
               },
               [fg](uint64_t i) {
                   int kind = (int)vf::take(i, 3);
                   float f = (*fg)[i];
                   if (!std::isfinite(f) || !std::isfinite(nextafterf(f, f < 0 ? -INFINITY : INFINITY))) return strf("(no midpoint above %s)", dstr(f).c_str());
                   return strf("midpoint text kind %d above %s: %s", kind, dstr(f).c_str(), vf::vis(midpoint_text(f, kind), 60).c_str());
               });

    // parsing
    unsigned L = o.thorough() ? 6 : 5;
    plan.stage(strf("parse:F^<=%u(16 symbols)x{to_double,to_float}x2-overloads", L), vf::seq_count(NFALPHA, L),
               [L](uint64_t i, Ctx &c) { check_parse(c, ftext(i, L)); },
               [L](uint64_t i) {
                   std::string t = ftext(i, L);
                   return strf("text[%zu]=%s", t.size(), vf::vis(t).c_str());
               });
    vf_early::add_stage(plan);
}

VF_MAIN("C13", build)
