// C18 - a failed operation leaves its target and its arguments unchanged.
// The same explicit-state exploration of two real ST::string objects as C04 (common/strsys.h),
// with a different per-state battery: in EVERY reachable state, every throwing entry point
// (construction / assignment / set / += / concatenation / conversion / decode / format / stream
// calls fed malformed UTF-8/16/32, an invalid code point, bad hex/base64, a bad format string, a
// missing argument, a value Latin-1 cannot hold) is attempted on every live string.  A failed
// call must be an identity transition: the world is bitwise unchanged (bytes, size, data
// pointer, heap contents), an argument passed as an rvalue still holds its value and owns its
// storage, local targets (buffers, streams, std::string) are unchanged, no block is leaked or
// freed twice.  Because the state is verified identical, "can be used normally afterwards" is
// what the exploration's own successors of that state establish.
#define VF_MAIN_TU
#include "strsys.h"
#include <thread>
#include <cstdio>
#include "st_codecs.h"
#include "st_stdio.h"

struct Attempt {
    std::string name;
    // returns "" or a description of what is wrong; `t` is the live target string, `kind` receives the outcome
    std::function<std::string(S &t, vf::Outcome &oc)> run;
    vf::OutKind expect;
};
static std::vector<Attempt> g_att;

template <class T>
static std::string dump(const ST::buffer<T> &b)
{
    return vf::strf("%p/%zu/", (const void *)b.data(), b.size()) + std::string((const char *)b.data(), (b.size() + 1) * sizeof(T));
}
static std::string dump(const ST::string_stream &s) { return vf::strf("%p/%zu/", (const void *)s.raw_buffer(), s.size()) + std::string(s.raw_buffer(), s.size()); }

#define ATT(NAME, KIND, BODY)                                                          \
    g_att.push_back(Attempt{NAME, [=](S &t, vf::Outcome &oc) -> std::string {         \
                                (void)t;                                               \
                                std::string problem;                                   \
                                BODY;                                                  \
                                return problem;                                        \
                            }, KIND})
#define TRY(stmt) oc = vf::guard([&] { LIB(stmt); })
// an argument handed over as an rvalue: must still hold its value after the failure
#define TRY_RV(ARGDECL, stmt)                                                                                  \
    ARGDECL;                                                                                                   \
    std::string _before = dump(arg);                                                                           \
    TRY(stmt);                                                                                                 \
    if (!oc.ok() && dump(arg) != _before) problem = "the rvalue argument no longer holds its value after the failed call"

static void build_attempts()
{
    const std::vector<std::string> bad8 = {"\x80", "ab\xC3", "\xE2\x82", "\xF0\x9F\x98", "\xFF", "a\xC0 ", "\xED\xA0",
                                           "aaaaaaaaaaaaaaaaaaaa\xC3", "\xC3" "aaaaaaaaaaaaaaaaaaaaaaaa",
                                           // the bad unit late in a long text (beyond any internal block a converter might work in)
                                           std::string(70, 'a') + "\xC3", std::string(300, 'b') + "\xFF" + "tail", std::string(1100, 'c') + "\xE2\x82"};
    const std::vector<std::u16string> bad16 = {u"\xD800", std::u16string(u"A") + (char16_t)0xDC00 + u"A", std::u16string(1, (char16_t)0xD800) + u"A",
                                               std::u16string(1, (char16_t)0xDBFF), std::u16string(20, u'a') + (char16_t)0xD800,
                                               std::u16string(70, u'a') + (char16_t)0xD800, std::u16string(300, u'\u00e9') + (char16_t)0xDC00 + u"tail",
                                               // two surrogates of the same kind next to each other (a pair test that looks at "any two surrogates" passes them)
                                               std::u16string(2, (char16_t)0xD800), std::u16string(2, (char16_t)0xDC00), std::u16string(u"ab") + (char16_t)0xDBFF + (char16_t)0xD800 + u"c",
                                               std::u16string(20, u'x') + (char16_t)0xDC00 + (char16_t)0xDFFF};
    const std::vector<std::u32string> bad32 = {std::u32string(1, (char32_t)0x110000), std::u32string(U"A") + (char32_t)0x110000 + U"B",
                                               std::u32string(1, (char32_t)0xFFFFFFFFu), std::u32string(20, U'a') + (char32_t)0x110000,
                                               std::u32string(70, U'a') + (char32_t)0x110000, std::u32string(300, U'\u20ac') + (char32_t)0x110000 + U"tail"};
    int k = 0;
    for (const std::string &d : bad8) {
        std::string n = vf::strf("utf8#%d:", k++);
        ATT(n + "t = cstr", vf::EX_UNICODE, TRY(t = d.c_str()));
        ATT(n + "t.set(cstr)", vf::EX_UNICODE, TRY(t.set(d.c_str())));
        ATT(n + "t.set(ptr,n)", vf::EX_UNICODE, TRY(t.set(d.data(), d.size())));
        ATT(n + "t.set(ptr,n,check_validity)", vf::EX_UNICODE, TRY(t.set(d.data(), d.size(), ST::check_validity)));
        ATT(n + "t = char_buffer const&", vf::EX_UNICODE, const ST::char_buffer arg(d.data(), d.size()); TRY(t = arg));
        ATT(n + "t.set(char_buffer const&)", vf::EX_UNICODE, const ST::char_buffer arg(d.data(), d.size()); TRY(t.set(arg)));
        ATT(n + "t = char_buffer&&", vf::EX_UNICODE, TRY_RV(ST::char_buffer arg(d.data(), d.size()), t = std::move(arg)));
        ATT(n + "t.set(char_buffer&&)", vf::EX_UNICODE, TRY_RV(ST::char_buffer arg(d.data(), d.size()), t.set(std::move(arg))));
        ATT(n + "t.set(char_buffer&&,check_validity)", vf::EX_UNICODE,
            TRY_RV(ST::char_buffer arg(d.data(), d.size()), t.set(std::move(arg), ST::check_validity)));
        ATT(n + "S(char_buffer&&)", vf::EX_UNICODE, TRY_RV(ST::char_buffer arg(d.data(), d.size()), S x(std::move(arg)); (void)x));
        ATT(n + "t = std::string", vf::EX_UNICODE, TRY(t = d));
        ATT(n + "t = std::string_view", vf::EX_UNICODE, TRY(t = std::string_view(d)));
        ATT(n + "t.set(std::string)", vf::EX_UNICODE, TRY(t.set(d)));
        ATT(n + "t = u8string", vf::EX_UNICODE, std::u8string u((const char8_t *)d.data(), d.size()); TRY(t = u));
        ATT(n + "t = char8_t cstr", vf::EX_UNICODE, TRY(t = (const char8_t *)d.c_str()));
        ATT(n + "t += cstr", vf::EX_UNICODE, TRY(t += d.c_str()));
        ATT(n + "t += char8_t cstr", vf::EX_UNICODE, TRY(t += (const char8_t *)d.c_str()));
        ATT(n + "t + cstr", vf::EX_UNICODE, TRY(S x = t + d.c_str(); (void)x));
        ATT(n + "cstr + t", vf::EX_UNICODE, TRY(S x = d.c_str() + t; (void)x));
        ATT(n + "t = t + cstr", vf::EX_UNICODE, TRY(t = t + d.c_str()));
        ATT(n + "S(cstr)", vf::EX_UNICODE, TRY(S x(d.c_str()); (void)x));
        ATT(n + "t = S::from_utf8(ptr,n)", vf::EX_UNICODE, TRY(t = S::from_utf8(d.data(), d.size())));
        ATT(n + "t = S::from_std_string", vf::EX_UNICODE, TRY(t = S::from_std_string(d)));
        ATT(n + "t = t.replace(\"a\", cstr)", vf::EX_UNICODE, TRY(t = t.replace("a", d.c_str())));
        // the pattern is validated like any other text argument, in every overload that takes C text
        ATT(n + "t = t.replace(cstr, \"x\")", vf::EX_UNICODE, TRY(t = t.replace(d.c_str(), "x")));
        ATT(n + "t = t.replace(cstr, S)", vf::EX_UNICODE, S x = S::from_validated("x", 1); TRY(t = t.replace(d.c_str(), x)));
        ATT(n + "t = t.replace(cstr, S, cs, check_validity)", vf::EX_UNICODE, S x = S::from_validated("x", 1);
            TRY(t = t.replace(d.c_str(), x, ST::case_sensitive, ST::check_validity)));
        ATT(n + "t = t.replace(S, cstr, cs, check_validity)", vf::EX_UNICODE, S x = S::from_validated("a", 1);
            TRY(t = t.replace(x, d.c_str(), ST::case_sensitive, ST::check_validity)));
        ATT(n + "t = t.replace(char8_t cstr, char8_t cstr)", vf::EX_UNICODE, TRY(t = t.replace((const char8_t *)d.c_str(), u8"x")));
        ATT(n + "istream >> t", vf::EX_UNICODE, std::istringstream is(d + " tail"); TRY(is >> t));
        ATT(n + "stream.to_string()", vf::EX_UNICODE, ST::string_stream ss; ss << "0123456789"; ss.append(d.data(), d.size());
            std::string b4 = dump(ss); TRY(t = ss.to_string()); if (dump(ss) != b4) problem = "the stream changed during a failed to_string()");
        // every text argument type a format call accepts (the result is validated; nothing may be left behind)
        ATT(n + "t = format({}, cstr)", vf::EX_UNICODE, TRY(t = ST::format("{}", d.c_str())));
        ATT(n + "t = format(x{>5}, std::string)", vf::EX_UNICODE, TRY(t = ST::format("x{>5}", d)));
        ATT(n + "t = format({}, string_view)", vf::EX_UNICODE, TRY(t = ST::format("{}", std::string_view(d))));
        ATT(n + "t = format({}, char8_t cstr)", vf::EX_UNICODE, TRY(t = ST::format("{}", (const char8_t *)d.c_str())));
        ATT(n + "t = format({}, u8string)", vf::EX_UNICODE, std::u8string u((const char8_t *)d.data(), d.size()); TRY(t = ST::format("{}|{}", 1, u)));
        ATT(n + "t = format({}, char_buffer)", vf::EX_UNICODE, ST::char_buffer arg(d.data(), d.size()); TRY(t = ST::format("{}", arg)));
    }
    k = 0;
    for (const std::u16string &d : bad16) {
        std::string n = vf::strf("utf16#%d:", k++);
        ATT(n + "t = u16 cstr", vf::EX_UNICODE, TRY(t = d.c_str()));
        ATT(n + "t.set(u16 ptr,n)", vf::EX_UNICODE, TRY(t.set(d.data(), d.size())));
        ATT(n + "t = utf16_buffer", vf::EX_UNICODE, const ST::utf16_buffer arg(d.data(), d.size()); TRY(t = arg));
        ATT(n + "t.set(utf16_buffer)", vf::EX_UNICODE, const ST::utf16_buffer arg(d.data(), d.size()); TRY(t.set(arg)));
        ATT(n + "t = std::u16string", vf::EX_UNICODE, TRY(t = d));
        ATT(n + "t = u16string_view", vf::EX_UNICODE, TRY(t = std::u16string_view(d)));
        ATT(n + "t += u16 cstr", vf::EX_UNICODE, TRY(t += d.c_str()));
        ATT(n + "t + u16 cstr", vf::EX_UNICODE, TRY(S x = t + d.c_str(); (void)x));
        ATT(n + "u16 cstr + t", vf::EX_UNICODE, TRY(S x = d.c_str() + t; (void)x));
        ATT(n + "t = S::from_utf16", vf::EX_UNICODE, TRY(t = S::from_utf16(d.data(), d.size())));
        ATT(n + "t = S::from_std_string(u16)", vf::EX_UNICODE, TRY(t = S::from_std_string(d)));
        for (size_t pre : {size_t(0), size_t(10), size_t(300)}) {
            ATT(n + vf::strf("stream[%zu] << u16 cstr", pre), vf::EX_UNICODE, ST::string_stream ss; ss.append_char('s', pre); std::string b4 = dump(ss);
                TRY(ss << d.c_str()); if (dump(ss) != b4) problem = "the stream changed during a failed insertion");
            ATT(n + vf::strf("stream[%zu] << std::u16string", pre), vf::EX_UNICODE, ST::string_stream ss; ss.append_char('s', pre); std::string b4 = dump(ss);
                TRY(ss << d); if (dump(ss) != b4) problem = "the stream changed during a failed insertion");
            ATT(n + vf::strf("stream[%zu] << std::u16string_view", pre), vf::EX_UNICODE, ST::string_stream ss; ss.append_char('s', pre); std::string b4 = dump(ss);
                TRY(ss << std::u16string_view(d)); if (dump(ss) != b4) problem = "the stream changed during a failed insertion");
        }
    }
    k = 0;
    for (const std::u16string &d : bad16) {
        std::string n = vf::strf("utf16#%d:", k++);
        ATT(n + "t = format({}, u16 cstr)", vf::EX_UNICODE, TRY(t = ST::format("{}", d.c_str())));
        ATT(n + "t = format(x{<4}y, std::u16string)", vf::EX_UNICODE, TRY(t = ST::format("x{<4}y", d)));
        ATT(n + "t = format({}, u16string_view)", vf::EX_UNICODE, TRY(t = ST::format("{}", std::u16string_view(d))));
        ATT(n + "t = format({}, utf16_buffer)", vf::EX_UNICODE, ST::utf16_buffer arg(d.data(), d.size()); TRY(t = ST::format("{}", arg)));
        ATT(n + "ostringstream writef({}, u16 cstr)", vf::EX_UNICODE, std::ostringstream os; TRY(ST::writef(os, "{}", d.c_str())));
        ATT(n + "string_stream << format-style: stream << u16 cstr twice", vf::EX_UNICODE, ST::string_stream ss; ss.append_char('s', 300); ss.truncate(3);
            std::string b4 = dump(ss); TRY(ss << d.c_str()); if (dump(ss) != b4) problem = "the stream changed during a failed insertion");
    }
    k = 0;
    for (const std::u32string &d : bad32) {
        std::string n = vf::strf("utf32#%d:", k++);
        std::wstring w(d.begin(), d.end());
        ATT(n + "t = u32 cstr", vf::EX_UNICODE, TRY(t = d.c_str()));
        ATT(n + "t.set(u32 ptr,n)", vf::EX_UNICODE, TRY(t.set(d.data(), d.size())));
        ATT(n + "t = utf32_buffer", vf::EX_UNICODE, const ST::utf32_buffer arg(d.data(), d.size()); TRY(t = arg));
        ATT(n + "t = std::u32string", vf::EX_UNICODE, TRY(t = d));
        ATT(n + "t = u32string_view", vf::EX_UNICODE, TRY(t = std::u32string_view(d)));
        ATT(n + "t += u32 cstr", vf::EX_UNICODE, TRY(t += d.c_str()));
        ATT(n + "t + u32 cstr", vf::EX_UNICODE, TRY(S x = t + d.c_str(); (void)x));
        ATT(n + "u32 cstr + t", vf::EX_UNICODE, TRY(S x = d.c_str() + t; (void)x));
        ATT(n + "t = S::from_utf32", vf::EX_UNICODE, TRY(t = S::from_utf32(d.data(), d.size())));
        ATT(n + "t = wchar cstr", vf::EX_UNICODE, TRY(t = w.c_str()));
        ATT(n + "t.set(wchar ptr,n)", vf::EX_UNICODE, TRY(t.set(w.data(), w.size())));
        ATT(n + "t = wchar_buffer", vf::EX_UNICODE, const ST::wchar_buffer arg(w.data(), w.size()); TRY(t = arg));
        ATT(n + "t = std::wstring", vf::EX_UNICODE, TRY(t = w));
        ATT(n + "t += wchar cstr", vf::EX_UNICODE, TRY(t += w.c_str()));
        ATT(n + "t + wchar cstr", vf::EX_UNICODE, TRY(S x = t + w.c_str(); (void)x));
        ATT(n + "t = S::from_wchar", vf::EX_UNICODE, TRY(t = S::from_wchar(w.data(), w.size())));
        if (d.find((char32_t)0xFFFFFFFFu) == std::u32string::npos)  // 0xFFFFFFFF is WEOF: a wide stream cannot carry it
            ATT(n + "wistream >> t", vf::EX_UNICODE, std::wistringstream is(w + L" tail"); TRY(is >> t));
        ATT(n + "stream << u32 cstr", vf::EX_UNICODE, ST::string_stream ss; ss.append_char('s', 250); std::string b4 = dump(ss); TRY(ss << d.c_str());
            if (dump(ss) != b4) problem = "the stream changed during a failed insertion");
        ATT(n + "stream << std::wstring", vf::EX_UNICODE, ST::string_stream ss; ss.append_char('s', 250); std::string b4 = dump(ss); TRY(ss << w);
            if (dump(ss) != b4) problem = "the stream changed during a failed insertion");
        ATT(n + "stream << std::u32string", vf::EX_UNICODE, ST::string_stream ss; ss.append_char('s', 5); std::string b4 = dump(ss); TRY(ss << d);
            if (dump(ss) != b4) problem = "the stream changed during a failed insertion");
        ATT(n + "stream << std::u32string_view", vf::EX_UNICODE, ST::string_stream ss; ss.append_char('s', 5); std::string b4 = dump(ss);
            TRY(ss << std::u32string_view(d)); if (dump(ss) != b4) problem = "the stream changed during a failed insertion");
        ATT(n + "stream << std::wstring_view", vf::EX_UNICODE, ST::string_stream ss; ss.append_char('s', 250); std::string b4 = dump(ss);
            TRY(ss << std::wstring_view(w)); if (dump(ss) != b4) problem = "the stream changed during a failed insertion");
        ATT(n + "stream << wchar cstr", vf::EX_UNICODE, ST::string_stream ss; ss.append_char('s', 5); std::string b4 = dump(ss); TRY(ss << w.c_str());
            if (dump(ss) != b4) problem = "the stream changed during a failed insertion");
        ATT(n + "t = format({}, u32 cstr)", vf::EX_UNICODE, TRY(t = ST::format("{}", d.c_str())));
        ATT(n + "t = format({}, std::u32string)", vf::EX_UNICODE, TRY(t = ST::format("{}", d)));
        ATT(n + "t = format({}, std::wstring)", vf::EX_UNICODE, TRY(t = ST::format("{}", w)));
        ATT(n + "t = format({}, wstring_view)", vf::EX_UNICODE, TRY(t = ST::format("{}", std::wstring_view(w))));
        ATT(n + "t = format({}, utf32_buffer)", vf::EX_UNICODE, ST::utf32_buffer arg(d.data(), d.size()); TRY(t = ST::format("{}", arg)));
        ATT(n + "t = format({}, wchar_buffer)", vf::EX_UNICODE, ST::wchar_buffer arg(w.data(), w.size()); TRY(t = ST::format("{}", arg)));
        ATT(n + "t = format({}, u32string_view)", vf::EX_UNICODE, TRY(t = ST::format("{}", std::u32string_view(d))));
        ATT(n + "t = format({}, wchar cstr)", vf::EX_UNICODE, TRY(t = ST::format("x{}", w.c_str())));
    }
    for (uint32_t cp : {0x110000u, 0x7FFFFFFFu, 0xFFFFFFFFu}) {
        std::string n = vf::strf("codepoint %X:", cp);
        ATT(n + "t += char32_t", vf::EX_UNICODE, TRY(t += (char32_t)cp));
        ATT(n + "t += wchar_t", vf::EX_UNICODE, TRY(t += (wchar_t)cp));
        ATT(n + "t + char32_t", vf::EX_UNICODE, TRY(S x = t + (char32_t)cp; (void)x));
        ATT(n + "char32_t + t", vf::EX_UNICODE, TRY(S x = (char32_t)cp + t; (void)x));
        ATT(n + "t = t + char32_t", vf::EX_UNICODE, TRY(t = t + (char32_t)cp));
        ATT(n + "t = wchar_t + t", vf::EX_UNICODE, TRY(t = (wchar_t)cp + t));
    }
    // format
    ATT("t = format(\"{\", 1)", vf::EX_BADFORMAT, TRY(t = ST::format("{", 1)));
    ATT("t = format(\"{x\", 1)", vf::EX_BADFORMAT, TRY(t = ST::format("{x", 1)));
    ATT("t = format(\"abc{_\", 1)", vf::EX_BADFORMAT, TRY(t = ST::format("abc{_", 1)));
    ATT("t = format(\"{}{}\", 1)", vf::EX_OUT_OF_RANGE, TRY(t = ST::format("{}{}", 1)));
    ATT("t = format(\"{&3}\", 1, 2)", vf::EX_OUT_OF_RANGE, TRY(t = ST::format("{&3}", 1, 2)));
    ATT("t = format(\"{}\")", vf::EX_OUT_OF_RANGE, TRY(t = ST::format("{}")));
    ATT("t = format(\"{.1}\", e-acute)", vf::EX_UNICODE, TRY(t = ST::format("{.1}", "\xC3\xA9")));
    ATT("t += format(\"{}{}\", t)", vf::EX_OUT_OF_RANGE, TRY(t += ST::format("{}{}", t)));
    ATT("t = format(\"{}{\", t, t)", vf::EX_BADFORMAT, TRY(t = ST::format("{}{", t, t)));
    ATT("t = format(nullptr)", vf::EX_INVALID_ARG, TRY(t = ST::format((const char *)nullptr)));
    // the sinks of a failing writef / printf call are objects of the caller too: formatting state of the stream and the lock of the
    // FILE are as they were (the characters already written are not taken back, and are not looked at here)
    {
        struct Bad {
            const char *name;
            vf::OutKind kind;
            int which;
        };
        static const Bad BADS[5] = {{"\"{\", 1", vf::EX_BADFORMAT, 0}, {"\"{}{}\", 1", vf::EX_OUT_OF_RANGE, 1}, {"\"ab{&3}\", 1, 2", vf::EX_OUT_OF_RANGE, 2},
                                    {"\"{.1}\", e-acute", vf::EX_UNICODE, 3}, {"\"text {} {x\", 5", vf::EX_BADFORMAT, 4}};
        for (const Bad &b : BADS) {
            const int w = b.which;
            // ({.1} of a two-byte character fails only where the output is validated or transcoded: ST::format and the wide streams)
            if (w != 3)
            ATT(std::string("writef(ostream with unitbuf, showbase, hex, width 9, fill '*', precision 3, ") + b.name + ")", b.kind,
                std::ostringstream os; os << "before"; os.setf(std::ios_base::unitbuf | std::ios_base::showbase | std::ios_base::hex | std::ios_base::left); os.width(9); os.fill('*');
                os.precision(3); auto f0 = os.flags(); auto x0 = os.exceptions();
                TRY(w == 0 ? ST::writef(os, "{", 1) : w == 1 ? ST::writef(os, "{}{}", 1) : w == 2 ? ST::writef(os, "ab{&3}", 1, 2) : w == 3 ? ST::writef(os, "{.1}", "\xC3\xA9")
                                                                                                                                 : ST::writef(os, "text {} {x", 5));
                if (os.flags() != f0) problem = "the stream's format flags changed during a failed writef";
                else if (os.width() != 9 || os.fill() != '*' || os.precision() != 3) problem = "the stream's width / fill / precision changed during a failed writef";
                else if (os.exceptions() != x0 || os.rdstate() != std::ios_base::goodbit) problem = "the stream's state or exception mask changed during a failed writef";
                else if (os.str().compare(0, 6, "before") != 0) problem = "earlier output of the stream was lost");
            ATT(std::string("writef(wostream with unitbuf, ") + b.name + ")", b.kind,
                std::wostringstream os; os.setf(std::ios_base::unitbuf); os.width(4); auto f0 = os.flags();
                TRY(w == 0 ? ST::writef(os, "{", 1) : w == 1 ? ST::writef(os, "{}{}", 1) : w == 2 ? ST::writef(os, "ab{&3}", 1, 2) : w == 3 ? ST::writef(os, "{.1}", "\xC3\xA9")
                                                                                                                                 : ST::writef(os, "text {} {x", 5));
                if (os.flags() != f0 || os.width() != 4 || os.rdstate() != std::ios_base::goodbit) problem = "the wide stream's formatting state changed during a failed writef");
            if (w != 3)
            ATT(std::string("printf(FILE*, ") + b.name + ")", b.kind,
                FILE *f = tmpfile(); if (!f) return std::string();
                TRY(w == 0 ? ST::printf(f, "{", 1) : w == 1 ? ST::printf(f, "{}{}", 1) : w == 2 ? ST::printf(f, "ab{&3}", 1, 2) : w == 3 ? ST::printf(f, "{.1}", "\xC3\xA9")
                                                                                                                              : ST::printf(f, "text {} {x", 5));
                bool free_for_others = false;
                { vf::Bypass bp; std::thread th([&] { if (ftrylockfile(f) == 0) { free_for_others = true; funlockfile(f); } }); th.join(); }
                if (!free_for_others) problem = "the FILE is still locked by the failed call: no other thread can use it";
                else if (ferror(f)) problem = "the FILE's error indicator was set by a call that failed before writing";
                fclose(f));
        }
    }
    // the public numeric formatter objects: a rejected specifier leaves the previously formatted text in place
    ATT("float_formatter<double>.format(v,'q') after a good one", vf::EX_BADFORMAT, ST::float_formatter<double> ff; ff.format(1.5, 'g');
        std::string b4(ff.text(), ff.size()); TRY(ff.format(2.25, 'q')); if (std::string(ff.text(), ff.size()) != b4) problem = "the formatter lost its previous text");
    ATT("float_formatter<float>.format(v,NUL) after a good one", vf::EX_BADFORMAT, ST::float_formatter<float> ff; ff.format(-0.5f, 'e');
        std::string b4(ff.text(), ff.size()); TRY(ff.format(2.25f, '\0')); if (std::string(ff.text(), ff.size()) != b4) problem = "the formatter lost its previous text");
    ATT("t = from_double(v,'q')", vf::EX_BADFORMAT, TRY(t = S::from_double(1.5, 'q')));
    ATT("t = from_float(v,'d')", vf::EX_BADFORMAT, TRY(t = S::from_float(1.5f, 'd')));
    // decoders into an existing buffer
    for (size_t pre : {size_t(0), size_t(2), size_t(3), size_t(5), size_t(40)}) {
        for (const char *bad : {"abc", "zz", "0g", "\xC3\xA9"}) {
            ATT(vf::strf("cb[%zu] = hex_decode(%s)", pre, vf::vis(bad, strlen(bad)).c_str()), vf::EX_CODEC, ST::char_buffer cb(pre, 'k');
                std::string b4 = dump(cb); S in = S::from_validated(bad, strlen(bad)); TRY(cb = ST::hex_decode(in));
                if (dump(cb) != b4) problem = "the target buffer changed during a failed decode");
        }
        for (const char *bad : {"A", "A=AA", "!!!!", "AA=A", "AAA", "AAAA=", "=AAA"}) {
            ATT(vf::strf("cb[%zu] = base64_decode(%s)", pre, bad), vf::EX_CODEC, ST::char_buffer cb(pre, 'k'); std::string b4 = dump(cb);
                S in = S::from_validated(bad, strlen(bad)); TRY(cb = ST::base64_decode(in)); if (dump(cb) != b4) problem = "the target buffer changed during a failed decode");
        }
        // Latin-1 without substitution
        ATT(vf::strf("cb[%zu] = euro.to_latin_1(false)", pre), vf::EX_UNICODE, ST::char_buffer cb(pre, 'k'); std::string b4 = dump(cb);
            S w = S::from_validated("a\xE2\x82\xAC", 4); TRY(cb = w.to_latin_1(false)); if (dump(cb) != b4) problem = "the target buffer changed");
        ATT(vf::strf("euro.to_buffer(cb[%zu], false, false)", pre), vf::EX_UNICODE, ST::char_buffer cb(pre, 'k'); std::string b4 = dump(cb);
            S w = S::from_validated("a\xE2\x82\xAC", 4); TRY(w.to_buffer(cb, false, false)); if (dump(cb) != b4) problem = "the target buffer changed");
        ATT(vf::strf("t.to_buffer(cb[%zu], false, false)", pre), vf::EX_UNICODE, ST::char_buffer cb(pre, 'k'); std::string b4 = dump(cb);
            TRY(t.to_buffer(cb, false, false)); if (!oc.ok() && dump(cb) != b4) problem = "the target buffer changed");
        // the deprecated overloads that take a validation mode instead of the substitution flag
        ATT(vf::strf("euro.to_buffer(cb[%zu], false, check_validity) [deprecated]", pre), vf::EX_UNICODE, ST::char_buffer cb(pre, 'k'); std::string b4 = dump(cb);
            S w = S::from_validated("a\xE2\x82\xAC", 4); TRY(w.to_buffer(cb, false, ST::check_validity)); if (dump(cb) != b4) problem = "the target buffer changed");
        ATT(vf::strf("euro.to_std_string(std[%zu], false, check_validity) [deprecated]", pre), vf::EX_UNICODE, std::string tgt(pre, 'k'); std::string b4 = tgt;
            S w = S::from_validated("a\xE2\x82\xAC", 4); TRY(w.to_std_string(tgt, false, ST::check_validity)); if (tgt != b4) problem = "the target std::string changed");
        ATT(vf::strf("t.to_std_string(std[%zu], false, false)", pre), vf::EX_UNICODE, std::string tgt(pre, 'k'); std::string b4 = tgt;
            TRY(t.to_std_string(tgt, false, false)); if (!oc.ok() && tgt != b4) problem = "the target std::string changed");
    }
}

struct ThrowSys : StrSys {
    uint64_t n_att = 0, n_threw = 0, n_noexc = 0;
    std::string nm2;
    ThrowSys(size_t init) : StrSys(init)
    {
        light = true;
        nm2 = vf::strf("failed operations in every state, s0 starts with %zu bytes", init);
    }
    const char *name() const { return nm2.c_str(); }
    void on_new_state(Fails &f) override
    {
        for (int s = 0; s < 2; ++s) {
            if (!slots[s].alive) continue;
            S &t = *slots[s].obj();
            Snap before[2] = {snap(0), snap(1)};
            for (auto &a : g_att) {
                vf::events_reset();
                vf::Outcome oc;
                std::string problem = a.run(t, oc);
                ++n_att;
                auto fail = [&](const std::string &what, const std::string &detail) {
                    // drop the data index from the attempt name: one signature per entry point and failure kind
                    std::string entry = a.name;
                    size_t c = entry.find(':');
                    if (c != std::string::npos && (entry.compare(0, 3, "utf") == 0 || entry.compare(0, 9, "codepoint") == 0)) entry = entry.substr(0, entry.find('#') != std::string::npos ? entry.find('#') : c) + entry.substr(c);
                    f.push_back(Fail{vf::strf("c18:%s:%s", entry.c_str(), what.c_str()),
                                     vf::strf("%s with s%d = %s (s%d = %s): %s", a.name.c_str(), s, vf::vis(model[s]).c_str(), 1 - s,
                                              slots[1 - s].alive ? vf::vis(model[1 - s]).c_str() : "dead", detail.c_str())});
                };
                if (oc.ok()) {
                    // the call succeeded for this target (e.g. to_latin_1(false) of ASCII text): nothing to check, undo is impossible,
                    // so such attempts must be pure by construction (they only write locals) - verify that too
                    ++n_noexc;
                    bool pure = a.name.find("to_buffer") != std::string::npos || a.name.find("to_std_string") != std::string::npos;
                    if (!pure) fail("did-not-fail", "expected " + std::string(vf::outkind_name(a.expect)) + " but the call succeeded and may have changed its target");
                    if (!same(before[0], 0) || !same(before[1], 1)) {
                        fail("successful-read-changed-a-string", "a string changed");
                        return;
                    }
                    continue;
                }
                ++n_threw;
                if (oc.kind != a.expect)
                    fail(vf::strf("wrong-exception:%s", vf::outkind_name(oc.kind)), "expected " + std::string(vf::outkind_name(a.expect)) + ", got " + oc.str());
                if (!problem.empty()) fail("argument-or-local-target-changed", problem);
                for (int k = 0; k < 2; ++k)
                    if (!same(before[k], k)) {
                        std::string now = slots[k].alive && validity(k).empty() ? vf::vis(content(k)) : std::string("(invalid object)");
                        fail(k == s ? "target-changed" : "other-string-changed",
                             vf::strf("s%d was %s and is now %s (or its storage moved)", k, vf::vis(model[k]).c_str(), now.c_str()));
                    }
                if (vf::events_total()) fail("heap-event", vf::g_alloc.first_event);
                if (vf::live_tracked() != owned_blocks()) fail("leak", vf::strf("%zu blocks live, %zu owned after the failed call", vf::live_tracked(), owned_blocks()));
                if (!f.empty()) return;  // the state may be damaged; stop here
            }
        }
        if (sample_list.size() < 4 && nontrivial()) sample_list.push_back(vf::strf("s0=%s s1=%s", vf::vis(model[0]).c_str(), vf::vis(model[1]).c_str()));
    }
    void counters(std::map<std::string, uint64_t> &c) const
    {
        c["failed-calls-checked"] += n_threw;
        c["attempts"] += n_att;
        c["attempts-that-succeeded(pure reads)"] += n_noexc;
        c["checked-transitions"] += n_checked;
    }
};

static void build(std::vector<hx::Job> &jobs, const vf::Opts &o, std::string &rule, std::vector<std::string> &assumptions)
{
    build_attempts();
    rule = "states = canonical concrete states of two ST::string objects reached by mutator histories; in each, every throwing entry point is "
           "attempted on every live string; non-trivial = both strings alive and at least one heap-backed";
    assumptions = {vf::strf("%zu failing calls are attempted per live string per state", g_att.size()),
                   "a call that does not throw is outside this property (C02/C10/C15 decide who must throw); it is only required not to be "
                   "one of the mutating entry points",
                   "usability after a failure follows from bitwise identity of the post-failure state with the pre-failure state, whose "
                   "successors the exploration visits anyway; local targets are destroyed right after the check",
                   "allocation failures are C19's subject"};
    hx::Limits lim;
    lim.max_depth = o.thorough() ? 4 : 3;
    for (size_t n : {size_t(0), size_t(1), size_t(4), size_t(15), size_t(16), size_t(17), size_t(24), size_t(40)})
        jobs.push_back(hx::make_job<ThrowSys>([n]() { return new ThrowSys(n); }, lim));
}

int main(int argc, char **argv) { return hx::main_driver(argc, argv, "C18", build); }
