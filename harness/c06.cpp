// C06 - comparison is a total order; operators, overloads and hashes agree with it.
//
// Every stage is a complete enumeration of a finite space executed on the real headers:
//   pairs      all ordered pairs (a,b) of strings over a byte alphabet up to a length bound
//   fold       all 256 x 256 single-byte pairs, alone and behind a letter of the other case
//   triples    all ordered triples (transitivity) over a smaller alphabet, and all 256^3 one-byte triples
//   long       all pairs of one-position perturbations of strings around the SSO limit (16)
//   wide       pairs / triples of wchar_t, char16_t, char32_t buffers over their own boundary alphabets
//   huge       the static pointer+length compare with one operand of length 0..2 and the other of
//              claimed length 2^31-1 .. SIZE_MAX (only min(len) units are readable: guard page)
//   aliased    both operands in the same storage: an object against itself / its own c_str(), and every pair of
//              windows of one buffer through the static pointer+length compare (all four element types)
//   unary      to_upper / to_lower over every byte value in every position, null-pointer overloads,
//              reflexivity and hash equality of separately built equal strings
//
// Oracle structure (the property sentence by sentence):
//   * "primary" results - ST::string::compare(const string&) and compare_i(const string&) - are
//     compared with the reference (unsigned lexicographic order, prefix first; zero iff equal
//     after folding A-Z; sign negation when the operands are swapped);
//   * every other operator / overload / compare_n / less_i / equal_i / buffer compare must have the
//     sign of the primary result for the same effective operands ("all agree with it"); a C-string
//     argument denotes the bytes up to its first NUL, compare_n the first n units;
//   * equal strings => equal hash (ST::hash, std::hash), fold-equal => equal hash_i;
//   * to_upper / to_lower equal the bytewise ASCII mapping.
#define VF_MAIN_TU
#include "early.h"
#include "verif.h"
#include "alloc.h"
#include "ref_cmpfind.h"
#include "st_string.h"
#include "early_battery.h"

#include <memory>
#include <tuple>
#include <utility>

using vf::Ctx;
using vf::strf;
using ref::sgn;

static inline void op() { VF_COUNT("ops"); }
static inline void val() { VF_COUNT("validated"); }
#define OP(e) (op(), (e))

static const size_t SZMAX = ~size_t(0);

// ------------------------------------------------------------------ classification of a pair
// Class of the position that decides the reference order (used in signatures).
template <class T>
static const char *cls_units(const std::basic_string<T> &a, const std::basic_string<T> &b)
{
    size_t m = a.size() < b.size() ? a.size() : b.size();
    bool nul_before = false;
    for (size_t i = 0; i < m; ++i) {
        if (a[i] != b[i]) {
            if (nul_before) return "differ-after-embedded-nul";
            uint64_t x = (uint64_t)(typename std::make_unsigned<T>::type)a[i], y = (uint64_t)(typename std::make_unsigned<T>::type)b[i];
            uint64_t top = uint64_t(1) << (8 * sizeof(T) - 1);
            if ((x & top) || (y & top)) return "differ-at-unit-with-top-bit";
            if (x == 0 || y == 0) return "differ-at-nul";
            return "differ-at-low-unit";
        }
        if (a[i] == T(0)) nul_before = true;
    }
    if (a.size() == b.size()) return "equal";
    return nul_before ? "proper-prefix-with-embedded-nul" : "proper-prefix";
}
// class of a pair under case folding (arguments are already folded)
static const char *cls_fold(const std::string &fa, const std::string &fb, const std::string &ra, const std::string &rb)
{
    size_t m = fa.size() < fb.size() ? fa.size() : fb.size();
    for (size_t i = 0; i < m; ++i) {
        if (fa[i] != fb[i]) {
            unsigned char x = (unsigned char)fa[i], y = (unsigned char)fb[i];
            if (x >= 0x80 || y >= 0x80) return "fold-differ-at-high-byte";
            if (x == 0 || y == 0) return "fold-differ-at-nul";
            bool lx = ref::is_ascii_letter(x), ly = ref::is_ascii_letter(y);
            bool px = x >= 0x5B && x <= 0x60, py = y >= 0x5B && y <= 0x60;
            if ((lx && py) || (ly && px)) return "fold-differ-letter-vs-5B..60";
            if (lx && ly) return "fold-differ-letters";
            if (lx || ly) return "fold-differ-letter-vs-other";
            return "fold-differ-non-letters";
        }
    }
    if (fa.size() != fb.size()) return "fold-proper-prefix";
    return ra == rb ? "equal" : "equal-but-for-case";
}

static std::string show(const std::string &s) { return strf("[%zu]%s", s.size(), vf::hex_str(s, 40).c_str()); }
template <class T>
static std::string showw(const std::basic_string<T> &s)
{
    return strf("[%zu]%s", s.size(), vf::hex_units(s.data(), s.size(), 40).c_str());
}
template <class T>
static const char *tname();
template <>
const char *tname<char>() { return "char"; }
template <>
const char *tname<wchar_t>() { return "wchar_t"; }
template <>
const char *tname<char16_t>() { return "char16_t"; }
template <>
const char *tname<char32_t>() { return "char32_t"; }


// ------------------------------------------------------------------ one object, successive values in the same storage
// A result may depend on the operands' current contents only.  The other stages build their operands afresh for every
// case, so something remembered per object (keyed by address and length) would never be consulted twice.  Here one
// ST::string / char_buffer object is overwritten in place with every value of a class (same length, so the storage does
// not move) and every read is compared with what a freshly built object gave for that value in an earlier pass.
static std::vector<std::string> reuse_values(unsigned cls)
{
    static const unsigned char R[6] = {'a', 'A', 'b', '[', '{', 0xC3};
    std::vector<std::string> v;
    auto all = [&](unsigned len, const std::string &pre, const std::string &suf) {
        uint64_t n = vf::ipow(6, len);
        for (uint64_t i = 0; i < n; ++i) {
            std::string x;
            uint64_t k = i;
            for (unsigned j = 0; j < len; ++j, k /= 6) x += (char)R[k % 6];
            v.push_back(pre + x + suf);
        }
    };
    switch (cls) {
    case 0: all(1, "", ""); break;
    case 1: all(2, "", ""); break;
    case 2: all(3, "", ""); break;
    case 3: all(2, "0123456789abcdefg", ""); break;   // heap storage, difference late
    default: all(2, "", "0123456789ABCDEFG"); break;  // heap storage, difference early
    }
    return v;
}
struct ReuseRes {
    size_t h, hi, hs;
    int r[24];
};
static ReuseRes reuse_reads(const ST::string &x, const ST::string &o)
{
    ReuseRes q;
    q.h = OP(ST::hash()(x));
    q.hi = OP(ST::hash_i()(x));
    q.hs = OP(std::hash<ST::string>()(x));
    int k = 0;
    q.r[k++] = sgn(OP(x.compare(o)));
    q.r[k++] = sgn(OP(o.compare(x)));
    q.r[k++] = sgn(OP(x.compare_i(o)));
    q.r[k++] = sgn(OP(o.compare_i(x)));
    q.r[k++] = sgn(OP(x.compare(o, ST::case_insensitive)));
    q.r[k++] = sgn(OP(x.compare(o.c_str())));
    q.r[k++] = sgn(OP(o.compare(x.c_str())));
    q.r[k++] = sgn(OP(x.compare_i(o.c_str())));
    q.r[k++] = sgn(OP(x.compare_n(o, 2)));
    q.r[k++] = sgn(OP(o.compare_n(x, 2)));
    q.r[k++] = sgn(OP(x.compare_ni(o, 2)));
    q.r[k++] = sgn(OP(x.compare_n(o.c_str(), 2)));
    q.r[k++] = OP(x == o);
    q.r[k++] = OP(o == x);
    q.r[k++] = OP(x != o);
    q.r[k++] = OP(x < o);
    q.r[k++] = OP(o < x);
    q.r[k++] = OP(x == o.c_str());
    q.r[k++] = OP(ST::less_i()(x, o));
    q.r[k++] = OP(ST::less_i()(o, x));
    q.r[k++] = OP(ST::equal_i()(x, o));
    q.r[k++] = OP(ST::equal_i()(o, x));
    q.r[k++] = sgn(OP(x.compare(x)));
    q.r[k++] = OP(x == x);
    return q;
}
static const char *const REUSE_NAMES[24] = {"compare(string)", "compare(string) as argument", "compare_i(string)", "compare_i(string) as argument",
    "compare(string,case_insensitive)", "compare(const char*)", "compare(const char*) as argument", "compare_i(const char*)", "compare_n(string,2)",
    "compare_n(string,2) as argument", "compare_ni(string,2)", "compare_n(const char*,2)", "operator==", "operator== as argument", "operator!=",
    "operator<", "operator< as argument", "operator==(const char*)", "less_i", "less_i as argument", "equal_i", "equal_i as argument",
    "compare(self)", "operator==(self)"};
static void reuse_case(Ctx &c, unsigned cls, unsigned oi, bool backwards)
{
    std::vector<std::string> vals = reuse_values(cls);
    static const char *const OTHERS[5] = {"a", "Ab", "a[b", "0123456789abcdefgA{", "\xC3a0123456789ABCDEFG"};
    ST::string o = ST::string::from_validated(OTHERS[oi], strlen(OTHERS[oi]));
    std::vector<ReuseRes> want(vals.size());
    for (size_t i = 0; i < vals.size(); ++i) {
        ST::string f = ST::string::from_validated(vals[i].data(), vals[i].size());
        want[i] = reuse_reads(f, o);
    }
    ST::string X = ST::string::from_validated(vals[0].data(), vals[0].size());
    ST::char_buffer B(vals[0].data(), vals[0].size()), ob(OTHERS[oi], strlen(OTHERS[oi]));
    const char *where = X.c_str();
    for (size_t n = 0; n < vals.size(); ++n) {
        size_t i = backwards ? vals.size() - 1 - n : n;
        X.set_validated(vals[i].data(), vals[i].size());
        if (X.c_str() == where) VF_COUNT("out:reuse:value-replaced-in-place");
        where = X.c_str();
        ReuseRes got = reuse_reads(X, o);
        val();
        auto bad = [&](const char *what) {
            c.fail(strf("reused-object:%s:differs-from-fresh-object", what),
                   strf("one ST::string object given %zu values of length %zu in turn; holding %s, %s against %s differs from the result for a freshly "
                        "built string of the same value",
                        vals.size(), vals[i].size(), show(vals[i]).c_str(), what, show(OTHERS[oi]).c_str()));
        };
        if (got.h != want[i].h) bad("hash");
        if (got.hi != want[i].hi) bad("hash_i");
        if (got.hs != want[i].hs) bad("std::hash");
        for (int k = 0; k < 24; ++k)
            if (got.r[k] != want[i].r[k]) bad(REUSE_NAMES[k]);
        // the same for a char_buffer overwritten element by element
        memcpy(B.data(), vals[i].data(), vals[i].size());
        ST::char_buffer fb(vals[i].data(), vals[i].size());
        int g1 = sgn(OP(B.compare(ob))), w1 = sgn(OP(fb.compare(ob))), g2 = OP(B == ob), w2 = OP(fb == ob), g3 = OP(B < ob), w3 = OP(fb < ob);
        int g4 = sgn(OP(ob.compare(B))), w4 = sgn(OP(ob.compare(fb))), g5 = sgn(OP(B.compare(OTHERS[oi]))), w5 = sgn(OP(fb.compare(OTHERS[oi])));
        val();
        if (g1 != w1 || g2 != w2 || g3 != w3 || g4 != w4 || g5 != w5)
            c.fail("reused-object:char_buffer.compare/==/<:differs-from-fresh-object",
                   strf("one char_buffer overwritten in place; holding %s, comparison with %s differs from a fresh buffer", show(vals[i]).c_str(), show(OTHERS[oi]).c_str()));
    }
    c.nontrivial();
}

// ------------------------------------------------------------------ items
template <class T>
struct WItem {
    std::basic_string<T> raw, cpre;
    ST::buffer<T> buf;
};
template <class T>
static WItem<T> make_witem(const std::basic_string<T> &raw)
{
    WItem<T> w;
    w.raw = raw;
    w.cpre = ref::c_prefix(raw);
    w.buf = ST::buffer<T>(raw.data(), raw.size());
    return w;
}
struct Item {
    std::string raw, folded, cpre, cpre_folded;
    bool hasnul = false;
    ST::string s, cs;  // value, and the value a C-string pointer to it denotes
    WItem<char> w;     // the same contents as a char_buffer
};
static ST::string mkst(const std::string &r) { return ST::string::from_validated(r.data(), r.size()); }
static Item make_item(const std::string &raw)
{
    Item it;
    it.raw = raw;
    it.folded = ref::fold(raw);
    it.cpre = ref::c_prefix(raw);
    it.cpre_folded = ref::fold(it.cpre);
    it.hasnul = it.cpre.size() != raw.size();
    it.s = mkst(raw);
    it.cs = mkst(it.cpre);
    it.w = make_witem<char>(raw);
    return it;
}
typedef std::shared_ptr<std::vector<Item>> Pool;
static Pool seq_pool(const std::vector<unsigned> &alpha, unsigned L)
{
    Pool p = std::make_shared<std::vector<Item>>();
    uint64_t n = vf::seq_count(alpha.size(), L);
    std::vector<unsigned> d;
    for (uint64_t i = 0; i < n; ++i) {
        vf::seq_decode(i, alpha.size(), L, d);
        std::string r;
        for (unsigned x : d) r += (char)alpha[x];
        p->push_back(make_item(r));
    }
    return p;
}

// ------------------------------------------------------------------ buffer<T> pair check (all four types)
// primary for buffers: buffer<T>::compare(const buffer&) against the reference, both directions
template <class T>
static int buf_primary(Ctx &c, const ST::buffer<T> &x, const ST::buffer<T> &y, const std::basic_string<T> &rx,
                       const std::basic_string<T> &ry, bool both)
{
    int want = ref::cmp_str(rx, ry);
    int r = OP(x.compare(y));
    val();
    if (sgn(r) != want)
        c.fail(strf("buffer<%s>.compare(buffer):order:%s", tname<T>(), cls_units(rx, ry)),
               strf("a=%s b=%s compare(a,b)=%d, reference sign %d", showw(rx).c_str(), showw(ry).c_str(), r, want));
    if (both) {
        int q = OP(y.compare(x));
        val();
        if (sgn(q) != -sgn(r))
            c.fail(strf("buffer<%s>.compare(buffer):antisymmetry:%s", tname<T>(), cls_units(rx, ry)),
                   strf("a=%s b=%s compare(a,b)=%d compare(b,a)=%d", showw(rx).c_str(), showw(ry).c_str(), r, q));
    }
    return r;
}

template <class T>
static void check_buf_pair(Ctx &c, const WItem<T> &A, const WItem<T> &B, const std::vector<size_t> &ns)
{
    typedef std::basic_string<T> S;
    const ST::buffer<T> &a = A.buf;
    ST::buffer<T> fresh;
    const ST::buffer<T> *pb = &B.buf;
    if (&A == &B) {
        fresh = ST::buffer<T>(B.raw.data(), B.raw.size());
        pb = &fresh;
    }
    const ST::buffer<T> &b = *pb;
    const char *tn = tname<T>();
    auto agree = [&](const char *name, int obs, int prim, const S &ea, const S &eb) {
        val();
        if (sgn(obs) != sgn(prim))
            c.fail(strf("buffer<%s>.%s:disagrees-with-compare:%s", tn, name, cls_units(ea, eb)),
                   strf("a=%s b=%s (effective %s vs %s): result %d, buffer.compare(buffer) on the same operands %d",
                        showw(A.raw).c_str(), showw(B.raw).c_str(), showw(ea).c_str(), showw(eb).c_str(), obs, prim));
    };
    auto agree_b = [&](const char *name, bool obs, bool want, const S &ea, const S &eb, int prim) {
        val();
        if (obs != want)
            c.fail(strf("buffer<%s>.%s:disagrees-with-compare:%s", tn, name, cls_units(ea, eb)),
                   strf("a=%s b=%s: result %d, but buffer.compare(buffer) = %d", showw(A.raw).c_str(), showw(B.raw).c_str(),
                        (int)obs, prim));
    };
    int P = buf_primary<T>(c, a, b, A.raw, B.raw, true);
    if (P < 0) VF_COUNT("out:buf:less");
    else if (P > 0) VF_COUNT("out:buf:greater");
    else VF_COUNT("out:buf:equal");
    agree_b("operator==", OP(a == b), P == 0, A.raw, B.raw, P);
    agree_b("operator!=", OP(a != b), P != 0, A.raw, B.raw, P);
    agree_b("operator<", OP(a < b), P < 0, A.raw, B.raw, P);
    agree("compare(ptr,len,ptr,len)", OP(ST::buffer<T>::compare(a.data(), a.size(), b.data(), b.size())), P, A.raw, B.raw);
    // C-string overload: the bytes up to the first zero unit
    int PC = P;
    ST::buffer<T> bc;
    if (B.cpre.size() != B.raw.size()) {
        bc = ST::buffer<T>(B.cpre.data(), B.cpre.size());
        PC = buf_primary<T>(c, a, bc, A.raw, B.cpre, false);
    }
    agree("compare(const T*)", OP(a.compare(B.raw.c_str())), PC, A.raw, B.cpre);
    for (size_t n : ns) {
        S ea = ref::first_n(A.raw, n), eb = ref::first_n(B.raw, n), ec = ref::first_n(B.cpre, n);
        int Pn = P, Pc = PC;
        if (ea.size() != A.raw.size() || eb.size() != B.raw.size()) {
            ST::buffer<T> xa(ea.data(), ea.size()), xb(eb.data(), eb.size());
            Pn = buf_primary<T>(c, xa, xb, ea, eb, false);
        }
        if (ea.size() != A.raw.size() || ec.size() != B.cpre.size()) {
            ST::buffer<T> xa(ea.data(), ea.size()), xc(ec.data(), ec.size());
            Pc = buf_primary<T>(c, xa, xc, ea, ec, false);
        }
        agree("compare_n(buffer,n)", OP(a.compare_n(b, n)), Pn, ea, eb);
        agree("compare_n(const T*,n)", OP(a.compare_n(B.raw.c_str(), n)), Pc, ea, ec);
        agree("compare(ptr,len,ptr,len,max)", OP(ST::buffer<T>::compare(a.data(), a.size(), b.data(), b.size(), n)), Pn, ea, eb);
    }
}

// ------------------------------------------------------------------ ST::string pair check
struct Prim {
    int cs, ci;
};
// primary results for (x,y) with reference contents (rx,ry) / folded (fx,fy); verified against the reference
static Prim primary(Ctx &c, const ST::string &x, const ST::string &y, const std::string &rx, const std::string &ry,
                    const std::string &fx, const std::string &fy, bool both)
{
    Prim p;
    int want = ref::cmp_str(rx, ry);
    p.cs = OP(x.compare(y));
    val();
    if (sgn(p.cs) != want)
        c.fail(strf("string.compare(string):order:%s", cls_units(rx, ry)),
               strf("a=%s b=%s compare(a,b)=%d, reference sign %d", show(rx).c_str(), show(ry).c_str(), p.cs, want));
    p.ci = OP(x.compare_i(y));
    bool feq = fx == fy;
    val();
    if ((p.ci == 0) != feq)
        c.fail(strf("string.compare_i(string):zero-iff-fold-equal:%s", cls_fold(fx, fy, rx, ry)),
               strf("a=%s b=%s compare_i(a,b)=%d, folded operands are %s", show(rx).c_str(), show(ry).c_str(), p.ci,
                    feq ? "equal" : "different"));
    if (both) {
        int q = OP(y.compare(x));
        val();
        if (sgn(q) != -sgn(p.cs))
            c.fail(strf("string.compare(string):antisymmetry:%s", cls_units(rx, ry)),
                   strf("a=%s b=%s compare(a,b)=%d compare(b,a)=%d", show(rx).c_str(), show(ry).c_str(), p.cs, q));
        int qi = OP(y.compare_i(x));
        val();
        if (sgn(qi) != -sgn(p.ci))
            c.fail(strf("string.compare_i(string):antisymmetry:%s", cls_fold(fx, fy, rx, ry)),
                   strf("a=%s b=%s compare_i(a,b)=%d compare_i(b,a)=%d", show(rx).c_str(), show(ry).c_str(), p.ci, qi));
    }
    return p;
}

static void check_hashes(Ctx &c, const ST::string &x, const ST::string &y, bool equal, bool fold_equal, const std::string &rx,
                         const std::string &ry)
{
    if (equal) {
        size_t h1 = OP(ST::hash()(x)), h2 = OP(ST::hash()(y));
        val();
        if (h1 != h2)
            c.fail("hash:equal-strings-different-hash", strf("a=b=%s hash %zx vs %zx", show(rx).c_str(), h1, h2));
        size_t s1 = OP(std::hash<ST::string>()(x)), s2 = OP(std::hash<ST::string>()(y));
        val();
        if (s1 != s2)
            c.fail("std::hash:equal-strings-different-hash", strf("a=b=%s hash %zx vs %zx", show(rx).c_str(), s1, s2));
        VF_COUNT("out:hash:equal-pair-checked");
    }
    if (fold_equal) {
        size_t h1 = OP(ST::hash_i()(x)), h2 = OP(ST::hash_i()(y));
        val();
        if (h1 != h2)
            c.fail(equal ? "hash_i:equal-strings-different-hash" : "hash_i:fold-equal-strings-different-hash",
                   strf("a=%s b=%s hash_i %zx vs %zx", show(rx).c_str(), show(ry).c_str(), h1, h2));
        VF_COUNT("out:hash_i:fold-equal-pair-checked");
    } else {
        // not required by the property; recorded to expose a vacuous (constant) hash in the evidence
        if (ST::hash_i()(x) != ST::hash_i()(y)) VF_COUNT("out:hash_i:fold-different-pair-differs");
    }
}

static void check_pair(Ctx &c, const Item &A, const Item &B, const std::vector<size_t> &ns, bool with_buffers)
{
    vf::Outcome o = vf::guard([&] {
        const ST::string &a = A.s;
        ST::string fresh;
        const ST::string *pb = &B.s;
        if (&A == &B) {
            fresh = mkst(B.raw);
            pb = &fresh;
        }
        const ST::string &b = *pb;
        const char *bz = B.raw.c_str();
        const char8_t *b8 = reinterpret_cast<const char8_t *>(bz);

        auto agree = [&](const char *name, int obs, int prim, const char *what, const char *k) {
            val();
            if (sgn(obs) != sgn(prim))
                c.fail(strf("string.%s:disagrees-with-%s:%s", name, what, k),
                       strf("a=%s b=%s: result %d, string.%s(string) on the same effective operands %d", show(A.raw).c_str(),
                            show(B.raw).c_str(), obs, what, prim));
        };
        auto agree_b = [&](const char *name, bool obs, bool want, int prim, const char *what, const char *k) {
            val();
            if (obs != want)
                c.fail(strf("%s:disagrees-with-%s:%s", name, what, k),
                       strf("a=%s b=%s: result %d, but string.%s(string) = %d", show(A.raw).c_str(), show(B.raw).c_str(),
                            (int)obs, what, prim));
        };

        // ---- full operands
        Prim P = primary(c, a, b, A.raw, B.raw, A.folded, B.folded, true);
        if (P.cs < 0) VF_COUNT("out:cs:less");
        else if (P.cs > 0) VF_COUNT("out:cs:greater");
        else VF_COUNT("out:cs:equal");
        if (P.ci < 0) VF_COUNT("out:ci:less");
        else if (P.ci > 0) VF_COUNT("out:ci:greater");
        else VF_COUNT("out:ci:equal");
        const char *k = cls_units(A.raw, B.raw), *ki = cls_fold(A.folded, B.folded, A.raw, B.raw);
        agree("compare(string,case_sensitive)", OP(a.compare(b, ST::case_sensitive)), P.cs, "compare", k);
        agree("compare(string,case_insensitive)", OP(a.compare(b, ST::case_insensitive)), P.ci, "compare_i", ki);
        agree_b("string==string", OP(a == b), P.cs == 0, P.cs, "compare", k);
        agree_b("string!=string", OP(a != b), P.cs != 0, P.cs, "compare", k);
        agree_b("string<string", OP(a < b), P.cs < 0, P.cs, "compare", k);
        agree_b("less_i", OP(ST::less_i()(a, b)), P.ci < 0, P.ci, "compare_i", ki);
        agree_b("equal_i", OP(ST::equal_i()(a, b)), P.ci == 0, P.ci, "compare_i", ki);
        check_hashes(c, a, b, A.raw == B.raw, A.folded == B.folded, A.raw, B.raw);

        // ---- C-string overloads: the argument denotes the bytes up to its first NUL
        Prim PC = P;
        if (B.hasnul) PC = primary(c, a, B.cs, A.raw, B.cpre, A.folded, B.cpre_folded, false);
        const char *kc = cls_units(A.raw, B.cpre), *kci = cls_fold(A.folded, B.cpre_folded, A.raw, B.cpre);
        agree("compare(const char*)", OP(a.compare(bz)), PC.cs, "compare", kc);
        agree("compare(const char*,case_insensitive)", OP(a.compare(bz, ST::case_insensitive)), PC.ci, "compare_i", kci);
        agree("compare_i(const char*)", OP(a.compare_i(bz)), PC.ci, "compare_i", kci);
        agree("compare(const char8_t*)", OP(a.compare(b8)), PC.cs, "compare", kc);
        agree("compare_i(const char8_t*)", OP(a.compare_i(b8)), PC.ci, "compare_i", kci);
        agree_b("string==const char*", OP(a == bz), PC.cs == 0, PC.cs, "compare", kc);
        agree_b("string!=const char*", OP(a != bz), PC.cs != 0, PC.cs, "compare", kc);
        agree_b("const char*==string", OP(bz == a), PC.cs == 0, PC.cs, "compare", kc);
        agree_b("string==const char8_t*", OP(a == b8), PC.cs == 0, PC.cs, "compare", kc);
        agree_b("string!=const char8_t*", OP(a != b8), PC.cs != 0, PC.cs, "compare", kc);

        // ---- compare_n: comparison of the first n units
        for (size_t n : ns) {
            std::string ea = ref::first_n(A.raw, n), eb = ref::first_n(B.raw, n), ec = ref::first_n(B.cpre, n);
            Prim Pn = P, Pc = PC;
            bool cut_a = ea.size() != A.raw.size();
            ST::string xa;
            std::string fa = A.folded;
            if (cut_a) {
                xa = mkst(ea);
                fa = ref::fold(ea);
            }
            if (cut_a || eb.size() != B.raw.size()) {
                ST::string xb = mkst(eb);
                Pn = primary(c, cut_a ? xa : a, xb, ea, eb, fa, ref::fold(eb), false);
            }
            if (cut_a || ec.size() != B.cpre.size()) {
                ST::string xc = mkst(ec);
                Pc = primary(c, cut_a ? xa : a, xc, ea, ec, fa, ref::fold(ec), false);
            }
            const char *kn = cls_units(ea, eb), *knc = cls_units(ea, ec);
            agree("compare_n(string,n)", OP(a.compare_n(b, n)), Pn.cs, "compare", kn);
            agree("compare_n(string,n,case_insensitive)", OP(a.compare_n(b, n, ST::case_insensitive)), Pn.ci, "compare_i", kn);
            agree("compare_ni(string,n)", OP(a.compare_ni(b, n)), Pn.ci, "compare_i", kn);
            agree("compare_n(const char*,n)", OP(a.compare_n(bz, n)), Pc.cs, "compare", knc);
            agree("compare_n(const char*,n,case_insensitive)", OP(a.compare_n(bz, n, ST::case_insensitive)), Pc.ci, "compare_i", knc);
            agree("compare_ni(const char*,n)", OP(a.compare_ni(bz, n)), Pc.ci, "compare_i", knc);
            agree("compare_n(const char8_t*,n)", OP(a.compare_n(b8, n)), Pc.cs, "compare", knc);
            agree("compare_ni(const char8_t*,n)", OP(a.compare_ni(b8, n)), Pc.ci, "compare_i", knc);
        }

        // ---- char_buffer family on the same contents; must order exactly like the strings
        if (with_buffers) {
            check_buf_pair<char>(c, A.w, B.w, ns);
            int rb = OP(A.w.buf.compare(B.w.buf));
            val();
            if (sgn(rb) != sgn(P.cs))
                c.fail(strf("buffer<char>.compare(buffer):disagrees-with-string.compare:%s", k),
                       strf("a=%s b=%s buffer %d string %d", show(A.raw).c_str(), show(B.raw).c_str(), rb, P.cs));
        }
    });
    if (!o.ok()) {
        vf::count_dyn(std::string("out:exception:") + vf::outkind_name(o.kind));
        c.fail(strf("compare-family:%s", vf::outkind_name(o.kind)), o.str());
    }
}

// ------------------------------------------------------------------ unary checks
static void check_unary(Ctx &c, const std::string &raw)
{
    vf::Outcome o = vf::guard([&] {
        ST::string a = mkst(raw), a2 = mkst(std::string(raw));
        std::string fr = ref::fold(raw), ur = ref::upper(raw);
        ST::string lo = OP(a.to_lower()), up = OP(a.to_upper());
        auto same = [](const ST::string &s, const std::string &r) {
            if (s.size() != r.size()) return false;
            for (size_t i = 0; i < r.size(); ++i)
                if (s.c_str()[i] != r[i]) return false;
            return true;
        };
        auto mapcls = [&](const ST::string &got, const std::string &want) -> const char * {
            if (got.size() != raw.size()) return "size-changed";
            for (size_t i = 0; i < raw.size(); ++i)
                if (got.c_str()[i] != want[i]) {
                    unsigned char x = (unsigned char)raw[i];
                    if (!ref::is_ascii_letter(x)) return x >= 0x80 ? "changes-byte>=0x80" : "changes-non-letter";
                    return "letter-mapped-wrongly";
                }
            return "ok";
        };
        val();
        if (!same(lo, fr))
            c.fail(strf("to_lower:%s", mapcls(lo, fr)), strf("input %s result %s", show(raw).c_str(), vf::hex_units(lo.c_str(), lo.size(), 40).c_str()));
        val();
        if (!same(up, ur))
            c.fail(strf("to_upper:%s", mapcls(up, ur)), strf("input %s result %s", show(raw).c_str(), vf::hex_units(up.c_str(), up.size(), 40).c_str()));
        // the same on temporaries / objects given up with std::move, and chained (an rvalue-qualified overload must map alike)
        {
            ST::string t1 = mkst(raw), t2 = mkst(raw);
            ST::string lo_r = OP(ST::string(a).to_lower()), up_r = OP(ST::string(a).to_upper()), lo_m = OP(std::move(t1).to_lower()), up_m = OP(std::move(t2).to_upper());
            ST::string lu = OP(a.to_lower().to_upper()), ul = OP(a.to_upper().to_lower());
            val();
            if (!same(lo_r, fr) || !same(lo_m, fr)) c.fail(strf("to_lower(on an rvalue):%s", mapcls(same(lo_r, fr) ? lo_m : lo_r, fr)), strf("input %s", show(raw).c_str()));
            if (!same(up_r, ur) || !same(up_m, ur)) c.fail(strf("to_upper(on an rvalue):%s", mapcls(same(up_r, ur) ? up_m : up_r, ur)), strf("input %s", show(raw).c_str()));
            if (!same(lu, ur) || !same(ul, fr)) c.fail("to_lower().to_upper() / to_upper().to_lower():chained-call-differs", strf("input %s", show(raw).c_str()));
        }
        val();
        if (lo.c_str()[lo.size()] != 0 || up.c_str()[up.size()] != 0) c.fail("to_upper/to_lower:terminator", show(raw));
        val();
        if (!same(a, raw)) c.fail("to_upper/to_lower:source-changed", show(raw));
        bool has_letter = false;
        for (unsigned char ch : raw) has_letter |= ref::is_ascii_letter(ch);
        if (has_letter) VF_COUNT("out:case:input-has-letters");
        else VF_COUNT("out:case:input-without-letters");
        // case-insensitive equivalence class representatives
        val();
        if (OP(a.compare_i(lo)) != 0 || OP(a.compare_i(up)) != 0 || OP(up.compare_i(lo)) != 0)
            c.fail("string.compare_i(string):zero-iff-fold-equal:vs-own-to_upper/to_lower", show(raw));
        val();
        if (OP(ST::hash_i()(a)) != OP(ST::hash_i()(lo)) || OP(ST::hash_i()(a)) != OP(ST::hash_i()(up)))
            c.fail("hash_i:fold-equal-strings-different-hash", strf("%s vs its to_upper/to_lower", show(raw).c_str()));
        // reflexivity (same object and separately built equal object), hashes of equal strings
        int self = OP(a.compare(a)), selfi = OP(a.compare_i(a)), eq2 = OP(a.compare(a2)), eq2i = OP(a.compare_i(a2));
        val();
        if (self != 0) c.fail("string.compare(string):reflexivity:same-object", strf("%s compare(a,a)=%d", show(raw).c_str(), self));
        val();
        if (selfi != 0) c.fail("string.compare_i(string):reflexivity:same-object", strf("%s compare_i(a,a)=%d", show(raw).c_str(), selfi));
        val();
        if (eq2 != 0) c.fail("string.compare(string):order:equal", strf("two strings built from %s: compare=%d", show(raw).c_str(), eq2));
        val();
        if (eq2i != 0)
            c.fail("string.compare_i(string):zero-iff-fold-equal:equal", strf("two strings built from %s: compare_i=%d", show(raw).c_str(), eq2i));
        val();
        if (OP(a == a) != (self == 0) || OP(a == a2) != (eq2 == 0)) c.fail("string==string:disagrees-with-compare:equal", show(raw));
        val();
        if (OP(a != a) != (self != 0) || OP(a != a2) != (eq2 != 0)) c.fail("string!=string:disagrees-with-compare:equal", show(raw));
        val();
        if (OP(a < a) != (self < 0) || OP(a < a2) != (eq2 < 0) || OP(a2 < a) != (OP(a2.compare(a)) < 0))
            c.fail("string<string:disagrees-with-compare:equal", show(raw));
        check_hashes(c, a, a2, true, true, raw, raw);
        // null pointer denotes the empty string (DESIGN.md section 10): same result as the empty ST::string
        const char *np = nullptr;
        ST::string empty;
        int want = OP(a.compare(empty)), wanti = OP(a.compare_i(empty));
        val();
        if (sgn(want) != (raw.empty() ? 0 : 1))
            c.fail("string.compare(string):order:proper-prefix", strf("%s vs empty string: %d", show(raw).c_str(), want));
        val();
        if ((wanti == 0) != raw.empty())
            c.fail("string.compare_i(string):zero-iff-fold-equal:fold-proper-prefix", strf("%s vs empty string: %d", show(raw).c_str(), wanti));
        val();
        if (sgn(OP(a.compare(np))) != sgn(want) || OP(a == np) != (want == 0) || OP(a != np) != (want != 0))
            c.fail("string.compare(const char*):null-pointer-not-empty", show(raw));
        val();
        if (sgn(OP(a.compare_i(np))) != sgn(wanti) || sgn(OP(a.compare(np, ST::case_insensitive))) != sgn(wanti))
            c.fail("string.compare_i(const char*):null-pointer-not-empty", show(raw));
        for (size_t n : {size_t(0), size_t(1), size_t(2), SZMAX}) {
            // first n units of a against the empty string
            ST::string an = mkst(ref::first_n(raw, n));
            int wn = OP(an.compare(empty)), wni = OP(an.compare_i(empty));
            val();
            if (sgn(wn) != (an.empty() ? 0 : 1) || (wni == 0) != an.empty())
                c.fail("string.compare(string):order:proper-prefix", strf("first %zu units of %s vs empty string: %d / %d", n, show(raw).c_str(), wn, wni));
            val();
            if (sgn(OP(a.compare_n(np, n))) != sgn(wn))
                c.fail("string.compare_n(const char*,n):null-pointer-not-empty", strf("%s n=%zu", show(raw).c_str(), n));
            val();
            if (sgn(OP(a.compare_ni(np, n))) != sgn(wni) || sgn(OP(a.compare_n(np, n, ST::case_insensitive))) != sgn(wni))
                c.fail("string.compare_ni(const char*,n):null-pointer-not-empty", strf("%s n=%zu", show(raw).c_str(), n));
        }
        ST::char_buffer ab(raw.data(), raw.size());
        val();
        if (sgn(OP(ab.compare(np))) != sgn(want) || sgn(OP(ab.compare_n(np, SZMAX))) != sgn(want) || OP(ab.compare_n(np, 0)) != 0)
            c.fail("buffer<char>.compare(const T*):null-pointer-not-empty", show(raw));
    });
    if (!o.ok()) c.fail(strf("unary:%s", vf::outkind_name(o.kind)), o.str());
}

// ------------------------------------------------------------------ huge lengths (static pointer+length compare)
static const size_t HUGE_LEN[] = {(size_t(1) << 31) - 1, size_t(1) << 31, (size_t(1) << 31) + 1, (size_t(1) << 32) - 1,
                                  size_t(1) << 32,       (size_t(1) << 32) + 1, (size_t(1) << 63) - 1, size_t(1) << 63,
                                  (size_t(1) << 63) + 1, SZMAX - 1,             SZMAX};
static const size_t HUGE_MAX[] = {0, 1, 2, 3, size_t(1) << 31, size_t(1) << 32, SZMAX - 1, SZMAX};
enum { N_HUGE_LEN = 11, N_HUGE_MAX = 8 };

template <class T>
struct HugeCase {
    std::basic_string<T> shrt, big2;  // real contents; `big` has claimed length H but only shrt.size() readable units
    size_t H;
    bool short_left;
    int maxsel;  // -1: four-argument form
    size_t maxlen;
};
template <class T>
static HugeCase<T> huge_decode(uint64_t i, const std::vector<uint32_t> &alpha)
{
    HugeCase<T> h;
    std::vector<unsigned> d;
    uint64_t ns = vf::seq_count(alpha.size(), 2);
    vf::seq_decode(vf::take(i, ns), alpha.size(), 2, d);
    for (unsigned x : d) h.shrt += (T)alpha[x];
    unsigned b0 = vf::take(i, alpha.size()), b1 = vf::take(i, alpha.size());
    h.big2 += (T)alpha[b0];
    h.big2 += (T)alpha[b1];
    h.H = HUGE_LEN[vf::take(i, N_HUGE_LEN)];
    h.short_left = vf::take(i, 2) == 0;
    unsigned m = vf::take(i, N_HUGE_MAX + 1);
    h.maxsel = (int)m - 1;
    h.maxlen = m ? HUGE_MAX[m - 1] : SZMAX;
    return h;
}
template <class T>
static uint64_t huge_count(const std::vector<uint32_t> &alpha)
{
    return vf::seq_count(alpha.size(), 2) * alpha.size() * alpha.size() * N_HUGE_LEN * 2 * (N_HUGE_MAX + 1);
}
template <class T>
static std::string huge_desc(const HugeCase<T> &h)
{
    return strf("buffer<%s>::compare: short operand %s on the %s, other operand starts %s with claimed length %zu (0x%zx), max=%s",
                tname<T>(), showw(h.shrt).c_str(), h.short_left ? "left" : "right", showw(h.big2).c_str(), h.H, h.H,
                h.maxsel < 0 ? "none" : strf("%zu", h.maxlen).c_str());
}
template <class T>
static void huge_run(Ctx &c, const HugeCase<T> &h)
{
    static vf::GuardArena ga_s, ga_b;
    size_t ns = h.shrt.size();
    // only the units the comparison may legitimately read exist: min(len) of both sides
    const T *ps = ga_s.place(h.shrt.data(), ns);
    const T *pbig = ga_b.place(h.big2.data(), ns);
    const T *l = h.short_left ? ps : pbig, *r = h.short_left ? pbig : ps;
    size_t ll = h.short_left ? ns : h.H, rl = h.short_left ? h.H : ns;
    ref::u128 el = ll, er = rl;
    if (h.maxsel >= 0) {
        if (el > h.maxlen) el = h.maxlen;
        if (er > h.maxlen) er = h.maxlen;
    }
    int want = ref::cmp_units<T>(l, el, r, er);
    int got = 0;
    vf::Outcome o = vf::guard([&] {
        got = h.maxsel < 0 ? OP(ST::buffer<T>::compare(l, ll, r, rl)) : OP(ST::buffer<T>::compare(l, ll, r, rl, h.maxlen));
    });
    if (!o.ok()) {
        c.fail(strf("buffer::compare(ptr,len,ptr,len):%s", vf::outkind_name(o.kind)), o.str());
        return;
    }
    val();
    // class of the case: is the order decided by the lengths, and does their difference fit an int?
    size_t common = (size_t)(el < er ? el : er);  // <= ns: one operand is the short one
    bool prefix_equal = ref::cmp_units<T>(l, common, r, common) == 0;
    ref::u128 diff = el > er ? el - er : er - el;
    bool bigdiff = diff >= (ref::u128(1) << 31);
    vf::count_dyn(strf("out:huge:%s:%s", prefix_equal ? (bigdiff ? "length-decides,diff>=2^31" : "length-decides,diff<2^31") : "content-decides",
                       want < 0 ? "less" : want > 0 ? "greater" : "equal"));
    if (sgn(got) != want) {
        std::string sig;
        if (prefix_equal && bigdiff)
            sig = "buffer::compare(ptr,len,ptr,len):order:length-difference>=2^31";  // one template line for all T / both forms
        else
            sig = strf("buffer<%s>::compare(ptr,len,ptr,len%s):order:%s", tname<T>(), h.maxsel < 0 ? "" : ",max",
                       prefix_equal ? "length-decides,difference<2^31" : "content-decides");
        c.fail(sig, strf("%s: result %d, reference sign %d (effective lengths after max: %s vs %s)", huge_desc(h).c_str(), got, want,
                         strf("%llu*2^32+%llu", (unsigned long long)(el >> 32), (unsigned long long)(el & 0xFFFFFFFFu)).c_str(),
                         strf("%llu*2^32+%llu", (unsigned long long)(er >> 32), (unsigned long long)(er & 0xFFFFFFFFu)).c_str()));
    }
}

// ------------------------------------------------------------------ self-test of the reference
static void selftest()
{
    struct {
        const char *a;
        size_t la;
        const char *b;
        size_t lb;
        int cs;
        bool feq;
    } t[] = {{"", 0, "", 0, 0, true},          {"a", 1, "b", 1, -1, false},      {"b", 1, "a", 1, 1, false},
             {"a", 1, "a\0", 2, -1, false},    {"\x80", 1, "\x7f", 1, 1, false}, {"\xff", 1, "", 0, 1, false},
             {"A", 1, "a", 1, -1, true},       {"[", 1, "a", 1, -1, false},      {"Z", 1, "z", 1, -1, true},
             {"@", 1, "`", 1, -1, false},      {"a\0b", 3, "a\0c", 3, -1, false}, {"abc", 3, "ab", 2, 1, false},
             {"aBc", 3, "AbC", 3, 1, true},    {"{", 1, "[", 1, 1, false}};
    for (auto &e : t) {
        std::string a(e.a, e.la), b(e.b, e.lb);
        if (ref::cmp_str(a, b) != e.cs || ref::cmp_str(b, a) != -e.cs || (ref::fold(a) == ref::fold(b)) != e.feq) {
            fprintf(stderr, "selftest: reference order / folding wrong for %s vs %s\n", show(a).c_str(), show(b).c_str());
            exit(2);
        }
    }
    for (unsigned v = 0; v < 256; ++v) {
        unsigned char f = ref::fold_byte(v), u = ref::upper_byte(v);
        bool up = v >= 'A' && v <= 'Z', lo = v >= 'a' && v <= 'z';
        if (f != (up ? v + 32 : v) || u != (lo ? v - 32 : v) || ref::fold_byte(u) != f) {
            fprintf(stderr, "selftest: reference folding wrong for byte %02x\n", v);
            exit(2);
        }
    }
    const char32_t w1[] = {0x80000000u}, w2[] = {0x7FFFFFFFu};
    if (ref::cmp_units<char32_t>(w1, 1, w2, 1) != 1 || ref::cmp_units<char32_t>(w1, 0, w2, ref::u128(1) << 64) != -1 ||
        ref::cmp_units<char32_t>(w1, 1, w1, 1) != 0) {
        fprintf(stderr, "selftest: reference unit order wrong\n");
        exit(2);
    }
    if (ref::c_prefix(std::string("ab\0c", 4)) != "ab" || ref::first_n(std::string("abc"), 2) != "ab" ||
        ref::first_n(std::string("abc"), SZMAX) != "abc") {
        fprintf(stderr, "selftest: reference helpers wrong\n");
        exit(2);
    }
}

// ------------------------------------------------------------------ wide pools
template <class T>
static std::shared_ptr<std::vector<WItem<T>>> wide_pool(const std::vector<uint32_t> &alpha, unsigned L)
{
    auto p = std::make_shared<std::vector<WItem<T>>>();
    uint64_t n = vf::seq_count(alpha.size(), L);
    std::vector<unsigned> d;
    for (uint64_t i = 0; i < n; ++i) {
        vf::seq_decode(i, alpha.size(), L, d);
        std::basic_string<T> r;
        for (unsigned x : d) r += (T)alpha[x];
        p->push_back(make_witem<T>(r));
    }
    return p;
}

template <class T>
static void add_wide_stages(vf::Plan &plan, const char *an, const std::vector<uint32_t> &alpha, unsigned L,
                            const std::vector<uint32_t> &talpha, unsigned TL, const std::vector<uint32_t> &halpha)
{
    auto pool = wide_pool<T>(alpha, L);
    uint64_t N = pool->size();
    static const std::vector<size_t> ns = {0, 1, 2, 3, SZMAX};
    plan.stage(strf("wide:%s:pairs(%s^<=%u)", tname<T>(), an, L), N * N,
               [pool, N](uint64_t i, Ctx &c) {
                   const WItem<T> &A = (*pool)[i / N], &B = (*pool)[i % N];
                   vf::Outcome o = vf::guard([&] { check_buf_pair<T>(c, A, B, ns); });
                   if (!o.ok()) c.fail(strf("buffer<%s>:compare-family:%s", tname<T>(), vf::outkind_name(o.kind)), o.str());
                   if (!A.raw.empty() && !B.raw.empty() && A.raw != B.raw) c.nontrivial();
               },
               [pool, N](uint64_t i) { return strf("a=%s b=%s", showw((*pool)[i / N].raw).c_str(), showw((*pool)[i % N].raw).c_str()); });
    auto tp = wide_pool<T>(talpha, TL);
    uint64_t M = tp->size();
    plan.stage(strf("wide:%s:triples(%zu-symbol^<=%u)", tname<T>(), talpha.size(), TL), M * M,
               [tp, M](uint64_t i, Ctx &c) {
                   const WItem<T> &A = (*tp)[i / M], &B = (*tp)[i % M];
                   int ab = OP(A.buf.compare(B.buf));
                   if (ab > 0) return;  // the mirrored triple covers it
                   for (uint64_t k = 0; k < M; ++k) {
                       const WItem<T> &C = (*tp)[k];
                       int bc = OP(B.buf.compare(C.buf));
                       if (bc > 0) continue;
                       int ac = OP(A.buf.compare(C.buf));
                       val();
                       if (ac > 0 || ((ab < 0 || bc < 0) && ac == 0))
                           c.fail(strf("buffer<%s>.compare(buffer):transitivity", tname<T>()),
                                  strf("a=%s b=%s c=%s: ab=%d bc=%d ac=%d", showw(A.raw).c_str(), showw(B.raw).c_str(),
                                       showw(C.raw).c_str(), ab, bc, ac));
                   }
                   if (!A.raw.empty() && !B.raw.empty() && A.raw != B.raw) c.nontrivial();
               },
               [tp, M](uint64_t i) { return strf("a=%s b=%s c=all", showw((*tp)[i / M].raw).c_str(), showw((*tp)[i % M].raw).c_str()); });
    std::vector<uint32_t> ha = halpha;
    plan.stage(strf("huge:%s:static-compare(short 0..2 units x claimed 2^31-1..SIZE_MAX)", tname<T>()), huge_count<T>(ha),
               [ha](uint64_t i, Ctx &c) {
                   HugeCase<T> h = huge_decode<T>(i, ha);
                   huge_run<T>(c, h);
                   if (!h.shrt.empty()) c.nontrivial();
               },
               [ha](uint64_t i) { return huge_desc(huge_decode<T>(i, ha)); });
}

// long strings: base text with one position replaced
static const char LONG_BASE[] = "kLmNoPqRsTuVwXyZaBcDeFgHiJkLmNoPqRsTuVwX";
static Pool long_pool(const std::vector<unsigned> &lens, const std::vector<unsigned> &alpha)
{
    Pool p = std::make_shared<std::vector<Item>>();
    for (unsigned len : lens) {
        p->push_back(make_item(std::string(LONG_BASE, len)));
        for (unsigned pos = 0; pos < len; ++pos)
            for (unsigned v : alpha) {
                std::string r(LONG_BASE, len);
                if ((unsigned char)r[pos] == v) continue;
                r[pos] = (char)v;
                p->push_back(make_item(r));
            }
    }
    return p;
}


// ------------------------------------------------------------------ aliased operands
// Both operands live in the same storage: the same object, a C-string pointer to the object's own data, and every
// pair of windows [o1, o1+l1) / [o2, o2+l2) of one buffer handed to the static pointer+length compare.  The order
// depends on the contents of the windows only, never on where they are.
template <class T>
static void check_aliased_buf(Ctx &c, const std::basic_string<T> &raw)
{
    typedef std::basic_string<T> S;
    const char *tn = tname<T>();
    ST::buffer<T> b(raw.data(), raw.size());
    const T *p = b.data();
    const size_t n = raw.size();
    auto want_is = [&](const char *name, int obs, int want, const S &ea, const S &eb) {
        val();
        if (sgn(obs) != want)
            c.fail(strf("buffer<%s>.%s:aliased-operands:%s", tn, name, cls_units(ea, eb)),
                   strf("one buffer %s; effective operands %s vs %s: result %d, reference sign %d", showw(raw).c_str(), showw(ea).c_str(),
                        showw(eb).c_str(), obs, want));
    };
    S cpre = ref::c_prefix(raw);
    want_is("compare(buffer)", OP(b.compare(b)), 0, raw, raw);
    val();
    if (!OP(b == b) || OP(b != b) || OP(b < b)) c.fail(strf("buffer<%s>.operators:aliased-operands:equal", tn), strf("b=%s: ==, != or < wrong for b against itself", showw(raw).c_str()));
    want_is("compare(const T*)", OP(b.compare(p)), ref::cmp_str(raw, cpre), raw, cpre);
    for (size_t k : {size_t(0), size_t(1), n ? n - 1 : 0, n, n + 1, SZMAX}) {
        S ea = ref::first_n(raw, k), ec = ref::first_n(cpre, k);
        want_is("compare_n(buffer,n)", OP(b.compare_n(b, k)), 0, ea, ea);
        want_is("compare_n(const T*,n)", OP(b.compare_n(p, k)), ref::cmp_str(ea, ec), ea, ec);
    }
    for (size_t o1 = 0; o1 <= (n ? 1 : 0); ++o1)
        for (size_t o2 = 0; o2 <= (n ? 1 : 0); ++o2)
            for (size_t l1 = 0; o1 + l1 <= n; ++l1)
                for (size_t l2 = 0; o2 + l2 <= n; ++l2) {
                    S ea = raw.substr(o1, l1), eb = raw.substr(o2, l2);
                    int want = ref::cmp_str(ea, eb);
                    want_is("compare(ptr,len,ptr,len)", OP(ST::buffer<T>::compare(p + o1, l1, p + o2, l2)), want, ea, eb);
                    for (size_t mx : {size_t(0), size_t(1), l1 < l2 ? l1 : l2, l1 > l2 ? l1 : l2, SZMAX}) {
                        S xa = ref::first_n(ea, mx), xb = ref::first_n(eb, mx);
                        want_is("compare(ptr,len,ptr,len,max)", OP(ST::buffer<T>::compare(p + o1, l1, p + o2, l2, mx)), ref::cmp_str(xa, xb), xa, xb);
                    }
                }
}

static void check_aliased_string(Ctx &c, const std::string &raw)
{
    ST::string s = mkst(raw);
    const char *z = s.c_str();
    const char8_t *z8 = reinterpret_cast<const char8_t *>(z);
    std::string cpre = ref::c_prefix(raw), f = ref::fold(raw), fc = ref::fold(cpre);
    int wc = ref::cmp_str(raw, cpre);
    bool fz = f == fc;
    auto want_is = [&](const char *name, int obs, int want, const std::string &eb) {
        val();
        if (sgn(obs) != want)
            c.fail(strf("string.%s:aliased-operands:%s", name, cls_units(raw, eb)),
                   strf("s=%s against its own storage (effective right operand %s): result %d, reference sign %d", show(raw).c_str(),
                        show(eb).c_str(), obs, want));
    };
    auto zero_iff = [&](const char *name, int obs, bool zero, const std::string &eb) {
        val();
        if ((obs == 0) != zero)
            c.fail(strf("string.%s:aliased-operands:zero-iff-fold-equal", name),
                   strf("s=%s against its own storage (effective right operand %s): result %d", show(raw).c_str(), show(eb).c_str(), obs));
    };
    want_is("compare(string)", OP(s.compare(s)), 0, raw);
    zero_iff("compare_i(string)", OP(s.compare_i(s)), true, raw);
    val();
    if (!OP(s == s) || OP(s != s) || OP(s < s) || OP(ST::less_i()(s, s)) || !OP(ST::equal_i()(s, s)))
        c.fail("string.operators:aliased-operands:equal", strf("s=%s: ==, !=, <, less_i or equal_i wrong for s against itself", show(raw).c_str()));
    want_is("compare(const char*)", OP(s.compare(z)), wc, cpre);
    want_is("compare(const char8_t*)", OP(s.compare(z8)), wc, cpre);
    zero_iff("compare_i(const char*)", OP(s.compare_i(z)), fz, cpre);
    zero_iff("compare(const char*,case_insensitive)", OP(s.compare(z, ST::case_insensitive)), fz, cpre);
    val();
    if (OP(s == z) != (wc == 0) || OP(s != z) != (wc != 0) || OP(z == s) != (wc == 0) || OP(s == z8) != (wc == 0))
        c.fail(strf("string==const char*:aliased-operands:%s", cls_units(raw, cpre)),
               strf("s=%s compared with its own c_str(): operator results disagree with the reference sign %d", show(raw).c_str(), wc));
    for (size_t k : {size_t(0), size_t(1), raw.size() ? raw.size() - 1 : 0, raw.size(), raw.size() + 1, SZMAX}) {
        std::string ea = ref::first_n(raw, k), ec = ref::first_n(cpre, k);
        want_is("compare_n(string,n)", OP(s.compare_n(s, k)), 0, ea);
        want_is("compare_n(const char*,n)", OP(s.compare_n(z, k)), ref::cmp_str(ea, ec), ec);
        zero_iff("compare_ni(const char*,n)", OP(s.compare_ni(z, k)), ref::fold(ea) == ref::fold(ec), ec);
        zero_iff("compare_ni(string,n)", OP(s.compare_ni(s, k)), true, ea);
    }
}

template <class T>
static void add_alias_stage(vf::Plan &plan, const char *an, const std::vector<uint32_t> &alpha, unsigned L, const std::vector<unsigned> &longs)
{
    // short sequences over the alphabet, plus long (heap-backed) ones: a fixed run with each alphabet symbol at 3 positions
    auto inputs = std::make_shared<std::vector<std::basic_string<T>>>();
    uint64_t n = vf::seq_count(alpha.size(), L);
    std::vector<unsigned> d;
    for (uint64_t i = 0; i < n; ++i) {
        vf::seq_decode(i, alpha.size(), L, d);
        std::basic_string<T> r;
        for (unsigned x : d) r += (T)alpha[x];
        inputs->push_back(r);
    }
    for (unsigned len : longs)
        for (uint32_t v : alpha)
            for (unsigned pos : {0u, len / 2, len - 1}) {
                std::basic_string<T> r;
                for (unsigned k = 0; k < len; ++k) r += (T)LONG_BASE[k % 40];
                r[pos] = (T)v;
                inputs->push_back(r);
            }
    plan.stage(strf("aliased:%s:one-buffer-all-window-pairs(%s^<=%u + long)", tname<T>(), an, L), inputs->size(),
               [inputs](uint64_t i, Ctx &c) {
                   const std::basic_string<T> &r = (*inputs)[i];
                   vf::Outcome o = vf::guard([&] {
                       check_aliased_buf<T>(c, r);
                       if constexpr (sizeof(T) == 1) check_aliased_string(c, std::string(r.begin(), r.end()));
                   });
                   if (!o.ok()) c.fail(strf("buffer<%s>:aliased-operands:%s", tname<T>(), vf::outkind_name(o.kind)), o.str());
                   if (r.size() >= 2) c.nontrivial();
               },
               [inputs](uint64_t i) { return showw((*inputs)[i]); });
}

static std::string unary_input(uint64_t i)
{
    // every byte value in first / middle / last position of short (in-object) and long (heap) strings
    unsigned v = vf::take(i, 256), slot = vf::take(i, 7);
    static const unsigned LEN[7] = {1, 3, 3, 3, 20, 20, 20}, POS[7] = {0, 0, 1, 2, 0, 10, 19};
    std::string r(LONG_BASE, LEN[slot]);
    r[POS[slot]] = (char)v;
    return r;
}

static void build(vf::Plan &plan, const vf::Opts &o)
{
    selftest();
    static_assert(sizeof(wchar_t) == 4, "wchar_t alphabets assume 32-bit wchar_t");
    plan.rule =
        "case = one ordered pair (or one (a,b) row of triples) of operands; non-trivial = both operands non-empty and not "
        "identical (the result depends on contents); for the unary stage: input containing at least one ASCII letter and one other byte";
    plan.assumptions = {
        "compare_i is only required to be a total preorder with fold-equality as its equivalence; which non-equal operand sorts first is not asserted",
        "a const char* / const T* argument denotes the units up to its first zero unit; nullptr denotes the empty string",
        "wchar_t element order is char_traits<wchar_t>::lt (signed on this platform); char16_t/char32_t unsigned",
        "huge lengths are exercised only through the static pointer+length compare with one operand of <= 2 units (nothing is allocated; only min(len) units are mapped)",
        "strings longer than 3 units are covered by one-position perturbations of a fixed text of length 14..33 only"};
    const bool T = o.thorough();
    const std::vector<unsigned> A14 = {0x00, 0x01, 0x40, 0x41, 0x5A, 0x5B, 0x60, 0x61, 0x7A, 0x7B, 0x7F, 0x80, 0xC3, 0xFF};
    const std::vector<unsigned> A6 = {0x00, 0x41, 0x61, 0x5B, 0x80, 0xFF};
    static const std::vector<size_t> NS = {0, 1, 2, 3, 4, size_t(1) << 31, size_t(1) << 32, SZMAX - 1, SZMAX};
    static const std::vector<size_t> NS_LONG = {0, 1, 15, 16, 17, 32, SZMAX};

    auto pair_stage = [&plan](const std::string &name, Pool pool, const std::vector<size_t> *ns) {
        uint64_t N = pool->size();
        plan.stage(name, N * N,
                   [pool, N, ns](uint64_t i, Ctx &c) {
                       const Item &A = (*pool)[i / N], &B = (*pool)[i % N];
                       check_pair(c, A, B, *ns, true);
                       if (!A.raw.empty() && !B.raw.empty() && A.raw != B.raw) c.nontrivial();
                   },
                   [pool, N](uint64_t i) { return strf("a=%s b=%s", show((*pool)[i / N].raw).c_str(), show((*pool)[i % N].raw).c_str()); });
    };

    // ---- pairs over the 14-byte boundary alphabet
    const std::vector<unsigned> A10 = {0x00, 0x40, 0x41, 0x5A, 0x5B, 0x60, 0x61, 0x7B, 0x80, 0xFF};
    if (T)
        pair_stage("pairs:A14^<=3", seq_pool(A14, 3), &NS);
    else {
        pair_stage("pairs:A14^<=2", seq_pool(A14, 2), &NS);
        pair_stage("pairs:A10^<=3", seq_pool(A10, 3), &NS);
    }

    // ---- complete fold sweep: all 256x256 single-byte pairs, alone and after a letter of the other case
    {
        Pool single = std::make_shared<std::vector<Item>>(), afterA = std::make_shared<std::vector<Item>>(),
             aftera = std::make_shared<std::vector<Item>>();
        for (unsigned v = 0; v < 256; ++v) {
            single->push_back(make_item(std::string(1, (char)v)));
            afterA->push_back(make_item(std::string("Q") + (char)v));
            aftera->push_back(make_item(std::string("q") + (char)v));
        }
        static const std::vector<size_t> ns1 = {0, 1, 2, SZMAX};
        plan.stage("fold:all-256x256-single-bytes(alone, and as 'Q'x vs 'q'y)", 65536 * 2,
                   [single, afterA, aftera](uint64_t i, Ctx &c) {
                       unsigned x = vf::take(i, 256), y = vf::take(i, 256), ctx = vf::take(i, 2);
                       const Item &A = ctx ? (*afterA)[x] : (*single)[x], &B = ctx ? (*aftera)[y] : (*single)[y];
                       check_pair(c, A, B, ns1, ctx == 0);
                       if (x != y) c.nontrivial();
                   },
                   [](uint64_t i) {
                       unsigned x = vf::take(i, 256), y = vf::take(i, 256), ctx = vf::take(i, 2);
                       return ctx ? strf("a='Q'+%02X b='q'+%02X", x, y) : strf("a=[1]%02X b=[1]%02X", x, y);
                   });
        // ---- all 256^3 one-byte triples: compare and compare_i are transitive over the complete byte domain
        plan.stage("triples:all-256^3-single-bytes", 65536,
                   [single](uint64_t i, Ctx &c) {
                       unsigned x = i / 256, y = i % 256;
                       const ST::string &a = (*single)[x].s, &b = (*single)[y].s;
                       int ab = OP(a.compare(b)), iab = OP(a.compare_i(b));
                       for (unsigned z = 0; z < 256; ++z) {
                           const ST::string &cc = (*single)[z].s;
                           if (ab <= 0) {
                               int bc = OP(b.compare(cc));
                               if (bc <= 0) {
                                   int ac = OP(a.compare(cc));
                                   val();
                                   if (ac > 0 || ((ab < 0 || bc < 0) && ac == 0))
                                       c.fail("string.compare(string):transitivity", strf("a=%02X b=%02X c=%02X: ab=%d bc=%d ac=%d", x, y, z, ab, bc, ac));
                               }
                           }
                           if (iab <= 0) {
                               int bc = OP(b.compare_i(cc));
                               if (bc <= 0) {
                                   int ac = OP(a.compare_i(cc));
                                   val();
                                   if (ac > 0 || ((iab < 0 || bc < 0) && ac == 0))
                                       c.fail("string.compare_i(string):transitivity",
                                              strf("a=%02X b=%02X c=%02X: compare_i ab=%d bc=%d ac=%d", x, y, z, iab, bc, ac));
                               }
                           }
                       }
                       if (x != y) c.nontrivial();
                   },
                   [](uint64_t i) { return strf("a=[1]%02X b=[1]%02X c=all 256 bytes", (unsigned)(i / 256), (unsigned)(i % 256)); });
    }

    // ---- triples over A6^<=L (transitivity of compare and compare_i on multi-byte strings)
    {
        Pool tp = seq_pool(A6, 3);
        Pool tp2 = seq_pool({0x41, 0x61, 0x5B, 0x80}, 4);  // thorough: 4-symbol core up to length 4 as well
        for (int round = 0; round < (T ? 2 : 1); ++round) {
            Pool p = round ? tp2 : tp;
            uint64_t M = p->size();
            plan.stage(round ? "triples:{41,61,5B,80}^<=4" : "triples:A6^<=3", M * M,
                       [p, M](uint64_t i, Ctx &c) {
                           const Item &A = (*p)[i / M], &B = (*p)[i % M];
                           int ab = OP(A.s.compare(B.s)), iab = OP(A.s.compare_i(B.s));
                           for (uint64_t k = 0; k < M; ++k) {
                               const Item &C = (*p)[k];
                               if (ab <= 0) {
                                   int bc = OP(B.s.compare(C.s));
                                   if (bc <= 0) {
                                       int ac = OP(A.s.compare(C.s));
                                       val();
                                       if (ac > 0 || ((ab < 0 || bc < 0) && ac == 0))
                                           c.fail("string.compare(string):transitivity",
                                                  strf("a=%s b=%s c=%s: ab=%d bc=%d ac=%d", show(A.raw).c_str(), show(B.raw).c_str(),
                                                       show(C.raw).c_str(), ab, bc, ac));
                                   }
                               }
                               if (iab <= 0) {
                                   int bc = OP(B.s.compare_i(C.s));
                                   if (bc <= 0) {
                                       int ac = OP(A.s.compare_i(C.s));
                                       val();
                                       if (ac > 0 || ((iab < 0 || bc < 0) && ac == 0))
                                           c.fail("string.compare_i(string):transitivity",
                                                  strf("a=%s b=%s c=%s: compare_i ab=%d bc=%d ac=%d", show(A.raw).c_str(),
                                                       show(B.raw).c_str(), show(C.raw).c_str(), iab, bc, ac));
                                   }
                               }
                           }
                           if (!A.raw.empty() && !B.raw.empty() && A.raw != B.raw) c.nontrivial();
                       },
                       [p, M](uint64_t i) { return strf("a=%s b=%s c=all", show((*p)[i / M].raw).c_str(), show((*p)[i % M].raw).c_str()); });
        }
    }

    // ---- long strings around the SSO limit
    {
        std::vector<unsigned> lens = T ? std::vector<unsigned>{14, 15, 16, 17, 31, 32, 33} : std::vector<unsigned>{15, 16, 17};
        std::vector<unsigned> la = A14;
        Pool lp = long_pool(lens, la);
        pair_stage(T ? "long:one-position-perturbations(len 14..17,31..33 x A14)" : "long:one-position-perturbations(len 15..17 x A14)", lp,
                   &NS_LONG);
    }

    // ---- unary: every byte value in every position class; every string of the pair pools
    plan.stage("unary:every-byte-in-first/middle/last-position(len 1,3,20)", 256 * 7,
               [](uint64_t i, Ctx &c) {
                   std::string r = unary_input(i);
                   check_unary(c, r);
                   bool letter = false, other = false;
                   for (unsigned char ch : r) (ref::is_ascii_letter(ch) ? letter : other) = true;
                   if (letter && other) c.nontrivial();
               },
               [](uint64_t i) { return show(unary_input(i)); });
    {
        unsigned L = T ? 3 : 2;
        std::vector<unsigned> al = A14;
        plan.stage(strf("unary:A14^<=%u", L), vf::seq_count(al.size(), L),
                   [al, L](uint64_t i, Ctx &c) {
                       std::vector<unsigned> d;
                       vf::seq_decode(i, al.size(), L, d);
                       std::string r;
                       for (unsigned x : d) r += (char)al[x];
                       check_unary(c, r);
                       bool letter = false, other = false;
                       for (unsigned char ch : r) (ref::is_ascii_letter(ch) ? letter : other) = true;
                       if (letter && other) c.nontrivial();
                   },
                   [al, L](uint64_t i) {
                       std::vector<unsigned> d;
                       vf::seq_decode(i, al.size(), L, d);
                       std::string r;
                       for (unsigned x : d) r += (char)al[x];
                       return show(r);
                   });
    }

    // ---- the function objects called with C strings on either side (a C string converts to ST::string; an added heterogeneous
    // overload must order exactly like the conversion): every ordered pair over A6^<=2 plus the perturbation alphabet
    {
        static const unsigned char FA[7] = {'a', 'A', 'b', '[', '{', 'Z', 0x7F};  // (a C string is validated when it becomes a string: ASCII only)
        plan.stage("function objects with const char* on the left / on the right: all ordered pairs over {a,A,b,[,{,Z,7F}^<=2", 57 * 57,
                   [](uint64_t i, Ctx &c) {
                       auto mkv = [](uint64_t k) {
                           std::string v;
                           if (k == 0) return v;
                           --k;
                           if (k < 7) return std::string(1, (char)FA[k]);
                           k -= 7;
                           v += (char)FA[k / 7];
                           v += (char)FA[k % 7];
                           return v;
                       };
                       std::string ra = mkv(i / 57), rb = mkv(i % 57);
                       ST::string a = ST::string::from_validated(ra.data(), ra.size()), b = ST::string::from_validated(rb.data(), rb.size());
                       const char *za = ra.c_str(), *zb = rb.c_str();
                       bool lt = OP(a.compare_i(b)) < 0, eq = OP(a.compare_i(b)) == 0;
                       bool r[6] = {OP(ST::less_i()(a, zb)), OP(ST::less_i()(za, b)), OP(ST::less_i()(a, ST::string(zb))), OP(ST::equal_i()(a, zb)), OP(ST::equal_i()(za, b)), OP(ST::equal_i()(a, ST::string(zb)))};
                       bool w[6] = {lt, lt, lt, eq, eq, eq};
                       static const char *const N[6] = {"less_i(string, const char*)", "less_i(const char*, string)", "less_i(string, string from a C string)",
                                                        "equal_i(string, const char*)", "equal_i(const char*, string)", "equal_i(string, string from a C string)"};
                       val();
                       for (int k = 0; k < 6; ++k)
                           if (r[k] != w[k]) c.fail(strf("%s:disagrees-with-compare_i", N[k]), strf("a=%s b=%s: %d, compare_i says %d", show(ra).c_str(), show(rb).c_str(), (int)r[k], (int)w[k]));
                       size_t h1 = OP(ST::hash_i()(za)), h2 = OP(ST::hash_i()(a)), h3 = OP(ST::hash()(za)), h4 = OP(ST::hash()(a));
                       val();
                       if (h1 != h2 || h3 != h4) c.fail("hash(const char*):differs-from-hash(string)", strf("a=%s", show(ra).c_str()));
                       // (only the forms the library declares: there is no operator< with a C string on the left)
                       bool o1 = OP(a < ST::string(zb)), o3 = OP(a == zb), o4 = OP(za == b), o5 = OP(a != zb), o6 = OP(za != b);
                       int cs = sgn(OP(a.compare(b)));
                       val();
                       if (o1 != (cs < 0) || o3 != (cs == 0) || o4 != (cs == 0) || o5 != (cs != 0) || o6 != (cs != 0))
                           c.fail("operators with const char* on either side:disagree-with-compare", strf("a=%s b=%s", show(ra).c_str(), show(rb).c_str()));
                       if (ra != rb) c.nontrivial();
                   },
                   [](uint64_t i) { return strf("pair #%llu", (unsigned long long)i); });
    }

    // ---- comparisons the standard library derives from the string's own operators (std::pair, std::tuple, std::vector of strings; in
    // C++20 these use operator<=> when the element type has one): every ordered pair over {a, NUL, b, 80}^<=3
    {
        static const unsigned char DA[4] = {'a', 0x00, 'b', 0x80};
        plan.stage("derived comparisons: std::pair / std::tuple / std::vector of ST::string and of char_buffer, all ordered pairs over {a,NUL,b,80}^<=3", 85 * 85,
                   [](uint64_t i, Ctx &c) {
                       auto mkv = [](uint64_t k) {
                           std::string v;
                           unsigned len = 0;
                           uint64_t base = 0;
                           for (len = 0; len <= 3; ++len) {
                               uint64_t n = vf::ipow(4, len);
                               if (k < base + n) break;
                               base += n;
                           }
                           k -= base;
                           for (unsigned j = 0; j < len; ++j, k /= 4) v += (char)DA[k % 4];
                           return v;
                       };
                       std::string ra = mkv(i / 85), rb = mkv(i % 85);
                       ST::string a = ST::string::from_validated(ra.data(), ra.size()), b = ST::string::from_validated(rb.data(), rb.size());
                       ST::char_buffer ba(ra.data(), ra.size()), bb(rb.data(), rb.size());
                       int cs2 = sgn(ref::cmp_str<char>(ra, rb));  // unsigned bytes, proper prefix first
                       std::pair<ST::string, int> pa(a, 1), pb(b, 0);
                       std::vector<ST::string> va = {a, b}, vb = {b, a};
                       std::tuple<int, ST::string> ta(7, a), tb(7, b);
                       std::pair<ST::char_buffer, int> qa(ba, 1), qb(bb, 0);
                       val();
                       if ((pa < pb) != (cs2 < 0) || (pa == pb) != false || (pb < pa) != (cs2 >= 0) || (pa <= pb) != (cs2 < 0))
                           c.fail("std::pair<ST::string,int>:comparison-disagrees-with-compare", strf("a=%s b=%s", show(ra).c_str(), show(rb).c_str()));
                       if ((va < vb) != (cs2 < 0) || (va == vb) != (cs2 == 0) || (va > vb) != (cs2 > 0))
                           c.fail("std::vector<ST::string>:comparison-disagrees-with-compare", strf("a=%s b=%s", show(ra).c_str(), show(rb).c_str()));
                       if ((ta < tb) != (cs2 < 0) || (ta == tb) != (cs2 == 0) || (ta >= tb) != (cs2 >= 0))
                           c.fail("std::tuple<int,ST::string>:comparison-disagrees-with-compare", strf("a=%s b=%s", show(ra).c_str(), show(rb).c_str()));
                       if ((qa < qb) != (cs2 < 0) || (qb < qa) != (cs2 >= 0))
                           c.fail("std::pair<ST::char_buffer,int>:comparison-disagrees-with-compare", strf("a=%s b=%s", show(ra).c_str(), show(rb).c_str()));
                       if (ra != rb) c.nontrivial();
                   },
                   [](uint64_t i) { return strf("derived comparison pair #%llu", (unsigned long long)i); });
    }

    // ---- one object, successive values in the same storage
    plan.stage("reused-object: one ST::string / char_buffer overwritten in place with every value of {a,A,b,[,{,C3}^1..3 and two heap classes, "
               "each read compared with a fresh object",
               5 * 5 * 2,
               [](uint64_t i, Ctx &c) {
                   unsigned cls = (unsigned)vf::take(i, 5), oi = (unsigned)vf::take(i, 5);
                   reuse_case(c, cls, oi, vf::take(i, 2) != 0);
               },
               [](uint64_t i) {
                   unsigned cls = (unsigned)vf::take(i, 5), oi = (unsigned)vf::take(i, 5);
                   return strf("value class %u, other operand %u, %s", cls, oi, vf::take(i, 2) ? "backwards" : "forwards");
               });

    // ---- char: huge lengths; wide element types: pairs, triples, huge lengths
    {
        std::vector<uint32_t> ha = {0x00, 0x41, 0xFF};
        plan.stage("huge:char:static-compare(short 0..2 units x claimed 2^31-1..SIZE_MAX)", huge_count<char>(ha),
                   [ha](uint64_t i, Ctx &c) {
                       HugeCase<char> h = huge_decode<char>(i, ha);
                       huge_run<char>(c, h);
                       if (!h.shrt.empty()) c.nontrivial();
                   },
                   [ha](uint64_t i) { return huge_desc(huge_decode<char>(i, ha)); });
    }
    const std::vector<uint32_t> W16 = {0x0000, 0x0001, 0x0041, 0x007F, 0x0080, 0x00FF, 0x0100, 0x7FFF, 0x8000, 0xFFFF};
    const std::vector<uint32_t> W32 = {0x0, 0x1, 0x41, 0x80, 0xFF, 0x100, 0xFFFF, 0x10000, 0x7FFFFFFF, 0x80000000u, 0xFFFFFFFFu};
    const std::vector<uint32_t> T16 = {0x0000, 0x0041, 0x7FFF, 0x8000, 0xFFFF}, T32 = {0x0, 0x41, 0x7FFFFFFF, 0x80000000u, 0xFFFFFFFFu};
    unsigned WL = T ? 3 : 2;
    {
        std::vector<uint32_t> a8(A14.begin(), A14.end());
        std::vector<unsigned> longs = T ? std::vector<unsigned>{15, 16, 17, 40} : std::vector<unsigned>{16, 24};
        std::vector<unsigned> wlongs = T ? std::vector<unsigned>{11, 12, 13, 16, 30} : std::vector<unsigned>{12, 18};
        add_alias_stage<char>(plan, "A14", a8, T ? 4 : 3, longs);
        add_alias_stage<char16_t>(plan, "W16", W16, T ? 4 : 3, longs);
        add_alias_stage<char32_t>(plan, "W32", W32, T ? 4 : 3, wlongs);
        add_alias_stage<wchar_t>(plan, "W32", W32, T ? 4 : 3, wlongs);
    }
    add_wide_stages<char16_t>(plan, "W16", W16, WL, T16, T ? 3 : 2, {0x0000, 0x0041, 0xFFFF});
    add_wide_stages<char32_t>(plan, "W32", W32, WL, T32, T ? 3 : 2, {0x0, 0x41, 0x80000000u});
    add_wide_stages<wchar_t>(plan, "W32", W32, WL, T32, T ? 3 : 2, {0x0, 0x41, 0x80000000u});
    vf_early::add_stage(plan);
}

VF_MAIN("C06", build)
