// C14 - hex and base64 encodings are standard and decode back to the original bytes.
// Complete sweeps: all 2^24 three-byte groups, all 2^16 / 2^8 tails (alone and after a full
// group), all 2^16 hex pairs, plus a length x content sweep crossing the SSO limit.
#define VF_MAIN_TU
#include "early.h"
#include "verif.h"
#include "alloc.h"
#include "crc.h"
#include "ref_codec.h"
#include "oracle_crc.h"
#include "st_codecs.h"
#include "hugestr.h"
#include "early_battery.h"
#include <memory>

using vf::Ctx;
using vf::strf;

static void selftest()
{
    // the reference encoders must reproduce CPython's binascii over the complete domains
    vf::Crc32 g, t2, t1, hx;
    unsigned char b[3];
    for (unsigned v = 0; v < (1u << 24); ++v) {
        b[0] = v >> 16;
        b[1] = v >> 8;
        b[2] = v;
        char o[4] = {ref::b64_char(v / 262144u % 64), ref::b64_char(v / 4096u % 64), ref::b64_char(v / 64u % 64),
                     ref::b64_char(v % 64)};
        if ((v & 0xFFF) == 0) {
            std::string s = ref::b64_encode(b, 3);
            if (s != std::string(o, 4)) {
                fprintf(stderr, "selftest: reference b64 group encoder inconsistent\n");
                exit(2);
            }
        }
        g.add(o, 4);
    }
    for (unsigned v = 0; v < 65536; ++v) {
        b[0] = v >> 8;
        b[1] = v;
        std::string s = ref::b64_encode(b, 2);
        t2.add(s.data(), s.size());
        std::string h = ref::hex_encode(b, 2);
        hx.add(h.data(), h.size());
        if (ref::b64_decode(s) != std::string((char *)b, 2) || ref::hex_decode(h) != std::string((char *)b, 2)) {
            fprintf(stderr, "selftest: reference decoders do not invert reference encoders\n");
            exit(2);
        }
    }
    for (unsigned v = 0; v < 256; ++v) {
        b[0] = v;
        std::string s = ref::b64_encode(b, 1);
        t1.add(s.data(), s.size());
    }
    if (g.value() != vf_ref_crc::all_groups_base64 || t2.value() != vf_ref_crc::all_tail2_base64 ||
        t1.value() != vf_ref_crc::all_tail1_base64 || hx.value() != vf_ref_crc::all_pairs_hex) {
        fprintf(stderr, "selftest: reference codec disagrees with CPython binascii (crc %08x %08x %08x %08x)\n", g.value(),
                t2.value(), t1.value(), hx.value());
        exit(2);
    }
}

static std::string desc_bytes(const std::string &d) { return strf("bytes[%zu]=%s", d.size(), vf::hex_str(d, 48).c_str()); }

// decode through the caller-buffer form into an exact-size block with canaries
static void check_decode_buf(Ctx &c, const char *codec, const ST::string &text, const std::string &data, const char *cls)
{
    bool b64 = codec[0] == 'b';
    ST_ssize_t need = b64 ? ST::base64_decode(text, nullptr, 0) : ST::hex_decode(text, nullptr, 0);
    VF_COUNT("ops");
    if (need != (ST_ssize_t)data.size())
        c.fail(strf("%s_decode(null output):length:%s", codec, cls),
               strf("returned %zd, expected decoded length %zu", (ssize_t)need, data.size()));
    std::vector<unsigned char> buf(data.size() + 16, 0xEE);
    ST_ssize_t got = b64 ? ST::base64_decode(text, buf.data(), data.size()) : ST::hex_decode(text, buf.data(), data.size());
    VF_COUNT("ops");
    if (got != (ST_ssize_t)data.size())
        c.fail(strf("%s_decode(buffer):return:%s", codec, cls), strf("returned %zd, expected %zu", (ssize_t)got, data.size()));
    else if (memcmp(buf.data(), data.data(), data.size()) != 0)
        c.fail(strf("%s_decode(buffer):bytes:%s", codec, cls),
               strf("decoded %s", vf::hex_units(buf.data(), data.size(), 48).c_str()));
    for (size_t i = data.size(); i < buf.size(); ++i)
        if (buf[i] != 0xEE) {
            c.fail(strf("%s_decode(buffer):overrun:%s", codec, cls), strf("byte %zu past output_size was overwritten", i - data.size()));
            break;
        }
    // a larger capacity (up to the integer limits) changes nothing: same return value, same bytes, nothing beyond them
    static const size_t CAPS[] = {1, 16, size_t(1) << 31, size_t(1) << 32, (size_t(1) << 63) - 1, size_t(1) << 63, ~size_t(0)};
    for (size_t cap : CAPS) {
        size_t claimed = cap <= 16 ? data.size() + cap : cap;
        if (claimed < data.size()) continue;
        std::fill(buf.begin(), buf.end(), (unsigned char)0xEE);
        ST_ssize_t g2 = b64 ? ST::base64_decode(text, buf.data(), claimed) : ST::hex_decode(text, buf.data(), claimed);
        VF_COUNT("ops");
        const char *cc = cap <= 16 ? "slack" : cap <= (size_t(1) << 32) ? "2^31..2^32" : "2^63..SIZE_MAX";
        if (g2 != (ST_ssize_t)data.size())
            c.fail(strf("%s_decode(buffer):return:capacity=%s:%s", codec, cc, cls),
                   strf("output_size %zu: returned %zd, expected %zu", claimed, (ssize_t)g2, data.size()));
        else if (memcmp(buf.data(), data.data(), data.size()) != 0)
            c.fail(strf("%s_decode(buffer):bytes:capacity=%s:%s", codec, cc, cls), strf("output_size %zu: wrong bytes", claimed));
        for (size_t i = data.size(); i < buf.size(); ++i)
            if (buf[i] != 0xEE) {
                c.fail(strf("%s_decode(buffer):wrote-past-decoded-length:capacity=%s:%s", codec, cc, cls),
                       strf("output_size %zu: byte %zu past the decoded length was overwritten", claimed, i - data.size()));
                break;
            }
    }
}

static void check_b64(Ctx &c, const std::string &data, const char *cls)
{
    const unsigned char *p = (const unsigned char *)data.data();
    std::string want = ref::b64_encode(p, data.size());
    static vf::GuardArena ga;  // the array ends exactly at a PROT_NONE page: the encoder may not look at data[n]
    const char *gp = ga.place(data.data(), data.size());
    vf::Outcome o = vf::guard([&] {
        ST::string enc = ST::base64_encode(gp, data.size());
        VF_COUNT("ops");
        if (enc.size() != 4 * ((data.size() + 2) / 3))
            c.fail(strf("base64_encode:length:%s", cls), strf("size %zu for %zu input bytes", enc.size(), data.size()));
        if (std::string(enc.c_str(), enc.size()) != want)
            c.fail(strf("base64_encode:text:%s", cls),
                   strf("got %s want %s", vf::vis(enc.c_str(), enc.size()).c_str(), vf::vis(want).c_str()));
        if (enc.c_str()[enc.size()] != 0) c.fail(strf("base64_encode:terminator:%s", cls), "result not NUL-terminated");
        ST::string enc2 = ST::base64_encode(ST::char_buffer(data.data(), data.size()));
        VF_COUNT("ops");
        if (enc2 != enc) c.fail(strf("base64_encode:overloads-differ:%s", cls), "char_buffer overload differs from (ptr,size)");
        // decode what the library produced, and what the reference produced
        ST::string wtext = ST::string::from_validated(want.data(), want.size());
        ST::char_buffer dec = ST::base64_decode(wtext);
        VF_COUNT("ops");
        if (std::string(dec.data(), dec.size()) != data)
            c.fail(strf("base64_decode(alloc):bytes:%s", cls),
                   strf("got %s", vf::hex_units(dec.data(), dec.size(), 48).c_str()));
        if (dec.data()[dec.size()] != 0) c.fail(strf("base64_decode(alloc):terminator:%s", cls), "result not NUL-terminated");
        check_decode_buf(c, "base64", wtext, data, cls);
    });
    vf::count_dyn(std::string("out:b64:") + vf::outkind_name(o.kind));
    if (!o.ok()) c.fail(strf("base64:%s:%s", vf::outkind_name(o.kind), cls), o.str());
}

static void check_hex(Ctx &c, const std::string &data, const char *cls)
{
    const unsigned char *p = (const unsigned char *)data.data();
    std::string want = ref::hex_encode(p, data.size());
    static vf::GuardArena ga;
    const char *gp = ga.place(data.data(), data.size());
    vf::Outcome o = vf::guard([&] {
        ST::string enc = ST::hex_encode(gp, data.size());
        VF_COUNT("ops");
        if (enc.size() != 2 * data.size()) c.fail(strf("hex_encode:length:%s", cls), strf("size %zu for %zu bytes", enc.size(), data.size()));
        if (std::string(enc.c_str(), enc.size()) != want)
            c.fail(strf("hex_encode:text:%s", cls), strf("got %s want %s", vf::vis(enc.c_str(), enc.size()).c_str(), vf::vis(want).c_str()));
        ST::string enc2 = ST::hex_encode(ST::char_buffer(data.data(), data.size()));
        VF_COUNT("ops");
        if (enc2 != enc) c.fail(strf("hex_encode:overloads-differ:%s", cls), "char_buffer overload differs from (ptr,size)");
        std::string upper = want;
        for (auto &ch : upper)
            if (ch >= 'a' && ch <= 'f') ch = (char)(ch - 'a' + 'A');
        std::string mixed = want;
        for (size_t i = 0; i < mixed.size(); i += 2)
            if (mixed[i] >= 'a' && mixed[i] <= 'f') mixed[i] = (char)(mixed[i] - 'a' + 'A');
        const std::string *forms[3] = {&want, &upper, &mixed};
        const char *fname[3] = {"lower", "upper", "mixed"};
        for (int k = 0; k < 3; ++k) {
            ST::string text = ST::string::from_validated(forms[k]->data(), forms[k]->size());
            ST::char_buffer dec = ST::hex_decode(text);
            VF_COUNT("ops");
            if (std::string(dec.data(), dec.size()) != data)
                c.fail(strf("hex_decode(alloc):bytes:%s:%s", fname[k], cls), strf("got %s", vf::hex_units(dec.data(), dec.size(), 48).c_str()));
            check_decode_buf(c, "hex", text, data, fname[k]);
        }
    });
    vf::count_dyn(std::string("out:hex:") + vf::outkind_name(o.kind));
    if (!o.ok()) c.fail(strf("hex:%s:%s", vf::outkind_name(o.kind), cls), o.str());
}

static const unsigned char PREFIX[3] = {0xFB, 0xEF, 0xBE};  // encodes to "++++"

static std::string mk(unsigned v, unsigned n, bool prefixed)
{
    std::string d;
    if (prefixed) d.assign((const char *)PREFIX, 3);
    for (unsigned i = 0; i < n; ++i) d += (char)(v >> (8 * (n - 1 - i)));
    return d;
}

static bool nontrivial(const std::string &d)
{
    for (size_t i = 1; i < d.size(); ++i)
        if (d[i] != d[0]) return true;
    return false;
}

static std::string sweep_data(uint64_t idx)
{
    unsigned seed = idx % 256, len = idx / 256;
    std::string d(len, 0);
    for (unsigned i = 0; i < len; ++i) d[i] = (char)((seed + i * 37u + (i / 7u) * 101u) & 0xFF);
    return d;
}

static void build(vf::Plan &plan, const vf::Opts &o)
{
    selftest();
    plan.rule = "cases = every byte array of the listed complete domains (each array is distinct); non-trivial = array with at least two different byte values";
    plan.assumptions = {"reference encoders validated against CPython binascii by CRC over the complete 2^24 / 2^16 / 2^8 domains",
                        "the array handed to the (pointer, size) encoders ends at a PROT_NONE page and is followed by nothing; the char_buffer overloads get the same bytes NUL-terminated",
                        "arrays longer than 3 bytes are covered by the length x content sweeps only (locality of the 3-byte group loop); every length up to the bound is present"};
    // VF_REDUCED: the ASan+UBSan build of the quick tier (reads past a text's heap block are invisible to the plain build): the
    // 2^24 sweep is left to the plain build, everything else is kept
#ifdef VF_REDUCED
    const bool reduced = true;
#else
    const bool reduced = false;
#endif
    for (int n = reduced ? 2 : 3; n >= 1; --n) {
        plan.stage(strf("b64:all-%d-byte-groups(alone+after-full-group)", n), 1ull << (8 * n),
                   [n](uint64_t i, Ctx &c) {
                       for (int pre = 0; pre < 2; ++pre) {
                           std::string d = mk((unsigned)i, n, pre);
                           check_b64(c, d, pre ? (n == 3 ? "n=6" : n == 2 ? "n=5" : "n=4") : (n == 3 ? "n=3" : n == 2 ? "n=2" : "n=1"));
                           if (nontrivial(d)) c.nontrivial();
                           VF_COUNT("validated");
                       }
                   },
                   [n](uint64_t i) { return desc_bytes(mk((unsigned)i, n, false)) + " (and prefixed by FB EF BE)"; });
    }
    unsigned maxlen = o.thorough() ? 200 : 64;
    plan.stage(strf("b64+hex:length-sweep(0..%u)x256-contents", maxlen), (uint64_t)(maxlen + 1) * 256,
               [](uint64_t i, Ctx &c) {
                   std::string d = sweep_data(i);
                   check_b64(c, d, strf("nmod3=%zu", d.size() % 3).c_str());
                   check_hex(c, d, "sweep");
                   if (nontrivial(d)) c.nontrivial();
                   VF_COUNT("validated");
               },
               [](uint64_t i) { return desc_bytes(sweep_data(i)); });
    // long arrays: every length across the library's internal size classes (16-byte in-object strings, 256-byte stack
    // strings, 4 KiB stream growth), a few contents each
    unsigned longmax = o.thorough() ? 4200 : reduced ? 600 : 1100, nseed = o.thorough() ? 8 : reduced ? 1 : 3;
    plan.stage(strf("b64+hex:long-length-sweep(%u..%u)x%u-contents", maxlen + 1, longmax, nseed), (uint64_t)(longmax - maxlen) * nseed,
               [maxlen, nseed](uint64_t i, Ctx &c) {
                   unsigned seed = (unsigned)(i % nseed) * 83u + 1u, len = (unsigned)(i / nseed) + maxlen + 1;
                   std::string d = sweep_data((uint64_t)len * 256 + seed % 256);
                   check_b64(c, d, strf("long:nmod3=%zu", d.size() % 3).c_str());
                   check_hex(c, d, "long");
                   c.nontrivial();
                   VF_COUNT("validated");
               },
               [maxlen, nseed](uint64_t i) {
                   unsigned seed = (unsigned)(i % nseed) * 83u + 1u, len = (unsigned)(i / nseed) + maxlen + 1;
                   return desc_bytes(sweep_data((uint64_t)len * 256 + seed % 256));
               });
    // lengths that cannot be materialised: the encoder sizes its result with one arithmetic helper, which is evaluated
    // directly for every small length and for lengths around every power of two and 3*2^k up to the largest whose encoded
    // length still fits size_t
    {
        auto lens = std::make_shared<std::vector<uint64_t>>();
        for (uint64_t n = 0; n <= 70000; ++n) lens->push_back(n);
        for (int k = 16; k <= 61; ++k)
            for (int d = -4; d <= 4; ++d) {
                lens->push_back((1ull << k) + (uint64_t)(int64_t)d);
                lens->push_back(3 * (1ull << k) / 2 + (uint64_t)(int64_t)d);
                lens->push_back(3 * (1ull << k) + (uint64_t)(int64_t)d);
            }
        plan.stage(strf("base64 length arithmetic: b64_encode_size(n) for %zu lengths up to 3*2^61", lens->size()), lens->size(),
                   [lens](uint64_t i, Ctx &c) {
                       uint64_t n = (*lens)[i];
                       unsigned __int128 want = (((unsigned __int128)n + 2) / 3) * 4;
                       if (want > (unsigned __int128)~uint64_t(0)) return;  // not representable: outside the statement
                       size_t got = _ST_PRIVATE::b64_encode_size((size_t)n);
                       VF_COUNT("ops");
                       VF_COUNT("validated");
                       if ((unsigned __int128)got != want)
                           c.fail(strf("base64_encode:length-arithmetic:%s", n < (1ull << 32) ? "n<2^32" : "n>=2^32"),
                                  strf("encoded length computed for %llu input bytes is %zu, 4*ceil(n/3) is %llu", (unsigned long long)n, got,
                                       (unsigned long long)want));
                       if (n > 70000) c.nontrivial();
                   },
                   [lens](uint64_t i) { return strf("n=%llu", (unsigned long long)(*lens)[i]); });
    }
    plan.stage("hex:all-2-byte-arrays", 65536,
               [](uint64_t i, Ctx &c) {
                   std::string d = mk((unsigned)i, 2, false);
                   check_hex(c, d, "n=2");
                   if (nontrivial(d)) c.nontrivial();
                   VF_COUNT("validated");
               },
               [](uint64_t i) { return desc_bytes(mk((unsigned)i, 2, false)); });
    plan.stage("hex:every-byte-in-every-position(len1..3)", 256 * 6 * 3,
               [](uint64_t i, Ctx &c) {
                   unsigned b = vf::take(i, 256), slot = vf::take(i, 6), other = vf::take(i, 3);
                   static const unsigned L[6] = {1, 2, 2, 3, 3, 3}, P[6] = {0, 0, 1, 0, 1, 2};
                   static const unsigned char O[3] = {0x00, 0xFF, 0xA5};
                   std::string d(L[slot], (char)O[other]);
                   d[P[slot]] = (char)b;
                   check_hex(c, d, "pos");
                   check_b64(c, d, "pos");
                   if (nontrivial(d)) c.nontrivial();
                   VF_COUNT("validated");
               },
               [](uint64_t i) {
                   unsigned b = vf::take(i, 256), slot = vf::take(i, 6), other = vf::take(i, 3);
                   return strf("byte %02X at slot %u, filler %u", b, slot, other);
               });
    // ---- every start alignment of the input array (encoders) and of the caller's output buffer (decoders): a path chosen by
    // alignment (word-at-a-time loops) must give the same text
    {
        std::vector<unsigned> lens;
        for (unsigned L = 0; L <= 80; ++L) lens.push_back(L);
        for (unsigned L : {127u, 128u, 129u, 255u, 256u, 257u, 258u, 1023u, 1024u, 1025u, 1026u}) lens.push_back(L);
        auto lp = std::make_shared<std::vector<unsigned>>(lens);
        plan.stage(strf("alignment: %zu lengths (0..80, around 128 / 256 / 1024) x 16 start alignments of the source array and of the output buffer", lens.size()),
                   lens.size() * 16,
                   [lp](uint64_t i, Ctx &c) {
                       unsigned a = (unsigned)vf::take(i, 16), len = (*lp)[i];
                       std::string d = sweep_data((uint64_t)len * 256 + (len * 7 + a) % 256);
                       static vf::GuardArena ga, go;
                       const char *gp = ga.place_aligned(d.data(), d.size(), a);
                       std::string wh = ref::hex_encode((const unsigned char *)d.data(), d.size()), wb = ref::b64_encode((const unsigned char *)d.data(), d.size());
                       vf::Outcome o = vf::guard([&] {
                           ST::string eh = ST::hex_encode(gp, d.size()), eb = ST::base64_encode(gp, d.size());
                           VF_ADD("ops", 2);
                           VF_COUNT("validated");
                           if (std::string(eh.c_str(), eh.size()) != wh)
                               c.fail("hex_encode:text:depends-on-source-alignment", strf("%zu bytes at an address = %u mod 16: got %s", d.size(), a, vf::vis(eh.c_str(), eh.size()).c_str()));
                           if (std::string(eb.c_str(), eb.size()) != wb)
                               c.fail("base64_encode:text:depends-on-source-alignment", strf("%zu bytes at an address = %u mod 16: got %s", d.size(), a, vf::vis(eb.c_str(), eb.size()).c_str()));
                           // decoders writing into a caller buffer that starts at the same alignment (exact fit: ends at the guard page)
                           std::string zero(d.size(), '\0');
                           char *out = go.place_aligned(zero.data(), zero.size(), a);
                           ST_ssize_t n1 = ST::hex_decode(ST::string::from_validated(wh.data(), wh.size()), out, d.size());
                           bool ok1 = n1 == (ST_ssize_t)d.size() && memcmp(out, d.data(), d.size()) == 0;
                           memset(out, 0, d.size());
                           ST_ssize_t n2 = ST::base64_decode(ST::string::from_validated(wb.data(), wb.size()), out, d.size());
                           bool ok2 = n2 == (ST_ssize_t)d.size() && memcmp(out, d.data(), d.size()) == 0;
                           VF_ADD("ops", 2);
                           if (!ok1) c.fail("hex_decode(buffer):bytes:depends-on-output-alignment", strf("%zu bytes into a buffer at an address = %u mod 16: returned %zd", d.size(), a, (ssize_t)n1));
                           if (!ok2) c.fail("base64_decode(buffer):bytes:depends-on-output-alignment", strf("%zu bytes into a buffer at an address = %u mod 16: returned %zd", d.size(), a, (ssize_t)n2));
                       });
                       if (!o.ok()) c.fail(strf("alignment:%s", vf::outkind_name(o.kind)), o.str());
                       if (nontrivial(d)) c.nontrivial();
                   },
                   [lp](uint64_t i) {
                       unsigned a = (unsigned)vf::take(i, 16);
                       return strf("%u bytes at alignment %u", (*lp)[i], a);
                   });
    }
    // ---- caller's output buffer and the text's own storage directly next to each other (the buffer ends where the text begins;
    // the buffer begins right after the text's terminator): neighbours are not overlap
    {
        plan.stage("adjacent storage: caller-buffer decoders with the output buffer directly before / directly after the text's heap block, 12 sizes x hex / base64", 12 * 2 * 2,
                   [](uint64_t i, Ctx &c) {
                       static const unsigned NS[12] = {12, 13, 14, 15, 16, 17, 24, 31, 32, 33, 48, 100};
                       unsigned n = NS[vf::take(i, 12)], codec = (unsigned)vf::take(i, 2), layout = (unsigned)i;
                       std::string d = sweep_data((uint64_t)n * 256 + n % 256);
                       std::string text = codec ? ref::b64_encode((const unsigned char *)d.data(), d.size()) : ref::hex_encode((const unsigned char *)d.data(), d.size());
                       alignas(16) static char region[1024];
                       memset(region, 0xEE, sizeof region);
                       const size_t L = text.size();
                       char *out = layout == 0 ? region : region + L + 1;
                       char *blk = layout == 0 ? region + n : region;
                       vf::Outcome o = vf::guard([&] {
                           vf::g_alloc.place_next = blk;
                           vf::g_alloc.place_cap = L + 1;
                           ST::string t = ST::string::from_validated(text.data(), text.size());
                           vf::g_alloc.place_next = nullptr;
                           if (t.c_str() != blk) return;  // the string did not take the placed block (in-object storage): nothing to test
                           ST_ssize_t r = codec ? ST::base64_decode(t, out, n) : ST::hex_decode(t, out, n);
                           VF_COUNT("ops");
                           VF_COUNT("validated");
                           if (r != (ST_ssize_t)n || memcmp(out, d.data(), n) != 0)
                               c.fail(strf("%s_decode(buffer):adjacent-storage:%s", codec ? "base64" : "hex", layout == 0 ? "buffer-ends-where-the-text-begins" : "buffer-begins-after-the-terminator"),
                                      strf("%u bytes: returned %zd%s", n, (ssize_t)r, r == (ST_ssize_t)n ? " with wrong bytes" : ""));
                           if (std::string(t.c_str(), t.size()) != text) c.fail("decode(buffer):adjacent-storage:text-changed", strf("%u bytes, layout %u", n, layout));
                       });
                       vf::g_alloc.place_next = nullptr;
                       if (!o.ok()) c.fail(strf("adjacent-storage:%s", vf::outkind_name(o.kind)), o.str());
                       c.nontrivial();
                   },
                   [](uint64_t i) { return strf("adjacent layout case %llu", (unsigned long long)i); });
    }
    // ---- an array of more than 2^31 bytes (result positions beyond 2^32): the result block shares a 16 MiB window of real memory
    // (alloc.h), so it is checked where the last writers are - the final window and the private tail
#ifndef VF_ASAN
    {
        auto &st = plan.stage("huge array: hex_encode and base64_encode of 2^31+64 bytes (zeros with a 64-byte marker tail), result checked over its last 16 MiB", 2,
                              [](uint64_t i, Ctx &c) {
                                  const size_t N = (size_t(1) << 31) + 64, W = vf::AllocState::ALIAS_WINDOW;
                                  hugestr::LazyBytes in(N);
                                  if (!in.p) return;
                                  memset(in.p + N - 64, 0xEE, 64);
                                  in.p[N - 65] = 0x5A;
                                  vf::Outcome o = vf::guard([&] {
                                      hugestr::Scope scope(true);
                                      ST::string r = i == 0 ? ST::hex_encode(in.p, N) : ST::base64_encode(in.p, N);
                                      const size_t want_size = i == 0 ? 2 * N : 4 * ((N + 2) / 3);
                                      VF_COUNT("validated");
                                      if (r.size() != want_size) {
                                          c.fail(strf("%s:huge-array:length", i == 0 ? "hex_encode" : "base64_encode"), strf("size() is %zu, expected %zu", r.size(), want_size));
                                          return;
                                      }
                                      if (r.c_str()[want_size] != 0) c.fail(strf("%s:huge-array:terminator", i == 0 ? "hex_encode" : "base64_encode"), "no terminator");
                                      // expected text of the last window: computed from the input bytes that produce it
                                      const size_t aliased = (want_size + 1) & ~size_t(4095);
                                      size_t from = aliased - W + 4096;  // final writers of the window (one page of slack for the seam)
                                      from -= from % 12;                // a position where both codecs start a group
                                      std::string want;
                                      if (i == 0) want = ref::hex_encode((const unsigned char *)in.p + from / 2, N - from / 2);
                                      else want = ref::b64_encode((const unsigned char *)in.p + from / 4 * 3, N - from / 4 * 3);
                                      VF_COUNT("validated");
                                      if (want.size() != want_size - from || memcmp(r.c_str() + from, want.data(), want.size()) != 0) {
                                          size_t k = 0;
                                          while (k < want.size() && r.c_str()[from + k] == want[k]) ++k;
                                          c.fail(strf("%s:huge-array:text", i == 0 ? "hex_encode" : "base64_encode"),
                                                 strf("%zu bytes: character %zu of %zu is 0x%02X, expected 0x%02X", N, from + k, want_size, (unsigned char)r.c_str()[from + k],
                                                      k < want.size() ? (unsigned char)want[k] : 0));
                                      }
                                  });
                                  if (!o.ok()) c.fail(strf("huge-array:%s", vf::outkind_name(o.kind)), o.str());
                                  vf::huge_reset();
                                  c.nontrivial();
                              },
                              [](uint64_t i) { return std::string(i ? "base64_encode of 2^31+64 bytes" : "hex_encode of 2^31+64 bytes"); });
        st.case_timeout_s = 300;
    }
#endif
    vf_early::add_stage(plan);
}

VF_MAIN("C14", build)
