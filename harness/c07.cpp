// C07 - searching returns exactly the first / last occurrence for any haystack and needle.
//
// Every stage is a complete enumeration of a finite space executed on the real headers:
//   main    every haystack in H^<=L x every needle in H^<=M, H = {a, b, A, NUL, 0x80}, x every start / limit in
//           {0..len+2, 2^31, 2^32, 2^63, SIZE_MAX-1, SIZE_MAX} x both case modes x every needle form
//   long    haystacks 'b'^p + core + 'b'^q around the in-object/heap limit (16) x every needle in H^<=M
//   fold    all 256 x 256 (haystack byte, needle byte) pairs, alone and as second byte after a letter of the
//           other case (complete sweep of the case-folding domain of the scanning loops)
//   null    null needle pointers for every haystack / start / limit
//
// Oracle (the property, sentence by sentence; reference = naive scan in ref_cmpfind.h):
//   find(start, n)      smallest i >= start with n at i; -1 if none, n empty or null, or start >= size
//   find_last(limit, n) largest i with [i, i+|n|) inside [0, min(limit,size)); -1 if none, n empty or null
//   contains(n)         exactly (find(n) >= 0)
//   starts_with / ends_with(t)  t is a prefix / suffix (true for empty or null t)
//   case-insensitive variants compare modulo ASCII A-Z only
//   needle forms: (pointer,length) is the primary form, compared with the reference; char, ST::string,
//   const char8_t* forms must return what the primary form returns for the same needle; a const char*
//   needle denotes the bytes up to its first NUL (DESIGN.md section 10).
#define VF_MAIN_TU
#include "early.h"
#include "verif.h"
#include "alloc.h"
#include "ref_cmpfind.h"
#include "longpat.h"
#include "hugestr.h"
#include "st_string.h"
#include "early_battery.h"

#include <memory>

using vf::Ctx;
using vf::strf;

static inline void op() { VF_COUNT("ops"); }
static inline void val() { VF_COUNT("validated"); }
#define OP(e) (op(), (e))

static const size_t SZMAX = ~size_t(0);

static std::string show(const std::string &s) { return strf("[%zu]%s", s.size(), vf::vis(s, 48).c_str()); }

// occurrence table of one (haystack, needle, mode): bit i set iff the needle occurs at i (naive scan)
struct Occ {
    std::vector<bool> at;  // (a 64-bit mask until the long-needle stage brought haystacks of more than 64 bytes)
    size_t n = 0, m = 0;
    Occ() {}
    Occ(const std::string &hay, const std::string &needle, bool ci) : at(hay.size(), false), n(hay.size()), m(needle.size())
    {
        if (m == 0) return;
        for (size_t i = 0; i < n; ++i)
            if (ref::occurs_at(hay, needle, i, ci)) at[i] = true;
    }
    long first(size_t start) const
    {
        if (m == 0 || start >= n) return -1;
        for (size_t i = start; i < n; ++i)
            if (at[i]) return (long)i;
        return -1;
    }
    long last(size_t limit) const
    {
        if (m == 0) return -1;
        size_t end = limit < n ? limit : n;
        for (size_t i = n; i-- > 0;)
            if (at[i] && m <= end && i <= end - m) return (long)i;
        return -1;
    }
};

struct Hay {
    std::string raw;
    ST::string s;
    bool hasnul = false;
};
struct Needle {
    std::string raw, cpre, rawz;  // bytes; bytes up to the first NUL; bytes + terminating NUL
    ST::string s;
    bool hasnul = false;
};
static ST::string mkst(const std::string &r) { return ST::string::from_validated(r.data(), r.size()); }
static Hay make_hay(const std::string &r)
{
    Hay h;
    h.raw = r;
    h.s = mkst(r);
    h.hasnul = r.find('\0') != std::string::npos;
    return h;
}
static Needle make_needle(const std::string &r)
{
    Needle n;
    n.raw = r;
    n.cpre = ref::c_prefix(r);
    n.rawz = r + std::string(1, '\0');
    n.s = mkst(r);
    n.hasnul = n.cpre.size() != r.size();
    return n;
}

static const char *rescls(long want, long got)
{
    if (want < 0) return "spurious-hit";
    if (got < 0) return "missed";
    return got < want ? "index-too-small" : "index-too-large";
}
// class of the failing input: one tag, most specific first
static const char *content_tag(const Hay &H, const std::string &eff, bool eff_from_cstr_cut)
{
    if (eff.empty()) return "needle-empty";
    if (eff_from_cstr_cut) return "c-string-needle-cut-at-nul";
    if (eff.find('\0') != std::string::npos || H.hasnul) return "nul-involved";
    return "plain";
}

struct Cfg {
    std::vector<size_t> extremes;  // positions far beyond the end
    bool all_forms_every_pos;      // secondary forms at every start/limit (otherwise only at four positions)
    bool sparse = false;           // very long haystacks: positions next to both ends only
};

static void positions(size_t len, const Cfg &cfg, std::vector<size_t> &out)
{
    out.clear();
    for (size_t i = 0; i <= len + 2; ++i)
        if (!cfg.sparse || i <= 3 || i + 4 >= len) out.push_back(i);
    for (size_t e : cfg.extremes) out.push_back(e);
}

static void check_case(Ctx &c, const Hay &H, const Needle &N, const Cfg &cfg)
{
    static vf::GuardArena gp, gz, gzc;
    static std::vector<size_t> pos;
    vf::Outcome o = vf::guard([&] {
        const ST::string &h = H.s;
        const size_t len = H.raw.size(), m = N.raw.size(), mz = N.cpre.size();
        // (pointer,length) form: exactly m readable bytes, no terminator; C-string form: m bytes + NUL
        const char *p = gp.place(N.raw.data(), m);
        const char *z = gz.place(N.rawz.data(), m + 1);
        const char8_t *p8 = reinterpret_cast<const char8_t *>(p), *z8 = reinterpret_cast<const char8_t *>(z);
        const char *pc = p;  // the C-string's bytes as (pointer,length): first mz bytes only
        if (N.hasnul) pc = gzc.place(N.cpre.data(), mz);
        positions(len, cfg, pos);
        bool first_char_hit = false;

        for (int ci = 0; ci < 2; ++ci) {
            const ST::case_sensitivity_t cs = ci ? ST::case_insensitive : ST::case_sensitive;
            const char *mode = ci ? "ci" : "cs";
            Occ occ(H.raw, N.raw, ci != 0), occz = N.hasnul ? Occ(H.raw, N.cpre, ci != 0) : occ;
            if (m) first_char_hit |= Occ(H.raw, N.raw.substr(0, 1), ci != 0).first(0) >= 0;

            auto primary = [&](const char *opn, const char *tag, long got, long want, const std::string &eff, size_t at) {
                c.fail(strf("%s(ptr,len):%s:%s:%s", opn, mode, rescls(want, got), tag),
                       strf("haystack %s needle %s %s=%zu mode=%s: returned %ld, reference %ld", show(H.raw).c_str(), show(eff).c_str(),
                            opn[4] == '_' ? "limit" : "start", at, mode, got, want));
            };
            // tag of a failing find: the start guard, else the contents
            auto find_tag = [&](const std::string &eff, size_t at) -> const char * {
                if (!eff.empty() && at >= len) return "start>=size";
                return content_tag(H, eff, false);
            };
            // tag of a failing find_last: "limit>size" only if the same search with limit == size is answered correctly
            auto last_tag = [&](const std::string &eff, const char *ep, size_t at, long want) -> const char * {
                if (!eff.empty() && at > len && h.find_last(len, ep, eff.size(), cs) == want) return "limit>size";
                return content_tag(H, eff, false);
            };
            // a secondary form must return what the primary form returned for the same effective needle
            auto second = [&](const char *opn, const char *form, long got, long prim, long want, const std::string &eff, bool cut, size_t at) {
                val();
                if (got != prim && got != want)
                    c.fail(strf("%s(%s):%s:differs-from-(ptr,len)-form:%s", opn, form, mode, content_tag(H, eff, cut)),
                           strf("haystack %s needle %s at=%zu mode=%s: returned %ld, (ptr,len) form %ld, reference %ld", show(H.raw).c_str(),
                                show(eff).c_str(), at, mode, got, prim, want));
            };

            for (size_t k = 0; k < pos.size(); ++k) {
                const size_t at = pos[k];
                const bool forms = cfg.all_forms_every_pos || at == 0 || at == len || at + 1 == len || at == SZMAX;
                // ---------------- find
                {
                    long want = occ.first(at), got = OP(h.find(at, p, m, cs));
                    val();
                    if (got != want) primary("find", find_tag(N.raw, at), got, want, N.raw, at);
                    if (want >= 0) VF_COUNT("out:find:hit");
                    else VF_COUNT("out:find:none");
                    long wantz = want, gotz = got;
                    if (N.hasnul) {
                        wantz = occz.first(at);
                        gotz = OP(h.find(at, pc, mz, cs));
                        val();
                        if (gotz != wantz) primary("find", find_tag(N.cpre, at), gotz, wantz, N.cpre, at);
                    }
                    second("find", "const char*", OP(h.find(at, z, cs)), gotz, wantz, N.cpre, N.hasnul, at);
                    if (forms) {
                        second("find", "string", OP(h.find(at, N.s, cs)), got, want, N.raw, false, at);
                        second("find", "const char8_t*", OP(h.find(at, z8, cs)), gotz, wantz, N.cpre, N.hasnul, at);
                        second("find", "const char8_t*,len", OP(h.find(at, p8, m, cs)), got, want, N.raw, false, at);
                        if (m == 1) second("find", "char", OP(h.find(at, N.raw[0], cs)), got, want, N.raw, false, at);
                        if (!ci) {
                            second("find", "ptr,len,default-mode", OP(h.find(at, p, m)), got, want, N.raw, false, at);
                            second("find", "const char*,default-mode", OP(h.find(at, z)), gotz, wantz, N.cpre, N.hasnul, at);
                            second("find", "string,default-mode", OP(h.find(at, N.s)), got, want, N.raw, false, at);
                            if (m == 1) second("find", "char,default-mode", OP(h.find(at, N.raw[0])), got, want, N.raw, false, at);
                        }
                    }
                }
                // ---------------- find_last
                {
                    long want = occ.last(at), got = OP(h.find_last(at, p, m, cs));
                    val();
                    if (got != want) primary("find_last", last_tag(N.raw, p, at, want), got, want, N.raw, at);
                    if (want >= 0) VF_COUNT("out:find_last:hit");
                    else VF_COUNT("out:find_last:none");
                    long wantz = want, gotz = got;
                    if (N.hasnul) {
                        wantz = occz.last(at);
                        gotz = OP(h.find_last(at, pc, mz, cs));
                        val();
                        if (gotz != wantz) primary("find_last", last_tag(N.cpre, pc, at, wantz), gotz, wantz, N.cpre, at);
                    }
                    second("find_last", "const char*", OP(h.find_last(at, z, cs)), gotz, wantz, N.cpre, N.hasnul, at);
                    if (forms) {
                        second("find_last", "string", OP(h.find_last(at, N.s, cs)), got, want, N.raw, false, at);
                        second("find_last", "const char8_t*", OP(h.find_last(at, z8, cs)), gotz, wantz, N.cpre, N.hasnul, at);
                        second("find_last", "const char8_t*,len", OP(h.find_last(at, p8, m, cs)), got, want, N.raw, false, at);
                        if (m == 1) second("find_last", "char", OP(h.find_last(at, N.raw[0], cs)), got, want, N.raw, false, at);
                        if (!ci) {
                            second("find_last", "ptr,len,default-mode", OP(h.find_last(at, p, m)), got, want, N.raw, false, at);
                            second("find_last", "const char*,default-mode", OP(h.find_last(at, z)), gotz, wantz, N.cpre, N.hasnul, at);
                            second("find_last", "string,default-mode", OP(h.find_last(at, N.s)), got, want, N.raw, false, at);
                            if (m == 1)
                                second("find_last", "char,default-mode", OP(h.find_last(at, N.raw[0])), got, want, N.raw, false, at);
                        }
                    }
                }
            }

            // ---------------- forms without a position: find == find(0, ...), find_last == find_last(SIZE_MAX, ...)
            {
                long w0 = occ.first(0), wz0 = occz.first(0), wl = occ.last(SZMAX), wzl = occz.last(SZMAX);
                long f_p = OP(h.find(p, m, cs)), f_s = OP(h.find(N.s, cs)), f_z = OP(h.find(z, cs)), f_8 = OP(h.find(z8, cs)),
                     f_8n = OP(h.find(p8, m, cs));
                long l_p = OP(h.find_last(p, m, cs)), l_s = OP(h.find_last(N.s, cs)), l_z = OP(h.find_last(z, cs)),
                     l_8 = OP(h.find_last(z8, cs)), l_8n = OP(h.find_last(p8, m, cs));
                auto nopos = [&](const char *opn, const char *form, long got, long want, const std::string &eff, bool cut) {
                    val();
                    if (got != want)
                        c.fail(strf("%s(%s) without position:%s:differs-from-positional-form:%s", opn, form, mode, content_tag(H, eff, cut)),
                               strf("haystack %s needle %s mode=%s: returned %ld, reference %ld", show(H.raw).c_str(), show(eff).c_str(), mode,
                                    got, want));
                };
                // only report these when the positional primary is right for the same arguments (otherwise it is the same defect)
                bool prim_ok = OP(h.find(size_t(0), p, m, cs)) == w0 && OP(h.find_last(SZMAX, p, m, cs)) == wl &&
                               OP(h.find(size_t(0), pc, mz, cs)) == wz0 && OP(h.find_last(SZMAX, pc, mz, cs)) == wzl;
                if (prim_ok) {
                    nopos("find", "ptr,len", f_p, w0, N.raw, false);
                    nopos("find", "string", f_s, w0, N.raw, false);
                    nopos("find", "const char*", f_z, wz0, N.cpre, N.hasnul);
                    nopos("find", "const char8_t*", f_8, wz0, N.cpre, N.hasnul);
                    nopos("find", "const char8_t*,len", f_8n, w0, N.raw, false);
                    nopos("find_last", "ptr,len", l_p, wl, N.raw, false);
                    nopos("find_last", "string", l_s, wl, N.raw, false);
                    nopos("find_last", "const char*", l_z, wzl, N.cpre, N.hasnul);
                    nopos("find_last", "const char8_t*", l_8, wzl, N.cpre, N.hasnul);
                    nopos("find_last", "const char8_t*,len", l_8n, wl, N.raw, false);
                    if (m == 1) {
                        nopos("find", "char", OP(h.find(N.raw[0], cs)), w0, N.raw, false);
                        nopos("find_last", "char", OP(h.find_last(N.raw[0], cs)), wl, N.raw, false);
                    }
                    if (!ci) {
                        nopos("find", "ptr,len,default-mode", OP(h.find(p, m)), w0, N.raw, false);
                        nopos("find", "string,default-mode", OP(h.find(N.s)), w0, N.raw, false);
                        nopos("find", "const char*,default-mode", OP(h.find(z)), wz0, N.cpre, N.hasnul);
                        nopos("find_last", "ptr,len,default-mode", OP(h.find_last(p, m)), wl, N.raw, false);
                        nopos("find_last", "string,default-mode", OP(h.find_last(N.s)), wl, N.raw, false);
                        nopos("find_last", "const char*,default-mode", OP(h.find_last(z)), wzl, N.cpre, N.hasnul);
                        if (m == 1) {
                            nopos("find", "char,default-mode", OP(h.find(N.raw[0])), w0, N.raw, false);
                            nopos("find_last", "char,default-mode", OP(h.find_last(N.raw[0])), wl, N.raw, false);
                        }
                    }
                }
                // ---------------- contains is true exactly when find (same form) succeeds
                auto cont = [&](const char *form, bool got, long found, const std::string &eff, bool cut) {
                    val();
                    if (got != (found >= 0))
                        c.fail(strf("contains(%s):%s:disagrees-with-find:%s", form, mode, content_tag(H, eff, cut)),
                               strf("haystack %s needle %s mode=%s: contains=%d but find returned %ld", show(H.raw).c_str(),
                                    show(eff).c_str(), mode, (int)got, found));
                };
                cont("ptr,len", OP(h.contains(p, m, cs)), f_p, N.raw, false);
                cont("string", OP(h.contains(N.s, cs)), f_s, N.raw, false);
                cont("const char*", OP(h.contains(z, cs)), f_z, N.cpre, N.hasnul);
                cont("const char8_t*", OP(h.contains(z8, cs)), f_8, N.cpre, N.hasnul);
                cont("const char8_t*,len", OP(h.contains(p8, m, cs)), f_8n, N.raw, false);
                if (m == 1) cont("char", OP(h.contains(N.raw[0], cs)), OP(h.find(N.raw[0], cs)), N.raw, false);
                if (!ci) {
                    cont("ptr,len,default-mode", OP(h.contains(p, m)), f_p, N.raw, false);
                    cont("string,default-mode", OP(h.contains(N.s)), f_s, N.raw, false);
                    cont("const char*,default-mode", OP(h.contains(z)), f_z, N.cpre, N.hasnul);
                    if (m == 1) cont("char,default-mode", OP(h.contains(N.raw[0])), OP(h.find(N.raw[0])), N.raw, false);
                }
                if (w0 >= 0) VF_COUNT("out:contains:true");
                else VF_COUNT("out:contains:false");

                // ---------------- starts_with / ends_with by definition
                bool sw = ref::starts_with(H.raw, N.raw, ci != 0), ew = ref::ends_with(H.raw, N.raw, ci != 0);
                bool swz = ref::starts_with(H.raw, N.cpre, ci != 0), ewz = ref::ends_with(H.raw, N.cpre, ci != 0);
                // base forms (ST::string, const char* with an explicit mode) against the definition; the thin forwarding
                // forms (char8_t, defaulted mode) only have to return what their base form returns
                auto edge = [&](const char *opn, const char *form, bool got, bool want, const std::string &eff, bool cut) {
                    val();
                    if (got != want)
                        c.fail(strf("%s(%s):%s:%s:%s%s", opn, form, mode, want ? "false-negative" : "false-positive", content_tag(H, eff, cut),
                                    eff.size() > H.raw.size() ? ":text-longer-than-string" : ""),
                               strf("string %s text %s mode=%s: returned %d", show(H.raw).c_str(), show(eff).c_str(), mode, (int)got));
                    return got;
                };
                auto fwd = [&](const char *opn, const char *form, bool got, bool base, bool want, const std::string &eff) {
                    val();
                    if (got != base && got != want)
                        c.fail(strf("%s(%s):%s:differs-from-base-form", opn, form, mode),
                               strf("string %s text %s mode=%s: returned %d, base form %d", show(H.raw).c_str(), show(eff).c_str(), mode, (int)got, (int)base));
                };
                bool s_s = edge("starts_with", "string", OP(h.starts_with(N.s, cs)), sw, N.raw, false);
                bool s_z = edge("starts_with", "const char*", OP(h.starts_with(z, cs)), swz, N.cpre, N.hasnul);
                bool e_s = edge("ends_with", "string", OP(h.ends_with(N.s, cs)), ew, N.raw, false);
                bool e_z = edge("ends_with", "const char*", OP(h.ends_with(z, cs)), ewz, N.cpre, N.hasnul);
                fwd("starts_with", "const char8_t*", OP(h.starts_with(z8, cs)), s_z, swz, N.cpre);
                fwd("ends_with", "const char8_t*", OP(h.ends_with(z8, cs)), e_z, ewz, N.cpre);
                if (!ci) {
                    fwd("starts_with", "string,default-mode", OP(h.starts_with(N.s)), s_s, sw, N.raw);
                    fwd("starts_with", "const char*,default-mode", OP(h.starts_with(z)), s_z, swz, N.cpre);
                    fwd("ends_with", "string,default-mode", OP(h.ends_with(N.s)), e_s, ew, N.raw);
                    fwd("ends_with", "const char*,default-mode", OP(h.ends_with(z)), e_z, ewz, N.cpre);
                }
                if (sw) VF_COUNT("out:starts_with:true");
                else VF_COUNT("out:starts_with:false");
                if (ew) VF_COUNT("out:ends_with:true");
                else VF_COUNT("out:ends_with:false");
            }
        }
        if (first_char_hit) c.nontrivial();
    });
    if (!o.ok()) {
        vf::count_dyn(std::string("out:exception:") + vf::outkind_name(o.kind));
        c.fail(strf("search-family:%s", vf::outkind_name(o.kind)), o.str() + " haystack " + show(H.raw) + " needle " + show(N.raw));
    }
}

// null needle pointers
static void check_null(Ctx &c, const Hay &H, const Cfg &cfg)
{
    static std::vector<size_t> pos;
    vf::Outcome o = vf::guard([&] {
        const ST::string &h = H.s;
        const char *np = nullptr;
        const char8_t *np8 = nullptr;
        positions(H.raw.size(), cfg, pos);
        for (int ci = 0; ci < 2; ++ci) {
            const ST::case_sensitivity_t cs = ci ? ST::case_insensitive : ST::case_sensitive;
            const char *mode = ci ? "ci" : "cs";
            for (size_t at : pos)
                for (size_t cnt : {size_t(0), size_t(1), size_t(3), SZMAX}) {
                    val();
                    long a = OP(h.find(at, np, cnt, cs)), b = OP(h.find_last(at, np, cnt, cs)), a8 = OP(h.find(at, np8, cnt, cs)),
                         b8 = OP(h.find_last(at, np8, cnt, cs));
                    if (a != -1 || a8 != -1) c.fail(strf("find(ptr,len):%s:null-needle-not-rejected", mode), strf("haystack %s start %zu count %zu: %ld", show(H.raw).c_str(), at, cnt, a));
                    if (b != -1 || b8 != -1) c.fail(strf("find_last(ptr,len):%s:null-needle-not-rejected", mode), strf("haystack %s limit %zu count %zu: %ld", show(H.raw).c_str(), at, cnt, b));
                }
            for (size_t at : pos) {
                val();
                if (OP(h.find(at, np, cs)) != -1 || OP(h.find(at, np8, cs)) != -1)
                    c.fail(strf("find(const char*):%s:null-needle-not-rejected", mode), strf("haystack %s start %zu", show(H.raw).c_str(), at));
                val();
                if (OP(h.find_last(at, np, cs)) != -1 || OP(h.find_last(at, np8, cs)) != -1)
                    c.fail(strf("find_last(const char*):%s:null-needle-not-rejected", mode), strf("haystack %s limit %zu", show(H.raw).c_str(), at));
            }
            val();
            if (OP(h.find(np, cs)) != -1 || OP(h.find(np, size_t(2), cs)) != -1 || OP(h.find_last(np, cs)) != -1 ||
                OP(h.find_last(np, size_t(2), cs)) != -1 || OP(h.find(np8, cs)) != -1 || OP(h.find_last(np8, cs)) != -1)
                c.fail(strf("find/find_last without position:%s:null-needle-not-rejected", mode), show(H.raw));
            val();
            if (OP(h.contains(np, cs)) || OP(h.contains(np, size_t(2), cs)) || OP(h.contains(np8, cs)))
                c.fail(strf("contains(const char*):%s:null-needle-not-rejected", mode), show(H.raw));
            val();
            if (!OP(h.starts_with(np, cs)) || !OP(h.starts_with(np8, cs)))
                c.fail(strf("starts_with(const char*):%s:false-negative:null-text", mode), show(H.raw));
            val();
            if (!OP(h.ends_with(np, cs)) || !OP(h.ends_with(np8, cs)))
                c.fail(strf("ends_with(const char*):%s:false-negative:null-text", mode), show(H.raw));
        }
        VF_COUNT("out:null-needle:checked");
    });
    if (!o.ok()) c.fail(strf("search-family:null-needle:%s", vf::outkind_name(o.kind)), o.str() + " haystack " + show(H.raw));
}

// ------------------------------------------------------------------ self-test of the reference
static void selftest()
{
    struct {
        const char *h;
        size_t hl;
        const char *n;
        size_t nl;
        size_t at;
        bool ci;
        long first, last;
    } t[] = {{"aaab", 4, "aab", 3, 0, false, 1, -1},   {"aaab", 4, "aab", 3, SZMAX, false, -1, 1}, {"aaab", 4, "aab", 3, 2, false, -1, -1},
             {"abab", 4, "ab", 2, 1, false, 2, -1},    {"abab", 4, "ab", 2, 3, false, -1, 0},      {"abab", 4, "ab", 2, 4, false, -1, 2},
             {"abab", 4, "", 0, 0, false, -1, -1},     {"aBAb", 4, "ab", 2, 0, true, 0, -1},       {"aBAb", 4, "ab", 2, 9, true, -1, 2},
             {"a\0b", 3, "\0b", 2, 0, false, 1, -1},   {"a\0b", 3, "\0", 1, 2, false, -1, 1},      {"ab", 2, "abc", 3, 0, false, -1, -1},
             {"[", 1, "{", 1, 0, true, -1, -1},        {"\x80", 1, "\x80", 1, 0, true, 0, -1},     {"ab", 2, "ab", 2, 2, false, -1, 0}};
    for (auto &e : t) {
        std::string h(e.h, e.hl), n(e.n, e.nl);
        Occ o(h, n, e.ci);
        long f = ref::find_first(h, n, e.at, e.ci), l = ref::find_last(h, n, e.at, e.ci);
        if (f != e.first || l != e.last || o.first(e.at) != f || o.last(e.at) != l) {
            fprintf(stderr, "selftest: reference search wrong for %s in %s at %zu\n", show(n).c_str(), show(h).c_str(), e.at);
            exit(2);
        }
    }
    // the occurrence table must agree with the plain reference functions on a complete small space
    const char al[4] = {'a', 'A', 'b', 0};
    std::vector<unsigned> d;
    for (uint64_t i = 0; i < vf::seq_count(4, 4); ++i) {
        vf::seq_decode(i, 4, 4, d);
        std::string h;
        for (unsigned x : d) h += al[x];
        for (uint64_t j = 0; j < vf::seq_count(4, 2); ++j) {
            vf::seq_decode(j, 4, 2, d);
            std::string n;
            for (unsigned x : d) n += al[x];
            for (int ci = 0; ci < 2; ++ci) {
                Occ o(h, n, ci);
                for (size_t at : {size_t(0), size_t(1), size_t(2), size_t(3), size_t(4), size_t(5), SZMAX})
                    if (o.first(at) != ref::find_first(h, n, at, ci) || o.last(at) != ref::find_last(h, n, at, ci)) {
                        fprintf(stderr, "selftest: occurrence table disagrees with the naive reference\n");
                        exit(2);
                    }
            }
        }
    }
    if (!ref::starts_with("abc", "", false) || !ref::starts_with("aBc", "Ab", true) || ref::starts_with("aBc", "Ab", false) ||
        !ref::ends_with("abc", "bc", false) || ref::ends_with("bc", "abc", false) || !ref::ends_with("", "", true)) {
        fprintf(stderr, "selftest: reference starts_with/ends_with wrong\n");
        exit(2);
    }
}

typedef std::shared_ptr<std::vector<Hay>> HPool;
typedef std::shared_ptr<std::vector<Needle>> NPool;
static std::string seq_string(uint64_t i, const std::vector<unsigned> &alpha, unsigned L)
{
    std::vector<unsigned> d;
    vf::seq_decode(i, alpha.size(), L, d);
    std::string r;
    for (unsigned x : d) r += (char)alpha[x];
    return r;
}

static void build(vf::Plan &plan, const vf::Opts &o)
{
    selftest();
    const bool T = o.thorough();
    plan.rule =
        "case = one (haystack, needle) pair run through every start / limit, both case modes and every needle form; non-trivial = the "
        "needle is non-empty and its first byte occurs in the haystack (under either case mode), so the comparison loop behind a first-character hit runs";
    plan.assumptions = {
        "a const char* needle denotes the bytes up to its first NUL; the (pointer,length) form is the primary form and the other forms must return the same index for the same needle",
        "haystacks longer than the main bound are covered only as 'b'^p + core + 'b'^q (p,q up to 13, core <= 3 bytes)",
        "case folding of the scanning loops is swept over all 256x256 byte pairs in the first and the second needle position only"};
    const std::vector<unsigned> H5 = {'a', 'b', 'A', 0x00, 0x80};
    const std::vector<size_t> EXT_FULL = {size_t(1) << 31, size_t(1) << 32, size_t(1) << 63, SZMAX - 1, SZMAX};
    const std::vector<size_t> EXT_LIGHT = {SZMAX - 1, SZMAX};

    auto needles = [&](unsigned M) {
        NPool p = std::make_shared<std::vector<Needle>>();
        for (uint64_t i = 0; i < vf::seq_count(H5.size(), M); ++i) p->push_back(make_needle(seq_string(i, H5, M)));
        return p;
    };
    auto hays = [&](unsigned L) {
        HPool p = std::make_shared<std::vector<Hay>>();
        for (uint64_t i = 0; i < vf::seq_count(H5.size(), L); ++i) p->push_back(make_hay(seq_string(i, H5, L)));
        return p;
    };
    auto main_stage = [&plan](const std::string &name, HPool hp, NPool np, Cfg cfg) {
        uint64_t NN = np->size();
        auto &st = plan.stage(name, hp->size() * NN,
                              [hp, np, NN, cfg](uint64_t i, Ctx &c) { check_case(c, (*hp)[i / NN], (*np)[i % NN], cfg); },
                              [hp, np, NN](uint64_t i) {
                                  return strf("haystack %s needle %s", show((*hp)[i / NN].raw).c_str(), show((*np)[i % NN].raw).c_str());
                              });
        st.case_timeout_s = 5;
    };

    // VF_REDUCED: the ASan+UBSan build of the quick tier runs the stages whose operands live on the heap (what ASan adds is
    // the detection of reads past a heap block, e.g. a window test made after the comparison it should guard)
#ifdef VF_REDUCED
    const bool reduced = true;
#else
    const bool reduced = false;
#endif
    NPool n3 = needles(3);
    if (reduced) {
    } else if (!T) {
        main_stage("main:H^<=5 x needles H^<=3", hays(5), n3, Cfg{EXT_FULL, true});
    } else {
        main_stage("main:H^<=5 x needles H^<=4", hays(5), needles(4), Cfg{EXT_FULL, true});
        main_stage("main:H^<=7 x needles H^<=3", hays(7), n3, Cfg{EXT_LIGHT, false});
        main_stage("main:H^<=6 x needles H^<=4", hays(6), needles(4), Cfg{EXT_LIGHT, false});
    }

    // ---- long haystacks around the in-object / heap limit
    {
        std::vector<unsigned> pads = T ? std::vector<unsigned>{0, 6, 7, 8, 13} : std::vector<unsigned>{0, 7, 13};
        HPool hp = std::make_shared<std::vector<Hay>>();
        uint64_t ncore = vf::seq_count(H5.size(), 3);
        for (unsigned p : pads)
            for (unsigned q : pads)
                for (uint64_t i = 0; i < ncore; ++i) hp->push_back(make_hay(std::string(p, 'b') + seq_string(i, H5, 3) + std::string(q, 'b')));
        main_stage(strf("long:'b'^p+core(H^<=3)+'b'^q, p,q in %s x needles H^<=%u", T ? "{0,6,7,8,13}" : "{0,7,13}", T ? 3 : 2), hp,
                   T ? n3 : needles(2), Cfg{EXT_LIGHT, false});
    }

    // ---- long needles: every length across the sizes a comparison loop might treat specially (8-byte words, 16/32/64-byte
    // blocks, stack copies of the needle), one byte of the occurrence perturbed at every position - by the ASCII case bit
    // (a match only for letters, in case-insensitive mode) and by +1 (never a match) - with every byte class at every position
    {
        auto cases = std::make_shared<std::vector<lp::LN>>(lp::cases(T));
        auto mk = [](const lp::LN &q, std::string &hay, std::string &needle) { lp::make(q, hay, needle); };
        auto &st = plan.stage(strf("long needles: lengths %s, one byte of the occurrence flipped in bit 5 / incremented at every position, "
                                   "10 byte classes, 3 contexts", lp::lens_text(T)),
                              cases->size(),
                              [cases, mk, EXT_LIGHT](uint64_t i, Ctx &c) {
                                  std::string hay, needle;
                                  mk((*cases)[i], hay, needle);
                                  check_case(c, make_hay(hay), make_needle(needle), Cfg{EXT_LIGHT, false});
                                  c.nontrivial();
                              },
                              [cases, mk](uint64_t i) {
                                  std::string hay, needle;
                                  mk((*cases)[i], hay, needle);
                                  return strf("haystack %s needle %s", show(hay).c_str(), show(needle).c_str());
                              });
        st.case_timeout_s = 10;
    }

    {
        auto cases = std::make_shared<std::vector<lp::LN>>(lp::cases_very_long());
        auto &st = plan.stage("very long needles: lengths {255,256,257,258,300,1030}, one byte perturbed at positions next to the ends, the middle and 254..257",
                              cases->size(),
                              [cases, EXT_LIGHT](uint64_t i, Ctx &c) {
                                  std::string hay, needle;
                                  lp::make((*cases)[i], hay, needle);
                                  Cfg cfg{EXT_LIGHT, false};
                                  cfg.sparse = true;
                                  check_case(c, make_hay(hay), make_needle(needle), cfg);
                                  c.nontrivial();
                              },
                              [cases](uint64_t i) {
                                  std::string hay, needle;
                                  lp::make((*cases)[i], hay, needle);
                                  return strf("haystack %s needle %s", show(hay).c_str(), show(needle).c_str());
                              });
        st.case_timeout_s = 20;
    }

    {
        auto cases = std::make_shared<std::vector<lp::LB>>(lp::cases_long_subject(T));
        auto &st = plan.stage(strf("long haystacks (4,097 .. %s bytes) with the needle at every offset around 256 / 1,024 / 4,096 from either end, with and without an earlier occurrence",
                                   T ? "65,600" : "8,200"),
                              cases->size(),
                              [cases, EXT_LIGHT](uint64_t i, Ctx &c) {
                                  std::string hay, needle;
                                  lp::make((*cases)[i], hay, needle);
                                  Cfg cfg{EXT_LIGHT, false};
                                  cfg.sparse = true;
                                  check_case(c, make_hay(hay), make_needle(needle), cfg);
                                  c.nontrivial();
                              },
                              [cases](uint64_t i) {
                                  const lp::LB &q = (*cases)[i];
                                  return strf("haystack of %u bytes, needle #%u at offset %u%s", q.L, q.sep, q.off, q.early ? " and at offset 10" : "");
                              });
        st.case_timeout_s = 30;
    }

    // ---- fold sweep behind a UTF-8 lead byte: case-insensitive means ASCII letters only, whatever the byte before says
    // (C3 89 and C3 A9 - E-acute and e-acute - are different texts)
    if (!reduced) {
        static const unsigned char PREV[4] = {0xC3, 0xC2, 0xE2, 'a'};
        plan.stage("fold behind a lead byte: all 256x256 (haystack byte, needle byte) behind {C3, C2, E2, 'a'} in haystack and needle", 65536 * 4,
                   [EXT_LIGHT](uint64_t i, Ctx &c) {
                       unsigned x = vf::take(i, 256), y = vf::take(i, 256), pv = (unsigned)i;
                       Hay h = make_hay(std::string("q") + (char)PREV[pv] + (char)x + "z");
                       Needle n = make_needle(std::string(1, (char)PREV[pv]) + (char)y);
                       check_case(c, h, n, Cfg{EXT_LIGHT, false});
                   },
                   [](uint64_t i) {
                       unsigned x = vf::take(i, 256), y = vf::take(i, 256);
                       return strf("haystack 'q'+%02X+%02X+'z' needle %02X+%02X", PREV[i], x, PREV[i], y);
                   });
    }

    // ---- complete fold sweep
    if (!reduced) {
        plan.stage("fold:all-256x256(haystack byte, needle byte), alone and as second byte ('bQ'+x vs 'q'+y)", 65536 * 2,
                   [EXT_LIGHT](uint64_t i, Ctx &c) {
                       unsigned x = vf::take(i, 256), y = vf::take(i, 256), ctx = vf::take(i, 2);
                       Hay h = make_hay(ctx ? std::string("bQ") + (char)x : std::string(1, (char)x));
                       Needle n = make_needle(ctx ? std::string("q") + (char)y : std::string(1, (char)y));
                       check_case(c, h, n, Cfg{EXT_LIGHT, true});
                   },
                   [](uint64_t i) {
                       unsigned x = vf::take(i, 256), y = vf::take(i, 256), ctx = vf::take(i, 2);
                       return ctx ? strf("haystack 'bQ'+%02X needle 'q'+%02X", x, y) : strf("haystack [1]%02X needle [1]%02X", x, y);
                   });
    }

    // ---- null needles
    {
        HPool hp = hays(T ? 5 : 4);
        for (unsigned n : {15u, 16u, 17u}) hp->push_back(make_hay(std::string(n, 'a')));
        plan.stage(strf("null:H^<=%u and 'a'^15..17 x null needle pointers", T ? 5 : 4), hp->size(),
                   [hp, EXT_FULL](uint64_t i, Ctx &c) {
                       check_null(c, (*hp)[i], Cfg{EXT_FULL, true});
                       if (!(*hp)[i].raw.empty()) c.nontrivial();
                   },
                   [hp](uint64_t i) { return strf("haystack %s needle nullptr", show((*hp)[i].raw).c_str()); });
    }
    // ---- one-character needles in haystacks of 8 and more bytes made of the character, its neighbours in value (c^1, c+1, c^0x20,
    // c^0x80) and a filler: word-at-a-time scanning loops decide by arithmetic on whole words, where a neighbour can look like a hit
    if (!reduced) {
        static const unsigned char CH[6] = {'b', '0', 0x00, 0x80, 'a', 0xA8};
        const unsigned LMAX = T ? 10 : 9;
        uint64_t per = 0;
        for (unsigned L = 8; L <= LMAX; ++L) per += vf::ipow(4, L);
        plan.stage(strf("one-character needle x haystacks {c, c^1, c^0x20, x}^8..%u and (c | c^0x80 | c+1) runs in haystacks of 11..24 bytes, 6 characters, every start / limit, both case modes", LMAX),
                   (per + 14 * 24 * 8 * 3) * 6,
                   [per, LMAX](uint64_t i, Ctx &c) {
                       unsigned char ch = CH[vf::take(i, 6)];
                       std::string h;
                       if (i < per) {
                           unsigned L = 8;
                           uint64_t k = i;
                           while (k >= vf::ipow(4, L)) k -= vf::ipow(4, L++);
                           const unsigned char SY[4] = {ch, (unsigned char)(ch ^ 1), (unsigned char)(ch ^ 0x20), 'x'};
                           for (unsigned j = 0; j < L; ++j, k /= 4) h += (char)SY[k % 4];
                       } else {
                           uint64_t k = i - per;
                           unsigned nb = (unsigned)vf::take(k, 3), run = (unsigned)vf::take(k, 8), pos = (unsigned)vf::take(k, 24), L = 11 + (unsigned)k;
                           h.assign(L, 'x');
                           const unsigned char NB[3] = {(unsigned char)(ch ^ 1), (unsigned char)(ch ^ 0x80), (unsigned char)(ch + 1)};
                           if (pos < L) h[pos] = (char)ch;
                           for (unsigned j = 1; j <= run && pos + j < L; ++j) h[pos + j] = (char)NB[nb];
                           if (pos >= 2 && pos - 2 < L) h[pos - 2] = (char)NB[nb];
                       }
                       ST::string s = mkst(h);
                       const size_t n = h.size();
                       vf::Outcome o = vf::guard([&] {
                           for (int ci = 0; ci < 2; ++ci) {
                               ST::case_sensitivity_t cs = ci ? ST::case_insensitive : ST::case_sensitive;
                               auto eq = [&](unsigned char x) { return ci ? ref::fold_byte(x) == ref::fold_byte(ch) : x == ch; };
                               for (size_t p = 0; p <= n + 1; ++p) {
                                   long wf = -1, wl = -1;
                                   for (size_t j = p; j < n; ++j)
                                       if (eq((unsigned char)h[j])) {
                                           wf = (long)j;
                                           break;
                                       }
                                   for (size_t j = (p < n ? p : n); j-- > 0;)
                                       if (eq((unsigned char)h[j])) {
                                           wl = (long)j;
                                           break;
                                       }
                                   long gf = OP(s.find(p, (char)ch, cs)), gl = OP(s.find_last(p, (char)ch, cs));
                                   val();
                                   if (gf != wf)
                                       c.fail(strf("find(start,char):%s:%s:haystack-of-the-character-and-its-neighbours", ci ? "ci" : "cs", rescls(wf, gf)),
                                              strf("haystack %s find(%zu, 0x%02X) = %ld, expected %ld", show(h).c_str(), p, ch, gf, wf));
                                   if (gl != wl)
                                       c.fail(strf("find_last(max,char):%s:%s:haystack-of-the-character-and-its-neighbours", ci ? "ci" : "cs", rescls(wl, gl)),
                                              strf("haystack %s find_last(%zu, 0x%02X) = %ld, expected %ld", show(h).c_str(), p, ch, gl, wl));
                               }
                               long w0 = -1, w1 = -1;
                               for (size_t j = 0; j < n; ++j)
                                   if (eq((unsigned char)h[j])) {
                                       if (w0 < 0) w0 = (long)j;
                                       w1 = (long)j;
                                   }
                               long g0 = OP(s.find((char)ch, cs)), g1 = OP(s.find_last((char)ch, cs));
                               bool gc = OP(s.contains((char)ch, cs));
                               val();
                               if (g0 != w0 || g1 != w1 || gc != (w0 >= 0))
                                   c.fail(strf("find/find_last/contains(char):%s:haystack-of-the-character-and-its-neighbours", ci ? "ci" : "cs"),
                                          strf("haystack %s character 0x%02X: find %ld (expected %ld), find_last %ld (expected %ld), contains %d", show(h).c_str(), ch, g0, w0, g1, w1, (int)gc));
                           }
                       });
                       if (!o.ok()) c.fail(strf("one-character-needle:%s", vf::outkind_name(o.kind)), o.str());
                       c.nontrivial();
                   },
                   [](uint64_t i) { return strf("one-character needle case %llu", (unsigned long long)i); });
    }
    // ---- needles that point into the haystack's own storage (a window of its own c_str()): same answer as for a separate copy
    if (!reduced) {
        HPool hp = hays(T ? 5 : 4);
        for (const char *l : {"abababab-abababab-xyz", "aaaaaaaaaaaaaaaaaaaab", "The quick brown fox, the quick brown dog"}) hp->push_back(make_hay(l));
        plan.stage(strf("aliased needle: every window of the haystack's own storage as needle (H^<=%u and three long haystacks), every start / limit", T ? 5 : 4),
                   hp->size(),
                   [hp](uint64_t i, Ctx &c) {
                       const Hay &H = (*hp)[i];
                       const ST::string &h = H.s;
                       const size_t n = H.raw.size();
                       vf::Outcome o = vf::guard([&] {
                           for (size_t off = 0; off <= n; ++off)
                               for (size_t len = 0; off + len <= n; ++len) {
                                   if (n > 8 && len > 4 && len + 2 < n - off) continue;  // long haystacks: short windows and windows reaching the end
                                   const char *own = h.c_str() + off;
                                   std::string copy(own, len);
                                   const bool to_end = off + len == n && H.raw.find('\0', off) == std::string::npos;  // own is also a C string for this window
                                   for (int ci = 0; ci < 2; ++ci) {
                                       ST::case_sensitivity_t cs = ci ? ST::case_insensitive : ST::case_sensitive;
                                       for (size_t pos : {size_t(0), size_t(1), off, off + 1, n}) {
                                           long a1 = OP(h.find(pos, own, len, cs)), b1 = OP(h.find(pos, copy.data(), len, cs));
                                           long a2 = OP(h.find_last(pos, own, len, cs)), b2 = OP(h.find_last(pos, copy.data(), len, cs));
                                           val();
                                           if (a1 != b1)
                                               c.fail(strf("find(start,ptr,len):%s:needle-inside-the-haystack:differs-from-a-copy", ci ? "ci" : "cs"),
                                                      strf("haystack %s find(%zu, own c_str()+%zu, %zu) = %ld, with a copy of those bytes %ld", show(H.raw).c_str(), pos, off, len, a1, b1));
                                           if (a2 != b2)
                                               c.fail(strf("find_last(max,ptr,len):%s:needle-inside-the-haystack:differs-from-a-copy", ci ? "ci" : "cs"),
                                                      strf("haystack %s find_last(%zu, own c_str()+%zu, %zu) = %ld, with a copy %ld", show(H.raw).c_str(), pos, off, len, a2, b2));
                                       }
                                       long a3 = OP(h.find(own, len, cs)), b3 = OP(h.find(copy.data(), len, cs));
                                       long a4 = OP(h.find_last(own, len, cs)), b4 = OP(h.find_last(copy.data(), len, cs));
                                       bool a5 = OP(h.contains(own, len, cs)), b5 = OP(h.contains(copy.data(), len, cs));
                                       val();
                                       if (a3 != b3 || a4 != b4 || a5 != b5)
                                           c.fail(strf("find/find_last/contains(ptr,len):%s:needle-inside-the-haystack:differs-from-a-copy", ci ? "ci" : "cs"),
                                                  strf("haystack %s window +%zu,%zu: %ld/%ld/%d, with a copy %ld/%ld/%d", show(H.raw).c_str(), off, len, a3, a4, (int)a5, b3, b4, (int)b5));
                                       if (to_end) {
                                           long z1 = OP(h.find(own, cs)), y1 = OP(h.find(copy.c_str(), cs));
                                           long z2 = OP(h.find_last(own, cs)), y2 = OP(h.find_last(copy.c_str(), cs));
                                           long z3 = OP(h.find(1, own, cs)), y3 = OP(h.find(1, copy.c_str(), cs));
                                           bool z4 = OP(h.ends_with(own, cs)), y4 = OP(h.ends_with(copy.c_str(), cs));
                                           bool z5 = OP(h.starts_with(own, cs)), y5 = OP(h.starts_with(copy.c_str(), cs));
                                           bool z6 = OP(h.contains(own, cs)), y6 = OP(h.contains(copy.c_str(), cs));
                                           long z7 = OP(h.find((const char8_t *)own, cs)), y7 = y1;
                                           val();
                                           if (z1 != y1 || z2 != y2 || z3 != y3 || z4 != y4 || z5 != y5 || z6 != y6 || z7 != y7)
                                               c.fail(strf("const char* forms:%s:needle-inside-the-haystack:differs-from-a-copy", ci ? "ci" : "cs"),
                                                      strf("haystack %s needle = own c_str()+%zu: find %ld/%ld, find_last %ld/%ld, find(1,) %ld/%ld, ends_with %d/%d, starts_with %d/%d, contains %d/%d",
                                                           show(H.raw).c_str(), off, z1, y1, z2, y2, z3, y3, (int)z4, (int)y4, (int)z5, (int)y5, (int)z6, (int)y6));
                                       }
                                   }
                               }
                       });
                       if (!o.ok()) c.fail(strf("aliased-needle:%s", vf::outkind_name(o.kind)), o.str());
                       if (n > 1) c.nontrivial();
                   },
                   [hp](uint64_t i) { return strf("haystack %s", show((*hp)[i].raw).c_str()); });
    }
    // ---- a haystack of more than 2^31 bytes (indices that no longer fit an int / a 32-bit integer)
    if (!reduced) {
        auto &st = plan.stage("huge haystack: 2^31+64 bytes (lazily mapped), occurrences and start / limit positions beyond 2^31", 1,
                              [](uint64_t, Ctx &c) {
                                  const size_t H = size_t(1) << 31, N = H + 64;
                                  vf::Outcome o = vf::guard([&] {
                                      hugestr::Scope scope;
                                      ST::string s = hugestr::make(N, [&](char *d) {
                                          d[7] = 'q';
                                          d[H - 1] = 'X';
                                          d[H] = 'Y';
                                          d[H + 1] = 'q';
                                          memcpy(d + N - 10, "ab:cd:efgh", 10);
                                      });
                                      auto expect = [&](const char *call, long long got, long long want) {
                                          VF_COUNT("validated");
                                          if (got != want)
                                              c.fail(strf("huge-haystack:%s", call), strf("on a string of 2^31+64 bytes %s returned %lld, expected %lld", call, got, want));
                                      };
                                      const long long h = (long long)H, n = (long long)N;
                                      expect("find('X')", s.find('X'), h - 1);
                                      expect("find(\"XY\")", s.find("XY"), h - 1);
                                      expect("find(\"xyQ\", case_insensitive)", s.find("xyQ", ST::case_insensitive), h - 1);
                                      expect("find(ST::string(\"Yq\"))", s.find(ST_LITERAL("Yq")), h);
                                      expect("find(8, 'q')", s.find(8, 'q'), h + 1);
                                      expect("find(2^31, 'q')", s.find(H, 'q'), h + 1);
                                      expect("find(2^31+2, 'q') [absent]", s.find(H + 2, 'q'), -1);
                                      expect("find(2^31+2, \":\")", s.find(H + 2, ":"), n - 8);
                                      expect("find(N-4, \"e\")", s.find(N - 4, "e"), n - 4);
                                      expect("find(N, 'h')", s.find(N, 'h'), -1);
                                      expect("find_last('q')", s.find_last('q'), h + 1);
                                      expect("find_last(2^31+1, 'q')", s.find_last(H + 1, 'q'), 7);
                                      expect("find_last(2^31+2, 'q')", s.find_last(H + 2, 'q'), h + 1);
                                      expect("find_last(\":\")", s.find_last(":"), n - 5);
                                      expect("find_last(N-5, \":\")", s.find_last(N - 5, ":"), n - 8);
                                      expect("find_last(\"XY\")", s.find_last("XY"), h - 1);
                                      expect("find_last(\"xy\", case_insensitive)", s.find_last("xy", ST::case_insensitive), h - 1);
                                      expect("find_last(2^31, \"XY\") [does not fit below the limit]", s.find_last(H, "XY"), -1);
                                      expect("find_last(2^31+1, ST::string(\"XY\"))", s.find_last(H + 1, ST_LITERAL("XY")), h - 1);
                                      expect("contains('Y')", s.contains('Y'), 1);
                                      expect("contains(\"efgh\")", s.contains("efgh"), 1);
                                      expect("contains(\"efgi\")", s.contains("efgi"), 0);
                                      expect("ends_with(\"efgh\")", s.ends_with("efgh"), 1);
                                      expect("ends_with(\"EFGH\", case_insensitive)", s.ends_with("EFGH", ST::case_insensitive), 1);
                                      expect("ends_with(\"efg\")", s.ends_with("efg"), 0);
                                      expect("starts_with(ST::string of 7 NULs + 'q')", s.starts_with(ST::string::from_validated("\0\0\0\0\0\0\0q", 8)), 1);
                                  });
                                  if (!o.ok()) c.fail(strf("huge-haystack:%s", vf::outkind_name(o.kind)), o.str());
                                  vf::huge_reset();
                                  c.nontrivial();
                              },
                              [](uint64_t) { return std::string("string of 2^31+64 bytes"); });
        st.case_timeout_s = 300;
    }
    vf_early::add_stage(plan);
}

VF_MAIN("C07", build)
