// hugestr.h - an ST::string of more than 2^31 bytes that costs address space only.
// alloc.h serves the request lazily (untouched pages read as zero); the buffer is moved into the string, so nothing is
// copied.  Contents: NUL everywhere except for the markers written by the caller.
#pragma once
#include "alloc.h"
#include "st_string.h"

namespace hugestr {
struct Scope {
    size_t saved_max;
    bool saved_lazy;
    bool saved_alias;
    // alias = true: very large blocks are fully writable but share a 16 MiB window of real memory (alloc.h)
    explicit Scope(bool alias = false) : saved_max(vf::g_alloc.max_request), saved_lazy(vf::g_alloc.huge_lazy), saved_alias(vf::g_alloc.huge_alias)
    {
        vf::g_alloc.max_request = ~size_t(0) / 2;
        vf::g_alloc.huge_lazy = !alias;
        vf::g_alloc.huge_alias = alias;
    }
    ~Scope()
    {
        vf::g_alloc.max_request = saved_max;
        vf::g_alloc.huge_lazy = saved_lazy;
        vf::g_alloc.huge_alias = saved_alias;
    }
};
template <class Mark>
inline ST::string make(size_t n, Mark &&mark)
{
    ST::char_buffer cb;
    cb.allocate(n);
    mark(cb.data());
    return ST::string::from_validated(std::move(cb));
}
// a read-mostly array of n bytes that costs address space only (zero until written)
struct LazyBytes {
    char *p;
    size_t n;
    explicit LazyBytes(size_t n_) : n(n_)
    {
        p = (char *)mmap(nullptr, n + 4096, PROT_READ | PROT_WRITE, MAP_PRIVATE | MAP_ANONYMOUS | MAP_NORESERVE, -1, 0);
        if (p == (char *)MAP_FAILED) p = nullptr;
    }
    ~LazyBytes()
    {
        if (p) munmap(p, n + 4096);
    }
};
}  // namespace hugestr
