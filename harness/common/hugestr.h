// hugestr.h - an ST::string of more than 2^31 bytes that costs address space only.
// alloc.h serves the request lazily (untouched pages read as zero); the buffer is moved into the string, so nothing is
// copied.  Contents: NUL everywhere except for the markers written by the caller.
#pragma once
#include "alloc.h"
#include "st_string.h"

namespace hugestr {
struct Scope {
    size_t saved_max;
    bool saved_lazy;
    Scope() : saved_max(vf::g_alloc.max_request), saved_lazy(vf::g_alloc.huge_lazy)
    {
        vf::g_alloc.max_request = ~size_t(0) / 2;
        vf::g_alloc.huge_lazy = true;
    }
    ~Scope()
    {
        vf::g_alloc.max_request = saved_max;
        vf::g_alloc.huge_lazy = saved_lazy;
    }
};
template <class Mark>
inline ST::string make(size_t n, Mark &&mark)
{
    ST::char_buffer cb;
    cb.allocate(n);
    mark(cb.data());
    return ST::string::from_validated(std::move(cb));
}
}  // namespace hugestr
