// longpat.h - long patterns with a near-miss: shared by the searching / slicing / splitting harnesses (C07, C08, C09).
//
// A pattern of every length across the sizes a comparison loop might treat specially (8-byte words, 16 / 32 / 64-byte
// blocks, stack copies of the pattern) and a text that contains the pattern with ONE byte perturbed, at every position:
// by the ASCII case bit (still an occurrence only for letters, and only in case-insensitive mode) or by +1 (never an
// occurrence).  Ten byte classes (lower / upper letters, the bytes next to the letter ranges, a digit, a UTF-8 lead
// byte) are rotated through, so every class is perturbed at every position.
// Contexts: 0 the near-miss alone; 1 behind two bytes and followed by a proper prefix of the pattern that reaches the
// end of the text (a window test made too late reads past the end); 2 followed by a true occurrence.
#pragma once
#include <string>
#include <vector>

namespace lp {
struct LN {
    unsigned L, pos, rot, kind, ctx;
};
static const unsigned char ALPH[10] = {'a', 'B', '[', '1', '{', 0xC3, '_', 'Z', 'q', '@'};
inline const char *lens_text(bool thorough) { return thorough ? "1..80" : "{7,8,9,15,16,17,24,31,32,33,40,63,64,65,72}"; }
inline std::vector<LN> cases(bool thorough, unsigned nctx = 3)
{
    std::vector<unsigned> lens;
    if (thorough)
        for (unsigned L = 1; L <= 80; ++L) lens.push_back(L);
    else
        lens = {7, 8, 9, 15, 16, 17, 24, 31, 32, 33, 40, 63, 64, 65, 72};
    std::vector<LN> out;
    for (unsigned L : lens)
        for (unsigned pos = 0; pos < L; ++pos)
            for (unsigned rot = 0; rot < 10; ++rot)
                for (unsigned kind = 0; kind < 3; ++kind)
                    for (unsigned ctx = 0; ctx < nctx; ++ctx) {
                        if (kind == 2 && (pos != 0 || rot != 0)) continue;  // the unperturbed occurrence: once per length and context
                        out.push_back(LN{L, pos, rot, kind, ctx});
                    }
    return out;
}
// ascii_only: the lead byte 0xC3 is replaced by '~' (for operations that validate their result as UTF-8)
// patterns longer than a 256-byte (and a 1 KiB) scratch area: fewer positions and rotations, same perturbations and contexts
inline std::vector<LN> cases_very_long()
{
    std::vector<LN> out;
    for (unsigned L : {255u, 256u, 257u, 258u, 300u, 1030u}) {
        std::vector<unsigned> ps = {0, 1, L / 2, 254, 255, 256, 257, L - 2, L - 1};
        for (unsigned pos : ps) {
            if (pos >= L) continue;
            for (unsigned rot : {0u, 5u})
                for (unsigned kind = 0; kind < 3; ++kind)
                    for (unsigned ctx = 0; ctx < 3; ++ctx) {
                        if (kind == 2 && (pos != 0 || rot != 0)) continue;
                        out.push_back(LN{L, pos, rot, kind, ctx});
                    }
        }
    }
    return out;
}
inline void make(const LN &q, std::string &text, std::string &pat, bool ascii_only = false)
{
    pat.clear();
    for (unsigned j = 0; j < q.L; ++j) {
        unsigned char ch = ALPH[(j + q.rot) % 10];
        pat += (char)(ascii_only && ch == 0xC3 ? '~' : ch);
    }
    std::string occ = pat;
    if (q.kind == 0) occ[q.pos] = (char)(occ[q.pos] ^ 0x20);
    else if (q.kind == 1) occ[q.pos] = (char)(occ[q.pos] + 1);
    text = q.ctx == 0 ? occ : q.ctx == 1 ? "xy" + occ + pat.substr(0, q.L - 1) : occ + pat;
}
// long subjects with a short separator placed at every offset around the positions where a block-wise scan would change blocks
// (256, 1024, 4096 from either end): subject = filler with one occurrence, optionally a second one near the start
struct LB {
    unsigned L, off, sep, early;
};
inline std::vector<LB> cases_long_subject(bool thorough)
{
    std::vector<LB> out;
    std::vector<unsigned> Ls = {4097, 4100, 5000, 8200};
    if (thorough) {
        Ls.push_back(16500);
        Ls.push_back(65600);
    }
    for (unsigned L : Ls) {
        std::vector<long> centres = {0, 255, 256, 1023, 1024, 4095, 4096, (long)L - 4097, (long)L - 4096, (long)L - 4095, (long)L - 1024, (long)L - 256, (long)L - 3};
        if (L > 16384) {
            centres.push_back(16384);
            centres.push_back((long)L - 16384);
        }
        if (L > 65536) {
            centres.push_back(65536);
            centres.push_back((long)L - 65536);
        }
        for (long ctr : centres)
            for (long d = -4; d <= 4; ++d) {
                long off = ctr + d;
                if (off < 0 || off + 3 > (long)L) continue;
                for (unsigned sep = 0; sep < 2; ++sep)
                    for (unsigned early = 0; early < 2; ++early) out.push_back(LB{L, (unsigned)off, sep, early});
            }
    }
    return out;
}
inline void make(const LB &q, std::string &text, std::string &sep)
{
    sep = q.sep ? ":a:" : "::";
    text.assign(q.L, 'b');
    text.replace(q.off, sep.size(), sep);
    if (q.early && q.off > 20) text.replace(10, sep.size(), sep);
}
}  // namespace lp
