// ref_num.h - reference helpers for the numeric properties C12 / C13.
//   * canonical digit strings by repeated division (no tables shared with the library)
//   * the field-padding model of C13 ("render as printf does, then pad to the width")
//   * run a callable in a forked child so that a sanitizer abort inside ONE library call is
//     observed (and named) by the worker instead of killing it
// The libc functions (snprintf, strtol family, strtof/strtod) are used directly where the
// property text names them as the specification.
#pragma once
#include <string>
#include <vector>
#include <cstdint>
#include <cstring>
#include <cstdio>
#include <cstdlib>
#include <algorithm>
#include <poll.h>
#include <unistd.h>
#include <sys/wait.h>

namespace ref {

// digits of a magnitude, most significant first, no leading zeros ("0" for zero)
inline std::string digits(unsigned long long mag, int base, bool upper)
{
    std::string r;
    if (mag == 0) return "0";
    while (mag != 0) {
        unsigned d = (unsigned)(mag % (unsigned long long)base);
        mag = mag / (unsigned long long)base;
        char ch;
        if (d < 10) ch = (char)('0' + d);
        else {
            const char *letters = upper ? "ABCDEFGHIJKLMNOPQRSTUVWXYZ" : "abcdefghijklmnopqrstuvwxyz";
            ch = letters[d - 10];
        }
        r.push_back(ch);
    }
    std::reverse(r.begin(), r.end());
    return r;
}

// canonical text of a mathematical integer in [-2^63, 2^64)
inline std::string int_text(__int128 v, int base, bool upper)
{
    if (v < 0) {
        __int128 m = -v;  // exact in 128 bits
        return "-" + digits((unsigned long long)m, base, upper);
    }
    return digits((unsigned long long)v, base, upper);
}

// the same for any 128-bit mathematical integer (texts of values outside every 64-bit type)
inline std::string int_text_wide(__int128 v, int base, bool upper)
{
    bool neg = v < 0;
    unsigned __int128 mag = neg ? (unsigned __int128)(-(v + 1)) + 1 : (unsigned __int128)v;
    std::string r;
    if (mag == 0) return "0";
    while (mag != 0) {
        unsigned d = (unsigned)(mag % (unsigned)base);
        mag = mag / (unsigned)base;
        const char *letters = upper ? "ABCDEFGHIJKLMNOPQRSTUVWXYZ" : "abcdefghijklmnopqrstuvwxyz";
        r.push_back(d < 10 ? (char)('0' + d) : letters[d - 10]);
    }
    if (neg) r.push_back('-');
    std::reverse(r.begin(), r.end());
    return r;
}

// value of a canonical digit string (the inverse, used by the self-test only)
inline bool parse_digits(const std::string &s, int base, __int128 &out)
{
    size_t i = 0;
    bool neg = false;
    if (i < s.size() && s[i] == '-') {
        neg = true;
        ++i;
    }
    if (i == s.size()) return false;
    __int128 v = 0;
    for (; i < s.size(); ++i) {
        int d;
        char c = s[i];
        if (c >= '0' && c <= '9') d = c - '0';
        else if (c >= 'a' && c <= 'z') d = c - 'a' + 10;
        else if (c >= 'A' && c <= 'Z') d = c - 'A' + 10;
        else return false;
        if (d >= base) return false;
        v = v * base + d;
    }
    out = neg ? -v : v;
    return true;
}

// how a produced text differs from the expected one (used in violation signatures: the class of the
// difference identifies a defect better than the class of the input does)
inline const char *diff_class(const std::string &got, const std::string &want)
{
    auto lower = [](std::string t) {
        for (char &ch : t)
            if (ch >= 'A' && ch <= 'Z') ch = (char)(ch - 'A' + 'a');
        return t;
    };
    if (got == want) return "same";
    if (!want.empty() && (want[0] == '+' || want[0] == '-') && want.substr(1) == got) return "sign-missing";
    if (!got.empty() && (got[0] == '+' || got[0] == '-') && got.substr(1) == want) return "sign-extra";
    if (!got.empty() && !want.empty() && got[0] != want[0] && (got[0] == '-' || want[0] == '-' || got[0] == '+' || want[0] == '+') && got.substr(1) == want.substr(1))
        return "sign-wrong";
    if (lower(got) == lower(want)) return "letter-case";
    if (got.size() < want.size() && want.compare(0, got.size(), got) == 0) return "truncated";
    if (got.size() < want.size()) return "shorter";
    if (got.size() > want.size()) return "longer";
    return "characters-differ";
}

// C13 padding model: pad characters go on the side given by the alignment, right-aligned
// (pad on the left) unless the field says '<'
inline std::string pad_field(const std::string &text, int width, bool left_align, char pad)
{
    if (width <= (int)text.size()) return text;
    std::string fill((size_t)width - text.size(), pad);
    return left_align ? text + fill : fill + text;
}
// the other admissible placement for the '0' flag: sign, zeros, rest (not asserted either way)
inline std::string pad_zero_after_sign(const std::string &text, int width)
{
    if (width <= (int)text.size()) return text;
    std::string fill((size_t)width - text.size(), '0');
    if (!text.empty() && (text[0] == '-' || text[0] == '+')) return text.substr(0, 1) + fill + text.substr(1);
    return fill + text;
}

// printf rendering of a double into a large buffer: the specification of C13
inline std::string c_printf(bool plus, int precision, char conv, double value)
{
    char fmt[32];
    size_t e = 0;
    fmt[e++] = '%';
    if (plus) fmt[e++] = '+';
    if (precision >= 0) e += (size_t)snprintf(fmt + e, sizeof fmt - e, ".%d", precision);
    fmt[e++] = conv;
    fmt[e] = 0;
    std::vector<char> buf(4096);
    int n = snprintf(buf.data(), buf.size(), fmt, value);
    if (n >= 0 && (size_t)n >= buf.size()) {  // very large precisions
        buf.resize((size_t)n + 1);
        n = snprintf(buf.data(), buf.size(), fmt, value);
    }
    if (n < 0 || (size_t)n >= buf.size()) {
        fprintf(stderr, "ref::c_printf: snprintf failed (%s)\n", fmt);
        exit(2);
    }
    return std::string(buf.data(), (size_t)n);
}

// ---------------------------------------------------------------- isolated execution
struct IsoResult {
    bool normal = false;  // child ran the body to its end
    int exit_code = 0;
    int signal = 0;
    std::string out;  // what the child wrote to the report pipe
    std::string err;  // what the child wrote to stderr (sanitizer report)
};

// body(report_fd) runs in a forked child with stderr captured; it must not return control to
// the harness engine: the child _exits when body returns.
template <class F>
inline IsoResult run_isolated(unsigned timeout_s, F &&body)
{
    IsoResult r;
    int po[2], pe[2];
    if (pipe(po) != 0 || pipe(pe) != 0) {
        perror("pipe");
        _exit(2);
    }
    fflush(stdout);
    fflush(stderr);
    pid_t p = fork();
    if (p < 0) {
        perror("fork");
        _exit(2);
    }
    if (p == 0) {
        close(po[0]);
        close(pe[0]);
        dup2(pe[1], 2);
        close(pe[1]);
        alarm(timeout_s);
        int code = body(po[1]);
        _exit(code);
    }
    close(po[1]);
    close(pe[1]);
    struct pollfd pf[2] = {{po[0], POLLIN, 0}, {pe[0], POLLIN, 0}};
    std::string *dst[2] = {&r.out, &r.err};
    int open_fds = 2;
    while (open_fds > 0) {
        int k = poll(pf, 2, -1);
        if (k < 0) {
            if (errno == EINTR) continue;
            break;
        }
        for (int i = 0; i < 2; ++i) {
            if (pf[i].fd < 0 || !(pf[i].revents & (POLLIN | POLLHUP | POLLERR))) continue;
            char buf[4096];
            ssize_t n = read(pf[i].fd, buf, sizeof buf);
            if (n > 0) {
                if (dst[i]->size() < (1u << 20)) dst[i]->append(buf, (size_t)n);
            } else if (n == 0 || (n < 0 && errno != EINTR)) {
                close(pf[i].fd);
                pf[i].fd = -1;
                --open_fds;
            }
        }
    }
    int status = 0;
    while (waitpid(p, &status, 0) < 0 && errno == EINTR) {
    }
    if (WIFEXITED(status)) {
        r.normal = true;
        r.exit_code = WEXITSTATUS(status);
    } else if (WIFSIGNALED(status))
        r.signal = WTERMSIG(status);
    return r;
}

// "…: runtime error: <message>" -> a short class name that does not contain the operand values
inline std::string ubsan_kind(const std::string &err, std::string *message = nullptr)
{
    size_t p = err.find("runtime error: ");
    if (p == std::string::npos) return "";
    size_t e = err.find('\n', p);
    std::string msg = err.substr(p + 15, e == std::string::npos ? std::string::npos : e - p - 15);
    if (message) *message = msg;
    if (msg.find("negation of") != std::string::npos) return "negation-overflow";
    if (msg.find("signed integer overflow") != std::string::npos) return "signed-integer-overflow";
    if (msg.find("shift") != std::string::npos) return "invalid-shift";
    if (msg.find("out of bounds") != std::string::npos) return "index-out-of-bounds";
    if (msg.find("division by zero") != std::string::npos) return "division-by-zero";
    if (msg.find("null pointer") != std::string::npos) return "null-pointer";
    if (msg.find("misaligned") != std::string::npos) return "misaligned-access";
    if (msg.find("is outside the range of representable values") != std::string::npos) return "float-cast-overflow";
    if (msg.find("load of value") != std::string::npos) return "invalid-value-load";
    std::string k;
    for (char c : msg) {
        if (c >= '0' && c <= '9') {
            if (k.empty() || k.back() != 'N') k += 'N';
        } else if (c == ' ' || c == '\'' ) k += '-';
        else k += c;
        if (k.size() >= 60) break;
    }
    return k;
}

}  // namespace ref
