// utf_harness.h - shared body of the C01 / C02 / C03 harnesses (UTF_PROP selects the oracle).
//
//   C01: well-formed scalar sequences; every route, every mode => exactly the reference encoding
//   C02: arbitrary units; accept / reject / repair decisions and repaired contents
//   C03: arbitrary units (bare and behind a 16-unit prefix that forces heap results);
//        totality, size == reference size, terminator, no allocator event, fill-independent
#pragma once
#define VF_MAIN_TU
#include "early.h"
#include "verif.h"
#include "alloc.h"
#include "crc.h"
#include "ref_utf.h"
#include "oracle_crc.h"
#include "utf_routes.h"
#include "early_battery.h"

#ifndef UTF_PROP
#error "define UTF_PROP to 1, 2 or 3"
#endif
// the validation mode configured with ST_DEFAULT_VALIDATION for this build (0 assume, 1 substitute, 2 check)
#ifndef VF_DEFAULT_MODE
#define VF_DEFAULT_MODE 2
#endif

using vf::Ctx;
using vf::strf;
using namespace utf;

typedef std::vector<uint32_t> U32V;

static const char *enc_name(ref::Enc e)
{
    static const char *n[] = {"utf8", "utf16", "utf32", "latin1"};
    return n[e];
}
static const char *tgt_name(ref::Tgt t)
{
    static const char *n[] = {"utf8", "utf8(same)", "utf16", "utf32", "latin1(subst)", "latin1(nosubst)"};
    return n[t];
}

static std::string show_units(ref::Enc e, const U32V &u)
{
    std::string o = std::string(enc_name(e)) + strf("[%zu]=", u.size());
    for (size_t i = 0; i < u.size() && i < 40; ++i) o += strf(e == ref::E8 || e == ref::EL1 ? "%s%02X" : "%s%X", i ? " " : "", u[i]);
    if (u.size() > 40) o += " ...";
    return o;
}
static std::string show_out(const Out &o)
{
    if (o.kind != vf::OK) return std::string(vf::outkind_name(o.kind)) + "(" + o.what + ")";
    std::string s = strf("ok size=%zu%s units=", o.n, o.term ? "" : " NO-TERMINATOR");
    for (size_t i = 0; i < o.n && i < 48; ++i) s += strf("%s%X", i ? " " : "", o.u[i]);
    return s;
}
static std::string show_expect(const ref::Expect &e)
{
    if (e.throws) return "ST::unicode_error";
    std::string s = strf("size=%zu%s units=", e.units.size(), e.content_unspecified ? " (contents unspecified)" : "");
    for (size_t i = 0; i < e.units.size() && i < 48; ++i) s += strf("%s%X", i ? " " : "", e.units[i]);
    return s;
}

// ----------------------------------------------------------------------------- self-test of the reference
static void selftest()
{
    vf::Crc32 c8, c16, c32;
    std::vector<ref::Item> items;
    for (uint32_t v = 0; v <= 0x10FFFF; ++v) {
        if (!ref::is_scalar(v)) continue;
        std::string s8;
        std::u16string s16;
        ref::enc8(v, s8);
        ref::enc16(v, s16);
        c8.add(s8.data(), s8.size());
        for (char16_t u : s16) {
            unsigned char le[2] = {(unsigned char)(u % 256), (unsigned char)(u / 256)};
            c16.add(le, 2);
        }
        unsigned char le4[4] = {(unsigned char)(v % 256), (unsigned char)(v / 256 % 256), (unsigned char)(v / 65536 % 256), 0};
        c32.add(le4, 4);
        ref::dec8((const unsigned char *)s8.data(), s8.size(), items);
        bool ok = items.size() == 1 && items[0].good && items[0].v == v && items[0].len == s8.size();
        ref::dec16(s16.data(), s16.size(), items);
        ok = ok && items.size() == 1 && items[0].good && items[0].v == v && items[0].len == s16.size();
        if (!ok) {
            fprintf(stderr, "selftest: reference decoder does not invert reference encoder at U+%X\n", v);
            exit(2);
        }
    }
    if (c8.value() != vf_ref_crc::all_scalars_utf8 || c16.value() != vf_ref_crc::all_scalars_utf16le ||
        c32.value() != vf_ref_crc::all_scalars_utf32le) {
        fprintf(stderr, "selftest: reference encoders disagree with CPython codecs (crc %08x %08x %08x)\n", c8.value(), c16.value(),
                c32.value());
        exit(2);
    }
    // hand-checked decoding facts (from the property text and the existing tests)
    struct {
        const char *bytes;
        size_t n;
        const char *marks;  // g = start of good sequence, b = bad unit, . = inside
    } T[] = {{"\xE0\x80x", 3, "bbg"}, {"\xC0\x80", 2, "g."}, {"\xED\xA0\x80", 3, "g.."}, {"\xF4\x90\x80\x80", 4, "g..."},
             {"\xF8\x80\x80\x80", 4, "bbbb"}, {"\xC2", 1, "b"}, {"a\xE2\x82", 3, "gbb"}, {"\xF0\x9F\x98\x80", 4, "g..."},
             {"\x80", 1, "b"}, {"\xF7\xBF\xBF\xBF", 4, "g..."}, {"\xFF", 1, "b"}};
    for (auto &t : T) {
        ref::dec8((const unsigned char *)t.bytes, t.n, items);
        std::string m(t.n, '.');
        for (auto &it : items) m[it.start] = it.good ? 'g' : 'b';
        if (m != t.marks) {
            fprintf(stderr, "selftest: reference UTF-8 decoder marks %s, expected %s\n", m.c_str(), t.marks);
            exit(2);
        }
    }
    const char16_t w1[] = {0xD800, 0xDC00, 0xDC00, 0xD800, 0xD800, 0x41, 0xDC00};
    ref::dec16(w1, 7, items);
    if (items.size() != 5 || !items[0].good || items[0].v != 0x10000 || !items[1].good || items[1].v != 0x10000 || items[2].good ||
        !items[3].good || items[4].good) {
        fprintf(stderr, "selftest: reference UTF-16 decoder wrong on surrogate table\n");
        exit(2);
    }
}

// ----------------------------------------------------------------------------- per-case engine
struct RunOpts {
    bool primary_only = false;
    bool all_modes = true;     // false: only the default-mode (omitted argument) calls
    bool heap_prefix = false;  // C03: input is behind a 16-unit ASCII prefix (results live on the heap)
};

static Placed &placed()
{
    static Placed p;
    return p;
}

static void place_src(ref::Enc senc, const U32V &src)
{
    Placed &pl = placed();
    if (senc == ref::E8 || senc == ref::EL1) {
        std::string s;
        for (uint32_t u : src) s += (char)u;
        pl.set8(s);
    } else if (senc == ref::E16) {
        std::u16string s;
        for (uint32_t u : src) s += (char16_t)u;
        pl.set16(s);
    } else {
        std::u32string s;
        for (uint32_t u : src) s += (char32_t)u;
        pl.set32(s);
    }
}

static void decode_src(ref::Enc senc, const U32V &src, std::vector<ref::Item> &items)
{
    Placed &pl = placed();
    if (senc == ref::E8) ref::dec8((const unsigned char *)pl.in.p8, pl.in.n8, items);
    else if (senc == ref::E16) ref::dec16(pl.in.p16, pl.in.n16, items);
    else if (senc == ref::E32) ref::dec32(pl.in.p32, pl.in.n32, items);
    else {
        items.clear();
        for (size_t i = 0; i < src.size(); ++i) items.push_back(ref::Item{true, src[i], (unsigned)i, 1});
    }
}

static ref::Enc tgt_enc(ref::Tgt t)
{
    switch (t) {
    case ref::T8:
    case ref::T8SAME: return ref::E8;
    case ref::T16: return ref::E16;
    case ref::T32: return ref::E32;
    default: return ref::EL1;
    }
}

// feed the produced units back into the library in check mode (C02: "its output always passes check_validity")
static bool library_accepts(ref::Enc e, const Out &o)
{
    vf::Outcome oc;
    if (e == ref::E8) {
        std::string s;
        for (size_t i = 0; i < o.n; ++i) s += (char)o.u[i];
        oc = vf::guard([&] { ST::string x(s.data(), s.size(), ST::check_validity); (void)x; });
    } else if (e == ref::E16) {
        std::u16string s;
        for (size_t i = 0; i < o.n; ++i) s += (char16_t)o.u[i];
        oc = vf::guard([&] { (void)ST::utf16_to_utf8(s.data(), s.size(), ST::check_validity); });
    } else if (e == ref::E32) {
        std::u32string s;
        for (size_t i = 0; i < o.n; ++i) s += (char32_t)o.u[i];
        oc = vf::guard([&] { (void)ST::utf32_to_utf8(s.data(), s.size(), ST::check_validity); });
    }
    VF_COUNT("ops");
    return oc.ok();
}

// conversion family of a route: the name without its overload suffix (u8_16_ptr/_buf/_c8 -> u8_16), so that one
// root cause gives one signature
static std::string family(const char *name)
{
    std::string n = name;
    static const char *suf[] = {"_ptr", "_buf", "_rbuf", "_c8", "_c8str", "_std", "_sv", "_stdw", "_svw", "_cstr", "_u8s", "_u8sv",
                                "_8ref", "_l1ref", "_wref", "_16ref", "_32ref", "_u8ref"};
    for (const char *s : suf) {
        size_t l = strlen(s);
        if (n.size() > l && n.compare(n.size() - l, l, s) == 0) return n.substr(0, n.size() - l);
    }
    return n;
}

static inline bool units_equal(const Out &o, const ref::Expect &e)
{
    if (o.n != e.units.size()) return false;
    return o.n == 0 || memcmp(o.u, e.units.data(), o.n * sizeof(uint32_t)) == 0;
}

static const char *input_class(const ref::Expect &e)
{
    if (e.has_bad) return e.has_tolerated ? "malformed+tolerated" : "malformed";
    return e.has_tolerated ? "tolerated-form" : "well-formed";
}

static void run_case(Ctx &c, ref::Enc senc, const U32V &src, const RunOpts &ro)
{
    place_src(senc, src);
    Placed &pl = placed();
    static std::vector<ref::Item> items;
    decode_src(senc, src, items);
    bool has_nul = false;
    for (uint32_t u : src)
        if (u == 0) has_nul = true;
    // expectation cache [tgt][mode]
    ref::Expect ecache[6][3];
    bool ehave[6][3] = {{false}};
    ref::Expect eident;  // identity routes
    eident.units = src;
    bool any_nontrivial = false;

    for (size_t ri = 0; ri < NROUTES; ++ri) {
        const Route &r = ROUTES[ri];
        if (r.src != senc) continue;
        if (ro.primary_only && !(r.flags & F_PRIMARY)) continue;
        if ((r.flags & F_CSTR) && has_nul) continue;
        int modes[4], nm = 0;
        if (r.flags & F_MODE) {
            if (ro.all_modes) {
                modes[nm++] = 0;
                modes[nm++] = 1;
                modes[nm++] = 2;
            }
        }
        if (r.flags & F_DEFAULT) modes[nm++] = 3;
        if (!(r.flags & (F_MODE | F_DEFAULT))) {
            if (!ro.all_modes) continue;
            modes[nm++] = 0;  // fixed behaviour; the mode argument is ignored by the route
        }
        for (int mi = 0; mi < nm; ++mi) {
            int mode = modes[mi];
            int nsub = ((r.flags & F_LATIN1SUB) && mode != 3) ? 2 : 1;
            for (int si = 0; si < nsub; ++si) {
                pl.in.sub = si == 0;
                ref::Tgt tgt = r.tgt;
                if (tgt == ref::TL1S && !pl.in.sub) tgt = ref::TL1N;
                int eff = mode == 3 ? VF_DEFAULT_MODE : mode;
                if (r.flags & F_FIXED_ASSUME) eff = ref::ASSUME;
                const ref::Expect *e;
                bool identity = (r.flags & F_NOVALIDATE) || senc == ref::EL1;
                if (r.flags & F_NOVALIDATE) e = &eident;
                else {
                    if (!ehave[tgt][eff]) {
                        ref::expect(items, src, senc, tgt, (ref::Mode)eff, ecache[tgt][eff]);
                        ehave[tgt][eff] = true;
                    }
                    e = &ecache[tgt][eff];
                }
                (void)identity;
                static Out out;
                out.reset();
                vf::events_reset();
                vf::g_alloc.fill = 0xCD;
                r.fn(pl.in, mode, out);
                VF_COUNT("ops");
                {
                    static int oc_id[16] = {0};
                    if (!oc_id[out.kind]) oc_id[out.kind] = 1 + vf::counter_id((std::string("out:") + vf::outkind_name(out.kind)).c_str());
                    vf::g_local[oc_id[out.kind] - 1]++;
                }
                if (out.overflow) {
                    fprintf(stderr, "harness: result larger than OUT_CAP\n");
                    _exit(2);
                }
                const char *mname = (r.flags & (F_MODE | F_DEFAULT)) ? mode_name(mode) : "n/a";
                // (only evaluated on failure paths)
#define where (strf("%s%s", family(r.name).c_str(), (r.flags & F_LATIN1SUB) ? (pl.in.sub ? "(sub)" : "(nosub)") : ""))
                auto detail = [&]() {
                    return strf("route %s%s mode=%s%s: %s -> %s; expected %s, observed %s", r.name,
                                (r.flags & F_LATIN1SUB) ? (pl.in.sub ? "(sub)" : "(nosub)") : "", mname,
                                mode == 3 ? " (mode argument omitted)" : "", show_units(senc, src).c_str(),
                                tgt_name(tgt), show_expect(*e).c_str(), show_out(out).c_str());
                };
#if UTF_PROP == 1
                // ---------------- C01: exact reference encoding on well-formed input, in every mode
                VF_COUNT("validated");
                if (e->throws) {
                    if (out.kind != vf::EX_UNICODE) c.fail(strf("c01:%s:latin1-out-of-range-not-raised", where.c_str()), detail());
                } else if (out.kind != vf::OK) {
                    c.fail(strf("c01:%s:%s-on-well-formed-input", where.c_str(), vf::outkind_name(out.kind)), detail());
                } else if (!units_equal(out, *e)) {
                    c.fail(strf("c01:%s:wrong-units", where.c_str()), detail());
                } else if (!out.term) {
                    c.fail(strf("c01:%s:no-terminator", where.c_str()), detail());
                }
                any_nontrivial = true;
#elif UTF_PROP == 2
                // ---------------- C02: accept / reject / repair
                if (e->beyond16) continue;  // C03's business (target cannot represent the value)
                if (eff == ref::ASSUME && e->has_bad && !(r.flags & F_NOVALIDATE)) {
                    VF_COUNT("skipped:assume_valid-on-malformed-input");
                    continue;  // unspecified by the property: neither contents nor the accept/reject decision
                }
                mname = mode_name(eff);  // a call without a mode is reported under the mode it must behave as
                if (out.kind != vf::OK && out.kind != vf::EX_UNICODE) {
                    VF_COUNT("skipped:not-a-validation-outcome");
                    continue;  // assertion etc: reported by C03
                }
                VF_COUNT("validated");
                const char *icls = input_class(*e);
                if (e->has_bad || e->has_tolerated) any_nontrivial = true;
                if (e->throws && out.kind == vf::OK) {
                    c.fail(strf("c02:%s:%s:accepted-invalid", where.c_str(), mname), detail());
                } else if (!e->throws && out.kind == vf::EX_UNICODE) {
                    c.fail(strf("c02:%s:%s:rejected-%s", where.c_str(), mname, icls), detail());
                } else if (out.kind == vf::OK && !e->content_unspecified && !units_equal(out, *e)) {
                    c.fail(strf("c02:%s:%s:wrong-result", where.c_str(), mname), detail());
                } else if (out.kind == vf::OK && eff == ref::SUBST && !e->has_tolerated && tgt_enc(tgt) != ref::EL1 &&
                           (r.flags & F_MODE)) {
                    // repaired output must itself be valid: by the reference decoder and by the library
                    U32V ou(out.u, out.u + out.n);
                    if (!ref::all_good(tgt_enc(tgt), ou))
                        c.fail(strf("c02:%s:%s:repaired-output-not-valid", where.c_str(), mname), detail());
                    else if ((r.flags & F_PRIMARY) && !library_accepts(tgt_enc(tgt), out))
                        c.fail(strf("c02:%s:%s:repaired-output-rejected-by-check_validity", where.c_str(), mname), detail());
                }
#else
                // ---------------- C03: totality and memory safety
                VF_COUNT("validated");
                if (e->has_bad || ro.heap_prefix) any_nontrivial = true;
                if (out.kind != vf::OK && out.kind != vf::EX_UNICODE) {
                    // keep the assertion text (file:line: message) in the signature: it names the root cause
                    c.fail(strf("c03:%s:%s:%s", tgt == ref::T16 && e->beyond16 ? "to-utf16-of-value-above-10FFFF" : where.c_str(),
                                vf::outkind_name(out.kind), out.what),
                           detail());
                    continue;
                }
                if (vf::events_total())
                    c.fail(strf("c03:%s:heap-event:%s", where.c_str(), vf::g_alloc.first_event), detail());
                if (out.kind == vf::OK) {
                    if (!out.term) c.fail(strf("c03:%s:no-terminator", where.c_str()), detail());
                    if (!e->throws && out.n != e->units.size())
                        c.fail(strf("c03:%s:size-differs-from-reference", where.c_str()), detail());
                    if (ro.heap_prefix) {
                        // same call with a different allocator fill: a unit that differs was never written
                        static Out out2;
                        out2.reset();
                        vf::g_alloc.fill = 0x5A;
                        r.fn(pl.in, mode, out2);
                        vf::g_alloc.fill = 0xCD;
                        VF_COUNT("ops");
                        if (!out.same_units(out2))
                            c.fail(strf("c03:%s:result-depends-on-uninitialised-storage", where.c_str()),
                                   detail() + " / second run: " + show_out(out2));
                    }
                }
#endif
#undef where
            }
        }
    }
    if (any_nontrivial) c.nontrivial();
}

// ----------------------------------------------------------------------------- alphabets
static void seq_from(uint64_t idx, const std::vector<uint32_t> &alpha, unsigned L, U32V &out)
{
    static std::vector<unsigned> d;
    vf::seq_decode(idx, alpha.size(), L, d);
    out.clear();
    for (unsigned k : d) out.push_back(alpha[k]);
}
static void seq_exact(uint64_t idx, const std::vector<uint32_t> &alpha, unsigned L, U32V &out)
{
    out.assign(L, 0);
    for (unsigned i = L; i-- > 0;) out[i] = alpha[vf::take(idx, alpha.size())];
}

static void encode_cps(const U32V &cps, ref::Enc e, U32V &units)
{
    units.clear();
    for (uint32_t v : cps) {
        if (e == ref::E8) ref::put8(units, v);
        else if (e == ref::E16) ref::put16(units, v);
        else units.push_back(v);
    }
}

static const std::vector<uint32_t> B = {0x0, 0x1, 0x41, 0x7F, 0x80, 0xFF, 0x100, 0x7FF, 0x800, 0xFFF, 0x1000, 0xD7FF, 0xE000,
                                        0xFFFD, 0xFFFF, 0x10000, 0x10FFFF};
static const std::vector<uint32_t> A8 = {0x00, 0x41, 0x7F, 0x80, 0xBF, 0xC0, 0xC2, 0xDF, 0xE0, 0xED, 0xEF, 0xF0, 0xF4, 0xF7, 0xF8, 0xFF};
static const std::vector<uint32_t> A8CORE = {0x41, 0x80, 0xBF, 0xC2, 0xE0, 0xF0, 0xF4, 0xFF};
static const std::vector<uint32_t> A16 = {0x41, 0xE9, 0x20AC, 0xD7FF, 0xD800, 0xD801, 0xDBFF, 0xDC00, 0xDC01, 0xDFFF, 0xE000, 0xFFFD, 0xFFFF};
static const std::vector<uint32_t> A32 = {0x41, 0xE9, 0x20AC, 0xD800, 0xFFFD, 0x10000, 0x10FFFF, 0x110000, 0x400001, 0x7FFFFFFF,
                                          0x80000000u, 0xFFFFFFFFu};

static uint32_t nth_scalar(uint32_t i) { return i < 0xD800 ? i : i + 0x800; }
enum { NSCALARS = 0x110000 - 0x800 };

// stage helper: all sequences over `alpha` of length <= L (or exactly L) in encoding senc
static void add_seq_stage(vf::Plan &plan, const std::string &name, ref::Enc senc, const std::vector<uint32_t> &alpha, unsigned L,
                          bool exact, RunOpts ro, const U32V &prefix = U32V())
{
    uint64_t count = exact ? vf::ipow(alpha.size(), L) : vf::seq_count(alpha.size(), L);
    auto mk = [=](uint64_t i, U32V &src) {
        U32V s;
        if (exact) seq_exact(i, alpha, L, s);
        else seq_from(i, alpha, L, s);
        src = prefix;
        src.insert(src.end(), s.begin(), s.end());
    };
    plan.stage(name, count,
               [=](uint64_t i, Ctx &c) {
                   U32V src;
                   mk(i, src);
                   run_case(c, senc, src, ro);
               },
               [=](uint64_t i) {
                   U32V src;
                   mk(i, src);
                   return show_units(senc, src);
               });
}

static U32V ascii_prefix(unsigned n)
{
    U32V p;
    for (unsigned i = 0; i < n; ++i) p.push_back('a' + i % 26);
    return p;
}

// ---- position sweep: what a scanner does with a unit must not depend on how much well-formed text it has already
// skipped (block-wise pre-scans, unrolled loops, counters, internal buffers of 16 / 32 / 64 / 256 units)
inline void add_position_sweep(vf::Plan &plan, unsigned K, RunOpts ro, unsigned naligns = 0)
{
    struct Pat {
        ref::Enc enc;
        U32V units;
    };
    static const std::vector<Pat> PATS = {
        {ref::E8, {0x80}}, {ref::E8, {0xC3}}, {ref::E8, {0xE2, 0x82}}, {ref::E8, {0xF0, 0x9F, 0x98}}, {ref::E8, {0xC0, 0xAF}},
        {ref::E8, {0xED, 0xA0, 0x80}}, {ref::E8, {0xF4, 0x90, 0x80, 0x80}}, {ref::E8, {0xFF}}, {ref::E8, {0xE2, 0x28}},
        {ref::E8, {0xC3, 0xA9}}, {ref::E8, {0xE2, 0x82, 0xAC}}, {ref::E8, {0xF0, 0x9F, 0x98, 0x80}},
        {ref::E16, {0xD800}}, {ref::E16, {0xDC00}}, {ref::E16, {0xDC00, 0xD800}}, {ref::E16, {0xD83D, 0xDE00}}, {ref::E16, {0xFFFF}},
        {ref::E32, {0x110000}}, {ref::E32, {0xD800}}, {ref::E32, {0xFFFFFFFFu}}, {ref::E32, {0x1F600}},
        {ref::EL1, {0x41}}, {ref::EL1, {0x80}}, {ref::EL1, {0xFF}}};
    static const unsigned SUF[3] = {0, 1, 7};
    auto mk = [](uint64_t i, unsigned K, ref::Enc &enc) {
        unsigned off = (unsigned)vf::take(i, K + 1), suf = SUF[vf::take(i, 3)], fill = (unsigned)vf::take(i, 2);
        const Pat &p = PATS[vf::take(i, PATS.size())];
        enc = p.enc;
        U32V s;
        // filler: ASCII, or (fill == 1) U+00E9 in the source encoding (two bytes in UTF-8, one byte >= 0x80 in Latin-1)
        for (unsigned k = 0; k < off; ++k) {
            if (fill && p.enc == ref::E8) {
                if (k + 1 < off) {
                    s.push_back(0xC3);
                    s.push_back(0xA9);
                    ++k;
                } else
                    s.push_back('a');
            } else
                s.push_back(fill ? 0xE9 : 'a' + k % 26);
        }
        for (uint32_t u : p.units) s.push_back(u);
        for (unsigned k = 0; k < suf; ++k) s.push_back('z');
        return s;
    };
    if (naligns) {
        // the same inputs with the source array starting 1..naligns units past a 16-byte boundary (pointer + size routes see the
        // caller's alignment; a word-at-a-time path chosen by it must behave like the plain one)
        RunOpts rp = ro;
        rp.primary_only = true;
        plan.stage(strf("position x alignment: the position sweep to %u units with the source array %u different distances past a 16-byte boundary, "
                        "pointer+size routes", K, naligns),
                   (uint64_t)(K + 1) * 3 * 2 * PATS.size() * naligns,
                   [=](uint64_t i, Ctx &c) {
                       unsigned al = 1 + (unsigned)vf::take(i, naligns);
                       ref::Enc enc;
                       U32V s = mk(i, K, enc);
                       placed().align = (int)al;
                       run_case(c, enc, s, rp);
                       placed().align = -1;
                   },
                   [=](uint64_t i) {
                       unsigned al = 1 + (unsigned)vf::take(i, naligns);
                       ref::Enc enc;
                       U32V s = mk(i, K, enc);
                       return show_units(enc, s) + strf(" (source %u units past a 16-byte boundary)", al);
                   });
        return;
    }
    plan.stage(strf("position sweep: %zu well-formed / malformed units behind 0..%u units of filler (ASCII, U+00E9), 0/1/7 units after, all routes",
                    PATS.size(), K),
               (uint64_t)(K + 1) * 3 * 2 * PATS.size(),
               [=](uint64_t i, Ctx &c) {
                   ref::Enc enc;
                   U32V s = mk(i, K, enc);
                   run_case(c, enc, s, ro);
               },
               [=](uint64_t i) {
                   ref::Enc enc;
                   U32V s = mk(i, K, enc);
                   return show_units(enc, s);
               });
}
