// ref_format.h - independent reference for ST::format: a parser of the {...} field grammar and a
// renderer for integer / boolean / text / character arguments.
//
// Written from the property statements C10/C11 and the documented flag list, NOT from the
// library's code:
//   format   := ( "{{" | "}}" | field | any other byte )*          "{{" -> "{", "}}" -> "}"
//   field    := "{" item* "}"
//   item     := "<" | ">"                  alignment
//             | "_" BYTE                   pad character (any byte but the terminator)
//             | "0"                        zero-pad flag
//             | "#" | "+"                  radix prefix / explicit plus sign
//             | "d"|"x"|"X"|"o"|"b"|"c"    integer radix / character class
//             | "f"|"e"|"E"                floating-point notation (no effect on other types)
//             | [1-9][0-9]*                minimum width
//             | "." number                 precision
//             | "&" number                 argument position, counting from 1
// A lone "}" outside a field is an ordinary literal byte.  The end of the string inside a field
// (also directly after "_", "." or "&") is an unterminated specifier; any other byte inside a
// field is a malformed specifier.
//
// `number` is a run of decimal digits.  Because the property (C10) says the implementation reads
// these numbers with strtol ("skip whitespace and signs"), the parser also *recognises* the
// lenient forms (leading white space, one sign, no digits at all) so that it can keep walking
// the string, but marks such a field `strict = false`: its meaning is not specified and C11
// never relies on it.  Likewise a field that sets the same option twice with different values
// (or both "_C" and "0") is parsed with "the later item wins" and marked `overridden`.
//
// Rendering rules (C11 statement):
//   integer : sign ('-', or '+' when requested), radix prefix when '#' and value != 0
//             (0x, 0X, 0b, 0), digits by repeated division in the requested radix and case.
//             Precision is not mentioned for integers => no effect.
//   text / bool : bytes cut to the precision.
//   char class  : UTF-8 of the code point, U+FFFD when the mathematical value of the argument
//                 is outside 0..10FFFF; with width / pad / zero flag the documented contract
//                 assertion applies ("Char formatting does not currently support padding").
//   padding : never truncates; pad character (default ' ') on the side given by the alignment,
//             numbers right / text left by default; with the zero flag on an integer the zeros
//             go between sign+prefix and the digits whatever the alignment (existing tests:
//             "{<08o}" of -1234 is "-0002322"); on text the zero flag only selects '0' as the
//             pad character.
#pragma once
#include <string>
#include <vector>
#include <cstdint>
#include <cstddef>

namespace ref {

typedef __int128 wide_t;
typedef unsigned __int128 uwide_t;

struct FieldSpec {
    char align = 0;  // 0, '<', '>'
    bool has_pad = false;
    unsigned char pad = 0;
    bool zero = false;
    bool hash = false, plus = false;
    char digit_class = 0;  // 0, 'd','x','X','o','b','c'
    char float_class = 0;  // 0, 'f','e','E'
    bool has_width = false;
    long long width = 0;
    bool has_precision = false;
    long long precision = 0;
    bool has_index = false;
    long long index = 0;
    bool strict = true;       // all numbers were plain, non-empty digit runs of sane size
    bool overridden = false;  // meaning depends on "later item wins"
    bool index_strict = true;

    bool padded() const { return has_width || has_pad || zero; }
    bool char_class() const { return digit_class == 'c'; }
};

struct Piece {
    bool is_field = false;
    std::string literal;  // for literal pieces: bytes after brace reduction
    FieldSpec spec;
    size_t begin = 0, end = 0;  // extent in the format string
};

enum ParseStatus { WELL_FORMED, UNTERMINATED, BAD_CHARACTER };

struct Parsed {
    std::vector<Piece> pieces;  // everything before the malformed point
    ParseStatus status = WELL_FORMED;
    size_t error_at = 0;
    size_t n_fields = 0;
};

namespace detail {
inline bool is_space(unsigned char c) { return c == ' ' || c == '\t' || c == '\n' || c == '\v' || c == '\f' || c == '\r'; }
inline bool is_digit(unsigned char c) { return c >= '0' && c <= '9'; }
const long long NUM_CAP = 2000000000LL;  // below INT_MAX; anything larger is outside every bound used

// reads an optional number at f[j...]; advances j past it; plain=false for any lenient form.
// When no digit is present nothing is consumed.
inline long long read_number(const std::string &f, size_t &j, bool &plain)
{
    size_t k = j;
    bool lenient = false;
    while (k < f.size() && is_space((unsigned char)f[k])) {
        ++k;
        lenient = true;
    }
    bool neg = false;
    if (k < f.size() && (f[k] == '+' || f[k] == '-')) {
        neg = f[k] == '-';
        ++k;
        lenient = true;
    }
    if (k >= f.size() || !is_digit((unsigned char)f[k])) {
        plain = false;  // no number at all
        return 0;
    }
    long long v = 0;
    bool capped = false;
    while (k < f.size() && is_digit((unsigned char)f[k])) {
        v = v * 10 + (f[k] - '0');
        if (v > NUM_CAP) {
            v = NUM_CAP;
            capped = true;
        }
        ++k;
    }
    j = k;
    if (lenient || capped) plain = false;
    return neg ? -v : v;
}
}  // namespace detail

// fmt = the bytes of the format string before its terminator
inline Parsed parse(const std::string &fmt)
{
    Parsed out;
    const size_t n = fmt.size();
    size_t i = 0;
    Piece lit;
    lit.begin = 0;
    auto flush = [&](size_t at) {
        if (!lit.literal.empty()) {
            lit.end = at;
            out.pieces.push_back(lit);
        }
        lit = Piece();
        lit.begin = at;
    };
    while (i < n) {
        unsigned char c = fmt[i];
        if (c == '{' && i + 1 < n && fmt[i + 1] == '{') {
            lit.literal += '{';
            i += 2;
            continue;
        }
        if (c == '}') {
            if (i + 1 < n && fmt[i + 1] == '}') i += 2;
            else i += 1;
            lit.literal += '}';
            continue;
        }
        if (c != '{') {
            lit.literal += (char)c;
            ++i;
            continue;
        }
        // a field
        flush(i);
        Piece fld;
        fld.is_field = true;
        fld.begin = i;
        FieldSpec &s = fld.spec;
        size_t j = i + 1;
        bool pad_item_seen = false;
        for (;;) {
            if (j >= n) {
                out.status = UNTERMINATED;
                out.error_at = j;
                return out;
            }
            unsigned char d = fmt[j];
            if (d == '}') {
                ++j;
                break;
            }
            switch (d) {
            case '<':
            case '>':
                if (s.align && s.align != (char)d) s.overridden = true;
                s.align = (char)d;
                ++j;
                break;
            case '_':
                if (j + 1 >= n) {
                    out.status = UNTERMINATED;
                    out.error_at = j + 1;
                    return out;
                }
                if (pad_item_seen && (s.zero || s.pad != (unsigned char)fmt[j + 1])) s.overridden = true;
                pad_item_seen = true;
                s.has_pad = true;
                s.pad = (unsigned char)fmt[j + 1];
                s.zero = false;
                j += 2;
                break;
            case '0':
                if (pad_item_seen && !s.zero) s.overridden = true;
                pad_item_seen = true;
                s.zero = true;
                s.has_pad = false;
                s.pad = 0;
                ++j;
                break;
            case '#':
                s.hash = true;
                ++j;
                break;
            case '+':
                s.plus = true;
                ++j;
                break;
            case 'd':
            case 'x':
            case 'X':
            case 'o':
            case 'b':
            case 'c':
                if (s.digit_class && s.digit_class != (char)d) s.overridden = true;
                s.digit_class = (char)d;
                ++j;
                break;
            case 'f':
            case 'e':
            case 'E':
                if (s.float_class && s.float_class != (char)d) s.overridden = true;
                s.float_class = (char)d;
                ++j;
                break;
            case '1': case '2': case '3': case '4': case '5': case '6': case '7': case '8': case '9': {
                bool plain = true;
                long long v = detail::read_number(fmt, j, plain);
                if (s.has_width && s.width != v) s.overridden = true;
                s.has_width = true;
                s.width = v;
                if (!plain) s.strict = false;
                break;
            }
            case '.':
            case '&': {
                ++j;
                if (j >= n) {
                    out.status = UNTERMINATED;
                    out.error_at = j;
                    return out;
                }
                bool plain = true;
                long long v = detail::read_number(fmt, j, plain);
                if (d == '.') {
                    if (s.has_precision && s.precision != v) s.overridden = true;
                    s.has_precision = true;
                    s.precision = v;
                } else {
                    if (s.has_index && s.index != v) s.overridden = true;
                    s.has_index = true;
                    s.index = v;
                    if (!plain) s.index_strict = false;
                }
                if (!plain) s.strict = false;
                break;
            }
            default:
                out.status = BAD_CHARACTER;
                out.error_at = j;
                return out;
            }
        }
        fld.end = j;
        out.pieces.push_back(fld);
        ++out.n_fields;
        i = j;
        lit.begin = j;
    }
    flush(n);
    return out;
}

// ------------------------------------------------------------------ argument model + renderer
struct Arg {
    enum Kind { INTEGER, BOOLEAN, TEXT, OTHER } kind = OTHER;
    wide_t ival = 0;   // mathematical value (INTEGER), 0/1 (BOOLEAN)
    std::string text;  // TEXT: the UTF-8 bytes of the argument
    static Arg integer(wide_t v)
    {
        Arg a;
        a.kind = INTEGER;
        a.ival = v;
        return a;
    }
    static Arg boolean(bool b)
    {
        Arg a;
        a.kind = BOOLEAN;
        a.ival = b ? 1 : 0;
        return a;
    }
    static Arg str(const std::string &s)
    {
        Arg a;
        a.kind = TEXT;
        a.text = s;
        return a;
    }
    static Arg other() { return Arg(); }
};

inline std::string digits_of(uwide_t mag, unsigned radix, bool upper)
{
    if (mag == 0) return "0";
    std::string rev;
    while (mag != 0) {
        unsigned d = (unsigned)(mag % radix);
        mag = mag / radix;
        char ch;
        if (d < 10) ch = (char)('0' + d);
        else ch = (char)((upper ? 'A' : 'a') + (d - 10));
        rev += ch;
    }
    return std::string(rev.rbegin(), rev.rend());
}

// UTF-8 by range table and division (Unicode D92); cp must be <= 0x10FFFF
inline std::string utf8_of(uint32_t cp)
{
    std::string o;
    if (cp < 0x80) {
        o += (char)cp;
    } else if (cp < 0x800) {
        o += (char)(0xC0 + cp / 64);
        o += (char)(0x80 + cp % 64);
    } else if (cp < 0x10000) {
        o += (char)(0xE0 + cp / 4096);
        o += (char)(0x80 + cp / 64 % 64);
        o += (char)(0x80 + cp % 64);
    } else {
        o += (char)(0xF0 + cp / 262144);
        o += (char)(0x80 + cp / 4096 % 64);
        o += (char)(0x80 + cp / 64 % 64);
        o += (char)(0x80 + cp % 64);
    }
    return o;
}

enum Outcome {
    R_TEXT,             // bytes is the specified rendering
    R_BAD_FORMAT,       // malformed / unterminated specifier
    R_OUT_OF_RANGE,     // argument position not supplied
    R_CONTRACT_ASSERT,  // character class with width / pad
    R_UNSPECIFIED       // a lenient / overridden field or an argument kind this reference does not model
};
inline const char *outcome_name(Outcome o)
{
    static const char *n[] = {"text", "bad_format", "out_of_range", "contract_assert", "unspecified"};
    return n[o];
}

struct Rendered {
    Outcome outcome = R_TEXT;
    std::string bytes;
};

inline std::string pad_to(const std::string &body, const FieldSpec &s, bool text_like)
{
    if (!s.has_width || s.width <= (long long)body.size()) return body;
    size_t fill = (size_t)(s.width - (long long)body.size());
    char pc = s.zero ? '0' : (s.has_pad ? (char)s.pad : ' ');
    bool left = s.align ? (s.align == '<') : text_like;
    if (left) return body + std::string(fill, pc);
    return std::string(fill, pc) + body;
}

// renders one field; sets outcome for the contract assertion
inline Rendered render_field(const FieldSpec &s, const Arg &a)
{
    Rendered r;
    if (a.kind == Arg::OTHER) {
        r.outcome = R_UNSPECIFIED;
        return r;
    }
    if (a.kind == Arg::TEXT || a.kind == Arg::BOOLEAN) {
        std::string t = a.kind == Arg::TEXT ? a.text : std::string(a.ival ? "true" : "false");
        if (s.has_precision && s.precision >= 0 && (long long)t.size() > s.precision) t.resize((size_t)s.precision);
        r.bytes = pad_to(t, s, true);
        return r;
    }
    // INTEGER
    if (s.char_class()) {
        if (s.padded()) {
            r.outcome = R_CONTRACT_ASSERT;
            return r;
        }
        uint32_t cp = (a.ival >= 0 && a.ival <= (wide_t)0x10FFFF) ? (uint32_t)a.ival : 0xFFFDu;
        r.bytes = utf8_of(cp);
        return r;
    }
    unsigned radix = 10;
    bool upper = false;
    const char *prefix = "";
    switch (s.digit_class) {
    case 'x': radix = 16; prefix = "0x"; break;
    case 'X': radix = 16; upper = true; prefix = "0X"; break;
    case 'o': radix = 8; prefix = "0"; break;
    case 'b': radix = 2; prefix = "0b"; break;
    default: break;
    }
    bool neg = a.ival < 0;
    uwide_t mag = neg ? (uwide_t)0 - (uwide_t)a.ival : (uwide_t)a.ival;
    std::string head;
    if (neg) head += '-';
    else if (s.plus) head += '+';
    if (s.hash && a.ival != 0) head += prefix;
    std::string dg = digits_of(mag, radix, upper);
    if (s.zero) {
        long long have = (long long)(head.size() + dg.size());
        std::string fill;
        if (s.has_width && s.width > have) fill.assign((size_t)(s.width - have), '0');
        r.bytes = head + fill + dg;
        return r;
    }
    r.bytes = pad_to(head + dg, s, false);
    return r;
}

// whole-format rendering.  `lenient_ok` = false makes any non-strict / overridden field UNSPECIFIED.
inline Rendered render(const Parsed &p, const std::vector<Arg> &args)
{
    Rendered out;
    size_t next_seq = 0;
    for (const Piece &pc : p.pieces) {
        if (!pc.is_field) {
            out.bytes += pc.literal;
            continue;
        }
        const FieldSpec &s = pc.spec;
        if (!s.strict || s.overridden) {
            out.outcome = R_UNSPECIFIED;
            return out;
        }
        size_t pos;
        if (s.has_index) {
            if (s.index < 1 || (uwide_t)s.index > args.size()) {
                out.outcome = R_OUT_OF_RANGE;
                return out;
            }
            pos = (size_t)(s.index - 1);
        } else {
            if (next_seq >= args.size()) {
                out.outcome = R_OUT_OF_RANGE;
                return out;
            }
            pos = next_seq++;
        }
        Rendered f = render_field(s, args[pos]);
        if (f.outcome != R_TEXT) {
            out.outcome = f.outcome;
            return out;
        }
        out.bytes += f.bytes;
    }
    if (p.status != WELL_FORMED) out.outcome = R_BAD_FORMAT;
    return out;
}

// C10: may the documented contract assertion legitimately fire for this format string and
// argument list?  Walks the fields left to right like a renderer would.  `integral[i]` says
// whether argument i is an integer / character type (the only kinds the character class applies
// to).  Where a field's argument position is not specified (lenient "&" number) every later
// decision is made generously: any integral argument may be the one addressed.
inline bool contract_assert_possible(const Parsed &p, const std::vector<bool> &integral)
{
    bool any_integral = false;
    for (bool b : integral) any_integral = any_integral || b;
    size_t next_seq = 0;
    bool uncertain = false;
    for (const Piece &pc : p.pieces) {
        if (!pc.is_field) continue;
        const FieldSpec &s = pc.spec;
        bool known = false;
        size_t pos = 0;
        if (!uncertain) {
            if (s.has_index) {
                if (!s.index_strict) uncertain = true;
                else if (s.index < 1 || (uwide_t)s.index > integral.size()) return false;  // out_of_range first
                else {
                    pos = (size_t)(s.index - 1);
                    known = true;
                }
            } else {
                if (next_seq >= integral.size()) return false;
                pos = next_seq++;
                known = true;
            }
        }
        if (s.char_class() && s.padded()) {
            if (known ? (bool)integral[pos] : any_integral) return true;
        }
    }
    return false;
}

}  // namespace ref
