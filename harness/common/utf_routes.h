// utf_routes.h - every public route that converts between encodings, as a table of small
// functions with one calling convention, shared by the C01 / C02 / C03 harnesses.
//
// A route reads the input in ONE source encoding (In has the same unit sequence placed, exact
// size, against a guard page; and a NUL-terminated copy for the C-string overloads) and leaves
// the outcome + the produced units in Out.
#pragma once
#include "verif.h"
#include "alloc.h"
#include "ref_utf.h"
#include "st_string.h"

#if WCHAR_MAX < 0x10000
#error "this harness assumes a 32-bit wchar_t (see DESIGN.md section 10)"
#endif

namespace utf {

using ref::Enc;
using ref::Tgt;

struct In {
    const char *p8 = nullptr;       // exact size, ends at guard page
    size_t n8 = 0;
    const char *z8 = nullptr;       // same bytes + NUL (terminator is the last readable byte)
    const char16_t *p16 = nullptr;
    size_t n16 = 0;
    const char16_t *z16 = nullptr;
    const char32_t *p32 = nullptr;
    size_t n32 = 0;
    const char32_t *z32 = nullptr;
    bool sub = true;  // substitute_out_of_range for Latin-1 targets
};

enum { OUT_CAP = 16640 };
struct Out {
    vf::OutKind kind = vf::OK;
    char what[128] = {0};
    uint32_t u[OUT_CAP];
    size_t n = 0;        // units reported by size()
    bool term = true;    // data()[size()] == 0
    bool overflow = false;

    void reset()
    {
        kind = vf::OK;
        what[0] = 0;
        n = 0;
        term = true;
        overflow = false;
    }
    void set(const vf::Outcome &o)
    {
        kind = o.kind;
        strncpy(what, o.what.c_str(), sizeof what - 1);
        what[sizeof what - 1] = 0;
    }
    template <class T>
    void units(const T *p, size_t cnt)
    {
        n = cnt;
        if (cnt > OUT_CAP) {
            overflow = true;
            cnt = OUT_CAP;
        }
        for (size_t i = 0; i < cnt; ++i) {
            if (sizeof(T) == 1) u[i] = (unsigned char)p[i];
            else if (sizeof(T) == 2) u[i] = (uint16_t)p[i];
            else u[i] = (uint32_t)p[i];
        }
    }
    template <class T>
    void put(const ST::buffer<T> &b)
    {
        units(b.data(), b.size());
        term = b.data()[b.size()] == 0;
    }
    void put(const ST::string &s)
    {
        units(s.c_str(), s.size());
        term = s.c_str()[s.size()] == 0;
    }
    template <class T>
    void put(const std::basic_string<T> &s)
    {
        units(s.data(), s.size());
        term = true;
    }
    bool same_units(const Out &o) const
    {
        if (kind != o.kind || n != o.n) return false;
        size_t c = n < OUT_CAP ? n : (size_t)OUT_CAP;
        return memcmp(u, o.u, c * sizeof(uint32_t)) == 0;
    }
};

typedef void (*RouteFn)(const In &, int mode, Out &);

enum RouteFlags {
    F_MODE = 1,       // takes an explicit validation mode (modes 0,1,2)
    F_DEFAULT = 2,    // can be called without a mode (mode 3 = configured default)
    F_CSTR = 4,       // reads a NUL-terminated string: input must not contain a 0 unit
    F_PRIMARY = 8,    // pointer+size form of a free conversion / the main string entry points
    F_FIXED_ASSUME = 16,  // no mode parameter, documented to take the data as valid (literals, to_* members)
    F_NOVALIDATE = 32,    // from_validated family: bytes are stored as they are
    F_LATIN1SUB = 64,     // takes the substitute_out_of_range flag from In::sub
};

struct Route {
    const char *name;
    Enc src;
    Tgt tgt;       // for Latin-1 targets TL1S is listed; the harness switches to TL1N when In::sub is false
    unsigned flags;
    RouteFn fn;
};

inline ST::utf_validation_t MV(int m)
{
    return m == 0 ? ST::assume_valid : m == 1 ? ST::substitute_invalid : ST::check_validity;
}

#define CALLM(f, ...) (mode == 3 ? f(__VA_ARGS__) : f(__VA_ARGS__, MV(mode)))

#define ROUTE(NAME, BODY)                               \
    static void NAME(const In &in, int mode, Out &out)  \
    {                                                   \
        (void)mode;                                     \
        (void)in;                                       \
        out.set(vf::guard([&] { BODY }));               \
    }

#define P8 in.p8, in.n8
#define P16 in.p16, in.n16
#define P32 in.p32, in.n32
#define PW (const wchar_t *)in.p32, in.n32
#define PC8 (const char8_t *)in.p8, in.n8

// a target that already holds a long (heap) value, so that assignment paths release storage
#define OLDVAL "previous value that is long enough to live on the heap"

// ----------------------------------------------------------------------------- from UTF-8
ROUTE(u8_16_ptr, out.put(CALLM(ST::utf8_to_utf16, P8));)
ROUTE(u8_16_buf, ST::char_buffer b(P8); out.put(CALLM(ST::utf8_to_utf16, b));)
ROUTE(u8_16_c8, out.put(CALLM(ST::utf8_to_utf16, PC8));)
ROUTE(u8_32_ptr, out.put(CALLM(ST::utf8_to_utf32, P8));)
ROUTE(u8_32_buf, ST::char_buffer b(P8); out.put(CALLM(ST::utf8_to_utf32, b));)
ROUTE(u8_32_c8, out.put(CALLM(ST::utf8_to_utf32, PC8));)
ROUTE(u8_w_ptr, out.put(CALLM(ST::utf8_to_wchar, P8));)
ROUTE(u8_w_buf, ST::char_buffer b(P8); out.put(CALLM(ST::utf8_to_wchar, b));)
ROUTE(u8_w_c8, out.put(CALLM(ST::utf8_to_wchar, PC8));)
ROUTE(u8_l1_ptr, out.put(mode == 3 ? ST::utf8_to_latin_1(P8) : ST::utf8_to_latin_1(P8, MV(mode), in.sub));)
ROUTE(u8_l1_buf, ST::char_buffer b(P8); out.put(mode == 3 ? ST::utf8_to_latin_1(b) : ST::utf8_to_latin_1(b, MV(mode), in.sub));)
ROUTE(u8_l1_c8, out.put(mode == 3 ? ST::utf8_to_latin_1(PC8) : ST::utf8_to_latin_1(PC8, MV(mode), in.sub));)

ROUTE(u8_s_ctor_ptr, ST::string s = CALLM(ST::string, P8); out.put(s);)
ROUTE(u8_s_ctor_buf, ST::char_buffer b(P8); ST::string s = CALLM(ST::string, b); out.put(s);)
ROUTE(u8_s_ctor_rbuf, ST::char_buffer b(P8); ST::string s = CALLM(ST::string, std::move(b)); out.put(s);)
ROUTE(u8_s_ctor_std, std::string x(P8); ST::string s = CALLM(ST::string, x); out.put(s);)
ROUTE(u8_s_ctor_sv, std::string_view x(P8); ST::string s = CALLM(ST::string, x); out.put(s);)
ROUTE(u8_s_ctor_c8, ST::string s = CALLM(ST::string, PC8); out.put(s);)
ROUTE(u8_s_ctor_u8s, std::u8string x(PC8); ST::string s = CALLM(ST::string, x); out.put(s);)
ROUTE(u8_s_ctor_u8sv, std::u8string_view x(PC8); ST::string s = CALLM(ST::string, x); out.put(s);)
ROUTE(u8_s_ctor_cstr, ST::string s = mode == 3 ? ST::string(in.z8) : ST::string(in.z8, ST_AUTO_SIZE, MV(mode)); out.put(s);)
ROUTE(u8_s_ctor_c8str, ST::string s = mode == 3 ? ST::string((const char8_t *)in.z8) : ST::string((const char8_t *)in.z8, ST_AUTO_SIZE, MV(mode)); out.put(s);)

ROUTE(u8_s_set_ptr, ST::string s(OLDVAL); if (mode == 3) s.set(P8); else s.set(P8, MV(mode)); out.put(s);)
ROUTE(u8_s_set_buf, ST::string s(OLDVAL); ST::char_buffer b(P8); if (mode == 3) s.set(b); else s.set(b, MV(mode)); out.put(s);)
ROUTE(u8_s_set_rbuf, ST::string s(OLDVAL); ST::char_buffer b(P8); if (mode == 3) s.set(std::move(b)); else s.set(std::move(b), MV(mode)); out.put(s);)
ROUTE(u8_s_set_std, ST::string s(OLDVAL); std::string x(P8); if (mode == 3) s.set(x); else s.set(x, MV(mode)); out.put(s);)
ROUTE(u8_s_set_sv, ST::string s(OLDVAL); std::string_view x(P8); if (mode == 3) s.set(x); else s.set(x, MV(mode)); out.put(s);)
ROUTE(u8_s_set_c8, ST::string s(OLDVAL); if (mode == 3) s.set(PC8); else s.set(PC8, MV(mode)); out.put(s);)
ROUTE(u8_s_set_u8s, ST::string s(OLDVAL); std::u8string x(PC8); if (mode == 3) s.set(x); else s.set(x, MV(mode)); out.put(s);)
ROUTE(u8_s_set_u8sv, ST::string s(OLDVAL); std::u8string_view x(PC8); if (mode == 3) s.set(x); else s.set(x, MV(mode)); out.put(s);)
ROUTE(u8_s_set_cstr, ST::string s(OLDVAL); if (mode == 3) s.set(in.z8); else s.set(in.z8, ST_AUTO_SIZE, MV(mode)); out.put(s);)

ROUTE(u8_s_from_ptr, out.put(CALLM(ST::string::from_utf8, P8));)
ROUTE(u8_s_from_buf, ST::char_buffer b(P8); out.put(CALLM(ST::string::from_utf8, b));)
ROUTE(u8_s_from_c8, out.put(CALLM(ST::string::from_utf8, PC8));)
ROUTE(u8_s_from_cstr, out.put(mode == 3 ? ST::string::from_utf8(in.z8) : ST::string::from_utf8(in.z8, ST_AUTO_SIZE, MV(mode)));)
ROUTE(u8_s_from_std, std::string x(P8); out.put(CALLM(ST::string::from_std_string, x));)
ROUTE(u8_s_from_sv, std::string_view x(P8); out.put(CALLM(ST::string::from_std_string, x));)
ROUTE(u8_s_from_u8s, std::u8string x(PC8); out.put(CALLM(ST::string::from_std_string, x));)
ROUTE(u8_s_from_u8sv, std::u8string_view x(PC8); out.put(CALLM(ST::string::from_std_string, x));)

ROUTE(u8_s_asg_cstr, ST::string s(OLDVAL); s = in.z8; out.put(s);)
ROUTE(u8_s_asg_c8str, ST::string s(OLDVAL); s = (const char8_t *)in.z8; out.put(s);)
ROUTE(u8_s_asg_buf, ST::string s(OLDVAL); ST::char_buffer b(P8); s = b; out.put(s);)
ROUTE(u8_s_asg_rbuf, ST::string s(OLDVAL); ST::char_buffer b(P8); s = std::move(b); out.put(s);)
ROUTE(u8_s_asg_std, ST::string s(OLDVAL); std::string x(P8); s = x; out.put(s);)
ROUTE(u8_s_asg_sv, ST::string s(OLDVAL); std::string_view x(P8); s = x; out.put(s);)
ROUTE(u8_s_asg_u8s, ST::string s(OLDVAL); std::u8string x(PC8); s = x; out.put(s);)
ROUTE(u8_s_asg_u8sv, ST::string s(OLDVAL); std::u8string_view x(PC8); s = x; out.put(s);)

// no validation at all: bytes stored as they are
ROUTE(u8_s_validated_ptr, out.put(ST::string::from_validated(P8));)
ROUTE(u8_s_validated_c8, out.put(ST::string::from_validated(PC8));)
ROUTE(u8_s_validated_buf, ST::char_buffer b(P8); out.put(ST::string::from_validated(b));)
ROUTE(u8_s_validated_rbuf, ST::char_buffer b(P8); out.put(ST::string::from_validated(std::move(b)));)
ROUTE(u8_s_setvalidated_ptr, ST::string s(OLDVAL); s.set_validated(P8); out.put(s);)
ROUTE(u8_s_setvalidated_c8, ST::string s(OLDVAL); s.set_validated(PC8); out.put(s);)
ROUTE(u8_s_setvalidated_buf, ST::string s(OLDVAL); ST::char_buffer b(P8); s.set_validated(b); out.put(s);)
ROUTE(u8_s_setvalidated_rbuf, ST::string s(OLDVAL); ST::char_buffer b(P8); s.set_validated(std::move(b)); out.put(s);)
ROUTE(u8_lit_st, using namespace ST::literals; out.put(operator""_st(P8));)
ROUTE(u8_lit_st_c8, using namespace ST::literals; out.put(operator""_st(PC8));)
ROUTE(u8_lit_stbuf, using namespace ST::literals; out.put(operator""_stbuf(P8));)
ROUTE(u8_lit_stbuf_c8, using namespace ST::literals; out.put(operator""_stbuf(PC8));)

// members of a string holding these bytes (stored without validation; members use assume_valid)
ROUTE(s_to_utf8, ST::string s = ST::string::from_validated(P8); out.put(s.to_utf8());)
ROUTE(s_to_utf16, ST::string s = ST::string::from_validated(P8); out.put(s.to_utf16());)
ROUTE(s_to_utf32, ST::string s = ST::string::from_validated(P8); out.put(s.to_utf32());)
ROUTE(s_to_wchar, ST::string s = ST::string::from_validated(P8); out.put(s.to_wchar());)
ROUTE(s_to_latin_1, ST::string s = ST::string::from_validated(P8); out.put(s.to_latin_1(in.sub));)
ROUTE(s_to_buffer_8, ST::string s = ST::string::from_validated(P8); ST::char_buffer r("old", 3); s.to_buffer(r); out.put(r);)
ROUTE(s_to_buffer_l1, ST::string s = ST::string::from_validated(P8); ST::char_buffer r("old", 3); s.to_buffer(r, false, in.sub); out.put(r);)
ROUTE(s_to_buffer_16, ST::string s = ST::string::from_validated(P8); ST::utf16_buffer r(u"old", 3); s.to_buffer(r); out.put(r);)
ROUTE(s_to_buffer_32, ST::string s = ST::string::from_validated(P8); ST::utf32_buffer r(U"old", 3); s.to_buffer(r); out.put(r);)
ROUTE(s_to_buffer_w, ST::string s = ST::string::from_validated(P8); ST::wchar_buffer r(L"old", 3); s.to_buffer(r); out.put(r);)
ROUTE(s_to_std_8, ST::string s = ST::string::from_validated(P8); out.put(s.to_std_string());)
ROUTE(s_to_std_8ref, ST::string s = ST::string::from_validated(P8); std::string r("old"); s.to_std_string(r); out.put(r);)
ROUTE(s_to_std_l1, ST::string s = ST::string::from_validated(P8); out.put(s.to_std_string(false, in.sub));)
ROUTE(s_to_std_l1ref, ST::string s = ST::string::from_validated(P8); std::string r("old"); s.to_std_string(r, false, in.sub); out.put(r);)
ROUTE(s_to_std_w, ST::string s = ST::string::from_validated(P8); out.put(s.to_std_wstring());)
ROUTE(s_to_std_wref, ST::string s = ST::string::from_validated(P8); std::wstring r(L"old"); s.to_std_string(r); out.put(r);)
ROUTE(s_to_std_16, ST::string s = ST::string::from_validated(P8); out.put(s.to_std_u16string());)
ROUTE(s_to_std_16ref, ST::string s = ST::string::from_validated(P8); std::u16string r(u"old"); s.to_std_string(r); out.put(r);)
ROUTE(s_to_std_32, ST::string s = ST::string::from_validated(P8); out.put(s.to_std_u32string());)
ROUTE(s_to_std_32ref, ST::string s = ST::string::from_validated(P8); std::u32string r(U"old"); s.to_std_string(r); out.put(r);)
ROUTE(s_to_std_u8, ST::string s = ST::string::from_validated(P8); out.put(s.to_std_u8string());)
ROUTE(s_to_std_u8ref, ST::string s = ST::string::from_validated(P8); std::u8string r(u8"old"); s.to_std_string(r); out.put(r);)

// ----------------------------------------------------------------------------- from UTF-16
ROUTE(u16_8_ptr, out.put(CALLM(ST::utf16_to_utf8, P16));)
ROUTE(u16_8_buf, ST::utf16_buffer b(P16); out.put(CALLM(ST::utf16_to_utf8, b));)
ROUTE(u16_32_ptr, out.put(CALLM(ST::utf16_to_utf32, P16));)
ROUTE(u16_32_buf, ST::utf16_buffer b(P16); out.put(CALLM(ST::utf16_to_utf32, b));)
ROUTE(u16_w_ptr, out.put(CALLM(ST::utf16_to_wchar, P16));)
ROUTE(u16_w_buf, ST::utf16_buffer b(P16); out.put(CALLM(ST::utf16_to_wchar, b));)
ROUTE(u16_l1_ptr, out.put(mode == 3 ? ST::utf16_to_latin_1(P16) : ST::utf16_to_latin_1(P16, MV(mode), in.sub));)
ROUTE(u16_l1_buf, ST::utf16_buffer b(P16); out.put(mode == 3 ? ST::utf16_to_latin_1(b) : ST::utf16_to_latin_1(b, MV(mode), in.sub));)
ROUTE(u16_s_ctor_ptr, ST::string s = CALLM(ST::string, P16); out.put(s);)
ROUTE(u16_s_ctor_buf, ST::utf16_buffer b(P16); ST::string s = CALLM(ST::string, b); out.put(s);)
ROUTE(u16_s_ctor_std, std::u16string x(P16); ST::string s = CALLM(ST::string, x); out.put(s);)
ROUTE(u16_s_ctor_sv, std::u16string_view x(P16); ST::string s = CALLM(ST::string, x); out.put(s);)
ROUTE(u16_s_ctor_cstr, ST::string s = mode == 3 ? ST::string(in.z16) : ST::string(in.z16, ST_AUTO_SIZE, MV(mode)); out.put(s);)
ROUTE(u16_s_set_ptr, ST::string s(OLDVAL); if (mode == 3) s.set(P16); else s.set(P16, MV(mode)); out.put(s);)
ROUTE(u16_s_set_buf, ST::string s(OLDVAL); ST::utf16_buffer b(P16); if (mode == 3) s.set(b); else s.set(b, MV(mode)); out.put(s);)
ROUTE(u16_s_set_std, ST::string s(OLDVAL); std::u16string x(P16); if (mode == 3) s.set(x); else s.set(x, MV(mode)); out.put(s);)
ROUTE(u16_s_set_sv, ST::string s(OLDVAL); std::u16string_view x(P16); if (mode == 3) s.set(x); else s.set(x, MV(mode)); out.put(s);)
ROUTE(u16_s_set_cstr, ST::string s(OLDVAL); if (mode == 3) s.set(in.z16); else s.set(in.z16, ST_AUTO_SIZE, MV(mode)); out.put(s);)
ROUTE(u16_s_from_ptr, out.put(CALLM(ST::string::from_utf16, P16));)
ROUTE(u16_s_from_buf, ST::utf16_buffer b(P16); out.put(CALLM(ST::string::from_utf16, b));)
ROUTE(u16_s_from_cstr, out.put(mode == 3 ? ST::string::from_utf16(in.z16) : ST::string::from_utf16(in.z16, ST_AUTO_SIZE, MV(mode)));)
ROUTE(u16_s_from_std, std::u16string x(P16); out.put(CALLM(ST::string::from_std_string, x));)
ROUTE(u16_s_from_sv, std::u16string_view x(P16); out.put(CALLM(ST::string::from_std_string, x));)
ROUTE(u16_s_asg_cstr, ST::string s(OLDVAL); s = in.z16; out.put(s);)
ROUTE(u16_s_asg_buf, ST::string s(OLDVAL); ST::utf16_buffer b(P16); s = b; out.put(s);)
ROUTE(u16_s_asg_std, ST::string s(OLDVAL); std::u16string x(P16); s = x; out.put(s);)
ROUTE(u16_s_asg_sv, ST::string s(OLDVAL); std::u16string_view x(P16); s = x; out.put(s);)
ROUTE(u16_lit_st, using namespace ST::literals; out.put(operator""_st(P16));)
ROUTE(u16_lit_stbuf, using namespace ST::literals; out.put(operator""_stbuf(P16));)

// ----------------------------------------------------------------------------- from UTF-32 / wchar_t
ROUTE(u32_8_ptr, out.put(CALLM(ST::utf32_to_utf8, P32));)
ROUTE(u32_8_buf, ST::utf32_buffer b(P32); out.put(CALLM(ST::utf32_to_utf8, b));)
ROUTE(u32_16_ptr, out.put(CALLM(ST::utf32_to_utf16, P32));)
ROUTE(u32_16_buf, ST::utf32_buffer b(P32); out.put(CALLM(ST::utf32_to_utf16, b));)
ROUTE(u32_w_ptr, out.put(CALLM(ST::utf32_to_wchar, P32));)
ROUTE(u32_w_buf, ST::utf32_buffer b(P32); out.put(CALLM(ST::utf32_to_wchar, b));)
ROUTE(u32_l1_ptr, out.put(mode == 3 ? ST::utf32_to_latin_1(P32) : ST::utf32_to_latin_1(P32, MV(mode), in.sub));)
ROUTE(u32_l1_buf, ST::utf32_buffer b(P32); out.put(mode == 3 ? ST::utf32_to_latin_1(b) : ST::utf32_to_latin_1(b, MV(mode), in.sub));)
ROUTE(w_8_ptr, out.put(CALLM(ST::wchar_to_utf8, PW));)
ROUTE(w_8_buf, ST::wchar_buffer b(PW); out.put(CALLM(ST::wchar_to_utf8, b));)
ROUTE(w_16_ptr, out.put(CALLM(ST::wchar_to_utf16, PW));)
ROUTE(w_16_buf, ST::wchar_buffer b(PW); out.put(CALLM(ST::wchar_to_utf16, b));)
ROUTE(w_32_ptr, out.put(CALLM(ST::wchar_to_utf32, PW));)
ROUTE(w_32_buf, ST::wchar_buffer b(PW); out.put(CALLM(ST::wchar_to_utf32, b));)
ROUTE(w_l1_ptr, out.put(mode == 3 ? ST::wchar_to_latin_1(PW) : ST::wchar_to_latin_1(PW, MV(mode), in.sub));)
ROUTE(w_l1_buf, ST::wchar_buffer b(PW); out.put(mode == 3 ? ST::wchar_to_latin_1(b) : ST::wchar_to_latin_1(b, MV(mode), in.sub));)

ROUTE(u32_s_ctor_ptr, ST::string s = CALLM(ST::string, P32); out.put(s);)
ROUTE(u32_s_ctor_buf, ST::utf32_buffer b(P32); ST::string s = CALLM(ST::string, b); out.put(s);)
ROUTE(u32_s_ctor_std, std::u32string x(P32); ST::string s = CALLM(ST::string, x); out.put(s);)
ROUTE(u32_s_ctor_sv, std::u32string_view x(P32); ST::string s = CALLM(ST::string, x); out.put(s);)
ROUTE(u32_s_ctor_cstr, ST::string s = mode == 3 ? ST::string(in.z32) : ST::string(in.z32, ST_AUTO_SIZE, MV(mode)); out.put(s);)
ROUTE(u32_s_set_ptr, ST::string s(OLDVAL); if (mode == 3) s.set(P32); else s.set(P32, MV(mode)); out.put(s);)
ROUTE(u32_s_set_buf, ST::string s(OLDVAL); ST::utf32_buffer b(P32); if (mode == 3) s.set(b); else s.set(b, MV(mode)); out.put(s);)
ROUTE(u32_s_set_std, ST::string s(OLDVAL); std::u32string x(P32); if (mode == 3) s.set(x); else s.set(x, MV(mode)); out.put(s);)
ROUTE(u32_s_set_sv, ST::string s(OLDVAL); std::u32string_view x(P32); if (mode == 3) s.set(x); else s.set(x, MV(mode)); out.put(s);)
ROUTE(u32_s_set_cstr, ST::string s(OLDVAL); if (mode == 3) s.set(in.z32); else s.set(in.z32, ST_AUTO_SIZE, MV(mode)); out.put(s);)
ROUTE(u32_s_from_ptr, out.put(CALLM(ST::string::from_utf32, P32));)
ROUTE(u32_s_from_buf, ST::utf32_buffer b(P32); out.put(CALLM(ST::string::from_utf32, b));)
ROUTE(u32_s_from_cstr, out.put(mode == 3 ? ST::string::from_utf32(in.z32) : ST::string::from_utf32(in.z32, ST_AUTO_SIZE, MV(mode)));)
ROUTE(u32_s_from_std, std::u32string x(P32); out.put(CALLM(ST::string::from_std_string, x));)
ROUTE(u32_s_from_sv, std::u32string_view x(P32); out.put(CALLM(ST::string::from_std_string, x));)
ROUTE(u32_s_asg_cstr, ST::string s(OLDVAL); s = in.z32; out.put(s);)
ROUTE(u32_s_asg_buf, ST::string s(OLDVAL); ST::utf32_buffer b(P32); s = b; out.put(s);)
ROUTE(u32_s_asg_std, ST::string s(OLDVAL); std::u32string x(P32); s = x; out.put(s);)
ROUTE(u32_s_asg_sv, ST::string s(OLDVAL); std::u32string_view x(P32); s = x; out.put(s);)
ROUTE(u32_lit_st, using namespace ST::literals; out.put(operator""_st(P32));)
ROUTE(u32_lit_stbuf, using namespace ST::literals; out.put(operator""_stbuf(P32));)

ROUTE(w_s_ctor_ptr, ST::string s = CALLM(ST::string, PW); out.put(s);)
ROUTE(w_s_ctor_buf, ST::wchar_buffer b(PW); ST::string s = CALLM(ST::string, b); out.put(s);)
ROUTE(w_s_ctor_std, std::wstring x(PW); ST::string s = CALLM(ST::string, x); out.put(s);)
ROUTE(w_s_ctor_sv, std::wstring_view x(PW); ST::string s = CALLM(ST::string, x); out.put(s);)
ROUTE(w_s_ctor_cstr, ST::string s = mode == 3 ? ST::string((const wchar_t *)in.z32) : ST::string((const wchar_t *)in.z32, ST_AUTO_SIZE, MV(mode)); out.put(s);)
ROUTE(w_s_set_ptr, ST::string s(OLDVAL); if (mode == 3) s.set(PW); else s.set(PW, MV(mode)); out.put(s);)
ROUTE(w_s_set_buf, ST::string s(OLDVAL); ST::wchar_buffer b(PW); if (mode == 3) s.set(b); else s.set(b, MV(mode)); out.put(s);)
ROUTE(w_s_set_std, ST::string s(OLDVAL); std::wstring x(PW); if (mode == 3) s.set(x); else s.set(x, MV(mode)); out.put(s);)
ROUTE(w_s_set_sv, ST::string s(OLDVAL); std::wstring_view x(PW); if (mode == 3) s.set(x); else s.set(x, MV(mode)); out.put(s);)
ROUTE(w_s_set_cstr, ST::string s(OLDVAL); if (mode == 3) s.set((const wchar_t *)in.z32); else s.set((const wchar_t *)in.z32, ST_AUTO_SIZE, MV(mode)); out.put(s);)
ROUTE(w_s_from_ptr, out.put(CALLM(ST::string::from_wchar, PW));)
ROUTE(w_s_from_buf, ST::wchar_buffer b(PW); out.put(CALLM(ST::string::from_wchar, b));)
ROUTE(w_s_from_cstr, out.put(mode == 3 ? ST::string::from_wchar((const wchar_t *)in.z32) : ST::string::from_wchar((const wchar_t *)in.z32, ST_AUTO_SIZE, MV(mode)));)
ROUTE(w_s_from_std, std::wstring x(PW); out.put(CALLM(ST::string::from_std_string, x));)
ROUTE(w_s_from_sv, std::wstring_view x(PW); out.put(CALLM(ST::string::from_std_string, x));)
ROUTE(w_s_from_stdw, std::wstring x(PW); out.put(CALLM(ST::string::from_std_wstring, x));)
ROUTE(w_s_from_svw, std::wstring_view x(PW); out.put(CALLM(ST::string::from_std_wstring, x));)
ROUTE(w_s_asg_cstr, ST::string s(OLDVAL); s = (const wchar_t *)in.z32; out.put(s);)
ROUTE(w_s_asg_buf, ST::string s(OLDVAL); ST::wchar_buffer b(PW); s = b; out.put(s);)
ROUTE(w_s_asg_std, ST::string s(OLDVAL); std::wstring x(PW); s = x; out.put(s);)
ROUTE(w_s_asg_sv, ST::string s(OLDVAL); std::wstring_view x(PW); s = x; out.put(s);)
ROUTE(w_lit_st, using namespace ST::literals; out.put(operator""_st(PW));)
ROUTE(w_lit_stbuf, using namespace ST::literals; out.put(operator""_stbuf(PW));)

// ----------------------------------------------------------------------------- from Latin-1 (bytes in p8)
ROUTE(l1_8_ptr, out.put(ST::latin_1_to_utf8(P8));)
ROUTE(l1_8_buf, ST::char_buffer b(P8); out.put(ST::latin_1_to_utf8(b));)
ROUTE(l1_16_ptr, out.put(ST::latin_1_to_utf16(P8));)
ROUTE(l1_16_buf, ST::char_buffer b(P8); out.put(ST::latin_1_to_utf16(b));)
ROUTE(l1_32_ptr, out.put(ST::latin_1_to_utf32(P8));)
ROUTE(l1_32_buf, ST::char_buffer b(P8); out.put(ST::latin_1_to_utf32(b));)
ROUTE(l1_w_ptr, out.put(ST::latin_1_to_wchar(P8));)
ROUTE(l1_w_buf, ST::char_buffer b(P8); out.put(ST::latin_1_to_wchar(b));)
ROUTE(l1_s_from_ptr, out.put(ST::string::from_latin_1(P8));)
ROUTE(l1_s_from_buf, ST::char_buffer b(P8); out.put(ST::string::from_latin_1(b));)
ROUTE(l1_s_from_cstr, out.put(ST::string::from_latin_1(in.z8));)

// ----------------------------------------------------------------------------- the 16-bit wchar_t template variants
// On this platform wchar_t has 32 bits, so the default template argument selects the 32-bit variants above.  The
// variants written for a 16-bit wchar_t (Windows) are reached by naming the template argument: they work on the
// first size() 16-bit units of a wchar_t buffer, exactly what they would see on such a platform.  The same-width
// copies (utf16_to_wchar<char16_t>, wchar_to_utf16<char16_t>) move size() wchar_t units and are left out.
#define PW16 (const wchar_t *)in.p16, in.n16
#define PUT16(expr) do { ST::wchar_buffer r16 = (expr); out.units((const char16_t *)r16.data(), r16.size()); out.term = true; } while (0)
ROUTE(u8_w16_ptr, PUT16(CALLM(ST::utf8_to_wchar<char16_t>, P8));)
ROUTE(u32_w16_ptr, PUT16(CALLM(ST::utf32_to_wchar<char16_t>, P32));)
ROUTE(l1_w16_ptr, PUT16(ST::latin_1_to_wchar<char16_t>(P8));)
ROUTE(w16_8_ptr, out.put(CALLM(ST::wchar_to_utf8<char16_t>, PW16));)
ROUTE(w16_32_ptr, out.put(CALLM(ST::wchar_to_utf32<char16_t>, PW16));)
ROUTE(w16_l1_ptr, out.put(mode == 3 ? ST::wchar_to_latin_1<char16_t>(PW16) : ST::wchar_to_latin_1<char16_t>(PW16, MV(mode), in.sub));)

#define R(fn, src, tgt, flags) Route{#fn, ref::src, ref::tgt, (flags), fn}
#define MD (F_MODE | F_DEFAULT)

static const Route ROUTES[] = {
    // UTF-8 source
    R(u8_16_ptr, E8, T16, MD | F_PRIMARY), R(u8_16_buf, E8, T16, MD), R(u8_16_c8, E8, T16, MD),
    R(u8_32_ptr, E8, T32, MD | F_PRIMARY), R(u8_32_buf, E8, T32, MD), R(u8_32_c8, E8, T32, MD),
    R(u8_w_ptr, E8, T32, MD | F_PRIMARY), R(u8_w_buf, E8, T32, MD), R(u8_w_c8, E8, T32, MD),
    R(u8_l1_ptr, E8, TL1S, MD | F_PRIMARY | F_LATIN1SUB), R(u8_l1_buf, E8, TL1S, MD | F_LATIN1SUB),
    R(u8_l1_c8, E8, TL1S, MD | F_LATIN1SUB),
    R(u8_s_ctor_ptr, E8, T8SAME, MD | F_PRIMARY), R(u8_s_ctor_buf, E8, T8SAME, MD), R(u8_s_ctor_rbuf, E8, T8SAME, MD),
    R(u8_s_ctor_std, E8, T8SAME, MD), R(u8_s_ctor_sv, E8, T8SAME, MD), R(u8_s_ctor_c8, E8, T8SAME, MD),
    R(u8_s_ctor_u8s, E8, T8SAME, MD), R(u8_s_ctor_u8sv, E8, T8SAME, MD), R(u8_s_ctor_cstr, E8, T8SAME, MD | F_CSTR),
    R(u8_s_ctor_c8str, E8, T8SAME, MD | F_CSTR),
    R(u8_s_set_ptr, E8, T8SAME, MD | F_PRIMARY), R(u8_s_set_buf, E8, T8SAME, MD), R(u8_s_set_rbuf, E8, T8SAME, MD),
    R(u8_s_set_std, E8, T8SAME, MD), R(u8_s_set_sv, E8, T8SAME, MD), R(u8_s_set_c8, E8, T8SAME, MD),
    R(u8_s_set_u8s, E8, T8SAME, MD), R(u8_s_set_u8sv, E8, T8SAME, MD), R(u8_s_set_cstr, E8, T8SAME, MD | F_CSTR),
    R(u8_s_from_ptr, E8, T8SAME, MD | F_PRIMARY), R(u8_s_from_buf, E8, T8SAME, MD), R(u8_s_from_c8, E8, T8SAME, MD),
    R(u8_s_from_cstr, E8, T8SAME, MD | F_CSTR), R(u8_s_from_std, E8, T8SAME, MD), R(u8_s_from_sv, E8, T8SAME, MD),
    R(u8_s_from_u8s, E8, T8SAME, MD), R(u8_s_from_u8sv, E8, T8SAME, MD),
    R(u8_s_asg_cstr, E8, T8SAME, F_DEFAULT | F_CSTR), R(u8_s_asg_c8str, E8, T8SAME, F_DEFAULT | F_CSTR),
    R(u8_s_asg_buf, E8, T8SAME, F_DEFAULT), R(u8_s_asg_rbuf, E8, T8SAME, F_DEFAULT), R(u8_s_asg_std, E8, T8SAME, F_DEFAULT),
    R(u8_s_asg_sv, E8, T8SAME, F_DEFAULT), R(u8_s_asg_u8s, E8, T8SAME, F_DEFAULT), R(u8_s_asg_u8sv, E8, T8SAME, F_DEFAULT),
    R(u8_s_validated_ptr, E8, T8SAME, F_NOVALIDATE | F_PRIMARY), R(u8_s_validated_c8, E8, T8SAME, F_NOVALIDATE),
    R(u8_s_validated_buf, E8, T8SAME, F_NOVALIDATE), R(u8_s_validated_rbuf, E8, T8SAME, F_NOVALIDATE),
    R(u8_s_setvalidated_ptr, E8, T8SAME, F_NOVALIDATE), R(u8_s_setvalidated_c8, E8, T8SAME, F_NOVALIDATE),
    R(u8_s_setvalidated_buf, E8, T8SAME, F_NOVALIDATE), R(u8_s_setvalidated_rbuf, E8, T8SAME, F_NOVALIDATE),
    R(u8_lit_st, E8, T8SAME, F_NOVALIDATE), R(u8_lit_st_c8, E8, T8SAME, F_NOVALIDATE),
    R(u8_lit_stbuf, E8, T8SAME, F_NOVALIDATE), R(u8_lit_stbuf_c8, E8, T8SAME, F_NOVALIDATE),
    R(s_to_utf8, E8, T8SAME, F_NOVALIDATE | F_PRIMARY),
    R(s_to_utf16, E8, T16, F_FIXED_ASSUME | F_PRIMARY), R(s_to_utf32, E8, T32, F_FIXED_ASSUME | F_PRIMARY),
    R(s_to_wchar, E8, T32, F_FIXED_ASSUME | F_PRIMARY), R(s_to_latin_1, E8, TL1S, F_FIXED_ASSUME | F_PRIMARY | F_LATIN1SUB),
    R(s_to_buffer_8, E8, T8SAME, F_NOVALIDATE), R(s_to_buffer_l1, E8, TL1S, F_FIXED_ASSUME | F_LATIN1SUB),
    R(s_to_buffer_16, E8, T16, F_FIXED_ASSUME), R(s_to_buffer_32, E8, T32, F_FIXED_ASSUME), R(s_to_buffer_w, E8, T32, F_FIXED_ASSUME),
    R(s_to_std_8, E8, T8SAME, F_NOVALIDATE), R(s_to_std_8ref, E8, T8SAME, F_NOVALIDATE),
    R(s_to_std_l1, E8, TL1S, F_FIXED_ASSUME | F_LATIN1SUB), R(s_to_std_l1ref, E8, TL1S, F_FIXED_ASSUME | F_LATIN1SUB),
    R(s_to_std_w, E8, T32, F_FIXED_ASSUME), R(s_to_std_wref, E8, T32, F_FIXED_ASSUME),
    R(s_to_std_16, E8, T16, F_FIXED_ASSUME), R(s_to_std_16ref, E8, T16, F_FIXED_ASSUME),
    R(s_to_std_32, E8, T32, F_FIXED_ASSUME), R(s_to_std_32ref, E8, T32, F_FIXED_ASSUME),
    R(s_to_std_u8, E8, T8SAME, F_NOVALIDATE), R(s_to_std_u8ref, E8, T8SAME, F_NOVALIDATE),
    // UTF-16 source
    R(u16_8_ptr, E16, T8, MD | F_PRIMARY), R(u16_8_buf, E16, T8, MD),
    R(u16_32_ptr, E16, T32, MD | F_PRIMARY), R(u16_32_buf, E16, T32, MD),
    R(u16_w_ptr, E16, T32, MD | F_PRIMARY), R(u16_w_buf, E16, T32, MD),
    R(u16_l1_ptr, E16, TL1S, MD | F_PRIMARY | F_LATIN1SUB), R(u16_l1_buf, E16, TL1S, MD | F_LATIN1SUB),
    R(u16_s_ctor_ptr, E16, T8, MD | F_PRIMARY), R(u16_s_ctor_buf, E16, T8, MD), R(u16_s_ctor_std, E16, T8, MD),
    R(u16_s_ctor_sv, E16, T8, MD), R(u16_s_ctor_cstr, E16, T8, MD | F_CSTR),
    R(u16_s_set_ptr, E16, T8, MD | F_PRIMARY), R(u16_s_set_buf, E16, T8, MD), R(u16_s_set_std, E16, T8, MD),
    R(u16_s_set_sv, E16, T8, MD), R(u16_s_set_cstr, E16, T8, MD | F_CSTR),
    R(u16_s_from_ptr, E16, T8, MD | F_PRIMARY), R(u16_s_from_buf, E16, T8, MD), R(u16_s_from_cstr, E16, T8, MD | F_CSTR),
    R(u16_s_from_std, E16, T8, MD), R(u16_s_from_sv, E16, T8, MD),
    R(u16_s_asg_cstr, E16, T8, F_DEFAULT | F_CSTR), R(u16_s_asg_buf, E16, T8, F_DEFAULT), R(u16_s_asg_std, E16, T8, F_DEFAULT),
    R(u16_s_asg_sv, E16, T8, F_DEFAULT),
    R(u16_lit_st, E16, T8, F_FIXED_ASSUME), R(u16_lit_stbuf, E16, T16, F_NOVALIDATE),
    // UTF-32 / wchar_t source
    R(u32_8_ptr, E32, T8, MD | F_PRIMARY), R(u32_8_buf, E32, T8, MD),
    R(u32_16_ptr, E32, T16, MD | F_PRIMARY), R(u32_16_buf, E32, T16, MD),
    R(u32_w_ptr, E32, T32, MD | F_PRIMARY), R(u32_w_buf, E32, T32, MD),
    R(u32_l1_ptr, E32, TL1S, MD | F_PRIMARY | F_LATIN1SUB), R(u32_l1_buf, E32, TL1S, MD | F_LATIN1SUB),
    R(w_8_ptr, E32, T8, MD | F_PRIMARY), R(w_8_buf, E32, T8, MD),
    R(w_16_ptr, E32, T16, MD | F_PRIMARY), R(w_16_buf, E32, T16, MD),
    R(w_32_ptr, E32, T32, MD | F_PRIMARY), R(w_32_buf, E32, T32, MD),
    R(w_l1_ptr, E32, TL1S, MD | F_PRIMARY | F_LATIN1SUB), R(w_l1_buf, E32, TL1S, MD | F_LATIN1SUB),
    R(u32_s_ctor_ptr, E32, T8, MD | F_PRIMARY), R(u32_s_ctor_buf, E32, T8, MD), R(u32_s_ctor_std, E32, T8, MD),
    R(u32_s_ctor_sv, E32, T8, MD), R(u32_s_ctor_cstr, E32, T8, MD | F_CSTR),
    R(u32_s_set_ptr, E32, T8, MD | F_PRIMARY), R(u32_s_set_buf, E32, T8, MD), R(u32_s_set_std, E32, T8, MD),
    R(u32_s_set_sv, E32, T8, MD), R(u32_s_set_cstr, E32, T8, MD | F_CSTR),
    R(u32_s_from_ptr, E32, T8, MD | F_PRIMARY), R(u32_s_from_buf, E32, T8, MD), R(u32_s_from_cstr, E32, T8, MD | F_CSTR),
    R(u32_s_from_std, E32, T8, MD), R(u32_s_from_sv, E32, T8, MD),
    R(u32_s_asg_cstr, E32, T8, F_DEFAULT | F_CSTR), R(u32_s_asg_buf, E32, T8, F_DEFAULT), R(u32_s_asg_std, E32, T8, F_DEFAULT),
    R(u32_s_asg_sv, E32, T8, F_DEFAULT),
    R(u32_lit_st, E32, T8, F_FIXED_ASSUME), R(u32_lit_stbuf, E32, T32, F_NOVALIDATE),
    R(w_s_ctor_ptr, E32, T8, MD | F_PRIMARY), R(w_s_ctor_buf, E32, T8, MD), R(w_s_ctor_std, E32, T8, MD),
    R(w_s_ctor_sv, E32, T8, MD), R(w_s_ctor_cstr, E32, T8, MD | F_CSTR),
    R(w_s_set_ptr, E32, T8, MD), R(w_s_set_buf, E32, T8, MD), R(w_s_set_std, E32, T8, MD), R(w_s_set_sv, E32, T8, MD),
    R(w_s_set_cstr, E32, T8, MD | F_CSTR),
    R(w_s_from_ptr, E32, T8, MD | F_PRIMARY), R(w_s_from_buf, E32, T8, MD), R(w_s_from_cstr, E32, T8, MD | F_CSTR),
    R(w_s_from_std, E32, T8, MD), R(w_s_from_sv, E32, T8, MD), R(w_s_from_stdw, E32, T8, MD), R(w_s_from_svw, E32, T8, MD),
    R(w_s_asg_cstr, E32, T8, F_DEFAULT | F_CSTR), R(w_s_asg_buf, E32, T8, F_DEFAULT), R(w_s_asg_std, E32, T8, F_DEFAULT),
    R(w_s_asg_sv, E32, T8, F_DEFAULT),
    R(w_lit_st, E32, T8, F_FIXED_ASSUME), R(w_lit_stbuf, E32, T32, F_NOVALIDATE),
    // Latin-1 source
    R(l1_8_ptr, EL1, T8, F_PRIMARY), R(l1_8_buf, EL1, T8, 0), R(l1_16_ptr, EL1, T16, F_PRIMARY), R(l1_16_buf, EL1, T16, 0),
    R(l1_32_ptr, EL1, T32, F_PRIMARY), R(l1_32_buf, EL1, T32, 0), R(l1_w_ptr, EL1, T32, F_PRIMARY), R(l1_w_buf, EL1, T32, 0),
    R(l1_s_from_ptr, EL1, T8, F_PRIMARY), R(l1_s_from_buf, EL1, T8, 0), R(l1_s_from_cstr, EL1, T8, F_CSTR),
    // 16-bit wchar_t template variants
    R(u8_w16_ptr, E8, T16, MD | F_PRIMARY), R(u32_w16_ptr, E32, T16, MD | F_PRIMARY), R(l1_w16_ptr, EL1, T16, F_PRIMARY),
    R(w16_8_ptr, E16, T8, MD | F_PRIMARY), R(w16_32_ptr, E16, T32, MD | F_PRIMARY),
    R(w16_l1_ptr, E16, TL1S, MD | F_PRIMARY | F_LATIN1SUB),
};
static const size_t NROUTES = sizeof(ROUTES) / sizeof(ROUTES[0]);

#undef R
#undef MD

// ----------------------------------------------------------------------------- input placement
struct Placed {
    vf::GuardArena a8, z8, a16, z16, a32, z32;
    In in;
    int align = -1;  // >= 0: the exact-size copies start `align` units past a 16-byte boundary (see GuardArena::place_aligned)
    void set8(const std::string &s)
    {
        in = In();
        in.p8 = align < 0 ? a8.place(s.data(), s.size()) : a8.place_aligned(s.data(), s.size(), (unsigned)align & 15);
        in.n8 = s.size();
        std::string z = s;
        z.push_back(0);
        in.z8 = z8.place(z.data(), z.size());
    }
    void set16(const std::u16string &s)
    {
        in = In();
        in.p16 = align < 0 ? a16.place(s.data(), s.size()) : a16.place_aligned(s.data(), s.size(), ((unsigned)align * 2) & 15);
        in.n16 = s.size();
        std::u16string z = s;
        z.push_back(0);
        in.z16 = z16.place(z.data(), z.size());
    }
    void set32(const std::u32string &s)
    {
        in = In();
        in.p32 = align < 0 ? a32.place(s.data(), s.size()) : a32.place_aligned(s.data(), s.size(), ((unsigned)align * 4) & 15);
        in.n32 = s.size();
        std::u32string z = s;
        z.push_back(0);
        in.z32 = z32.place(z.data(), z.size());
    }
};

inline const char *mode_name(int m)
{
    static const char *n[] = {"assume_valid", "substitute_invalid", "check_validity", "default"};
    return n[m];
}

}  // namespace utf
