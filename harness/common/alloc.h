// alloc.h - replacement global operator new/delete used by every harness.
//   * every block carries a header (magic, size, id, array flag) and a tail canary
//   * request budget: a single request above `max_request` is refused with bad_alloc and flagged
//   * counting window: number of allocations / largest request since `window_reset()`
//   * fault injection: the k-th allocation (0-based) after `arm_fault(k)` throws std::bad_alloc
//   * tracking mode (histx): registry of blocks allocated while `in_op`; freed tracked blocks are
//     scribbled (ASan-poisoned in sanitizer builds) and kept until `reset()` so that block identity
//     survives the free and stale reads are visible; double / foreign / mismatched frees and
//     canary damage are recorded as events instead of corrupting the heap
#pragma once
#include <cstdlib>
#include <cstring>
#include <cstdint>
#include <new>
#include <vector>
#include <string>
#include <sys/mman.h>
#include <unistd.h>

#if defined(__SANITIZE_ADDRESS__)
#define VF_ASAN 1
#elif defined(__has_feature)
#if __has_feature(address_sanitizer)
#define VF_ASAN 1
#endif
#endif
#ifdef VF_ASAN
#include <sanitizer/asan_interface.h>
#endif

namespace vf {

struct BlockHdr {
    uint64_t magic;
    uint64_t size;
    uint32_t id;
    uint32_t flags;  // bit0 array, bit1 tracked, bit2 dead
    uint64_t pad;
};
static_assert(sizeof(BlockHdr) == 32, "header keeps 16-byte alignment");
constexpr uint64_t HDR_MAGIC = 0x5646414c4c4f4321ull;  // "VFALLOC!"
constexpr uint64_t HDR_DEAD = 0x5646444541444421ull;   // "VFDEADD!"
constexpr uint64_t TAIL_MAGIC = 0xC0FFEE11DEADBEA7ull;

struct Block {
    void *ptr;
    size_t size;
    uint32_t id;
    bool live;
    bool array;
};

struct AllocState {
    // policy
    size_t max_request = size_t(1) << 30;  // 1 GiB
    unsigned char fill = 0xCD;
    bool tracking = false;  // registry active
    bool in_op = false;     // a library operation is executing
    // fault injection
    bool armed = false;
    long fail_at = -1;
    long op_allocs = 0;  // allocations since arm/window reset (while in_op or always if !tracking)
    bool fault_fired = false;
    unsigned handler_calls = 0;
    // window stats
    unsigned long n_allocs = 0, n_frees = 0;
    size_t max_seen = 0;
    bool oversize = false;
    // events
    unsigned double_free = 0, foreign_free = 0, mismatch_free = 0, canary = 0;
    char first_event[96] = {0};
    bool bypass = false;  // harness-internal allocation: no counting, faults or tracking
    // very large requests served lazily (address space only, pages appear when touched): lets a stage hold objects of
    // 2^31 / 2^32 elements without paying for the memory.  Never filled, never kept after free, never in the registry.
    bool huge_lazy = false;
    struct Huge {
        void *ptr;
        size_t size, map_size;
        bool live, array;
        size_t lead = sizeof(BlockHdr);  // bytes between the start of the mapping and ptr
    } huge[16] = {};
    unsigned n_huge = 0;
    // very large requests served from a small window of real memory mapped over and over (a memfd of 16 MiB + 4 KiB shared-mapped
    // at consecutive addresses): a block of several GiB can be written completely while only the window is resident.  Bytes whose
    // offsets are congruent modulo the window share storage; the pages from the last page boundary on (which hold the terminator)
    // are private.  For code whose work is proportional to the size and whose result can be checked at the end of the block.
    bool huge_alias = false;
    static constexpr size_t ALIAS_WINDOW = (size_t(16) << 20) + 4096;
    // one-shot placement: the next array request of at most place_cap bytes is served at exactly this address, without header
    // or canary (to put a library-owned block directly next to a caller-owned one); freeing it is a no-op
    void *place_next = nullptr;
    size_t place_cap = 0;
    void *placed[8] = {};
    unsigned n_placed = 0;
    // registry
    std::vector<Block> *blocks = nullptr;
    uint32_t next_id = 1;
};
inline AllocState g_alloc;

inline void window_reset()
{
    g_alloc.n_allocs = g_alloc.n_frees = 0;
    g_alloc.max_seen = 0;
    g_alloc.oversize = false;
    g_alloc.op_allocs = 0;
    g_alloc.fault_fired = false;
}
inline void arm_fault(long k)
{
    g_alloc.armed = true;
    g_alloc.fail_at = k;
    g_alloc.op_allocs = 0;
    g_alloc.fault_fired = false;
}
inline void disarm_fault() { g_alloc.armed = false; }
inline void events_reset()
{
    g_alloc.double_free = g_alloc.foreign_free = g_alloc.mismatch_free = g_alloc.canary = 0;
    g_alloc.first_event[0] = 0;
}
inline unsigned events_total() { return g_alloc.double_free + g_alloc.foreign_free + g_alloc.mismatch_free + g_alloc.canary; }

inline void note_event(const char *what)
{
    if (!g_alloc.first_event[0]) {
        strncpy(g_alloc.first_event, what, sizeof g_alloc.first_event - 1);
        g_alloc.first_event[sizeof g_alloc.first_event - 1] = 0;
    }
}

struct Bypass {
    bool prev;
    Bypass() : prev(g_alloc.bypass) { g_alloc.bypass = true; }
    ~Bypass() { g_alloc.bypass = prev; }
};

inline void *raw_alloc(size_t n, bool array)
{
    AllocState &a = g_alloc;
    bool counted = !a.bypass && (!a.tracking || a.in_op);
    if (counted) {
        ++a.n_allocs;
        if (n > a.max_seen) a.max_seen = n;
        long k = a.op_allocs++;
        if (a.armed && k == a.fail_at) {
            a.fault_fired = true;
            // as the standard operator new does: an installed new-handler is called and the allocation is tried again (the handler
            // is expected to have released something); without a handler the failure is reported
            std::new_handler h = std::get_new_handler();
            if (!h) throw std::bad_alloc();
            ++a.handler_calls;
            h();
        }
    }
    if (n > a.max_request) {
        a.oversize = true;
        throw std::bad_alloc();
    }
    if (a.place_next && array && !a.bypass && n <= a.place_cap && a.n_placed < 8) {
        void *p = a.place_next;
        a.place_next = nullptr;
        a.placed[a.n_placed++] = p;
        return p;
    }
    if (a.huge_alias && n >= (size_t(64) << 20) && !a.bypass) {
        if (a.n_huge == 16) throw std::bad_alloc();
        static int fd = -1;
        if (fd < 0) {
            fd = memfd_create("vf-alias-window", 0);
            if (fd < 0 || ftruncate(fd, (off_t)AllocState::ALIAS_WINDOW) != 0) throw std::bad_alloc();
        }
        const size_t W = AllocState::ALIAS_WINDOW;
        size_t aliased = n & ~size_t(4095);                      // [0, aliased) shares the window
        size_t tail = ((n + 8 + 4095) & ~size_t(4095)) - aliased;  // private pages: the rest of the data + terminator room
        if (tail == 0) tail = 4096;
        size_t map_size = 4096 + aliased + tail;
        char *raw = (char *)mmap(nullptr, map_size, PROT_READ | PROT_WRITE, MAP_PRIVATE | MAP_ANONYMOUS | MAP_NORESERVE, -1, 0);
        if (raw == (char *)MAP_FAILED) throw std::bad_alloc();
        for (size_t off = 0; off < aliased; off += W) {
            size_t len = aliased - off < W ? aliased - off : W;
            if (mmap(raw + 4096 + off, len, PROT_READ | PROT_WRITE, MAP_SHARED | MAP_FIXED, fd, 0) == MAP_FAILED) {
                munmap(raw, map_size);
                throw std::bad_alloc();
            }
        }
        void *user = raw + 4096;
        memcpy(raw + 4096 + n, &TAIL_MAGIC, 8);  // lies in the private tail
        a.huge[a.n_huge++] = AllocState::Huge{user, n, map_size, true, array, 4096};
        return user;
    }
    if (a.huge_lazy && n >= (size_t(64) << 20) && !a.bypass) {
        if (a.n_huge == 16) {  // drop the records of blocks that are gone
            unsigned k = 0;
            for (unsigned i = 0; i < 16; ++i)
                if (a.huge[i].live) a.huge[k++] = a.huge[i];
            a.n_huge = k;
            if (k == 16) throw std::bad_alloc();
        }
        size_t map_size = (sizeof(BlockHdr) + n + 8 + 4095) & ~size_t(4095);
        char *raw = (char *)mmap(nullptr, map_size, PROT_READ | PROT_WRITE, MAP_PRIVATE | MAP_ANONYMOUS | MAP_NORESERVE, -1, 0);
        if (raw == (char *)MAP_FAILED) throw std::bad_alloc();
        void *user = raw + sizeof(BlockHdr);
        memcpy(raw + sizeof(BlockHdr) + n, &TAIL_MAGIC, 8);
        a.huge[a.n_huge++] = AllocState::Huge{user, n, map_size, true, array, sizeof(BlockHdr)};
        return user;
    }
    char *raw = (char *)malloc(sizeof(BlockHdr) + n + 8);
    if (!raw) throw std::bad_alloc();
    BlockHdr *h = (BlockHdr *)raw;
    h->magic = HDR_MAGIC;
    h->size = n;
    h->flags = array ? 1u : 0u;
    h->id = 0;
    h->pad = 0;
    void *user = raw + sizeof(BlockHdr);
    memset(user, a.fill, n);
    memcpy(raw + sizeof(BlockHdr) + n, &TAIL_MAGIC, 8);
    if (a.tracking && a.in_op && a.blocks && !a.bypass) {
        h->flags |= 2u;
        h->id = a.next_id++;
        Bypass bp;  // registry growth must not recurse into tracking
        a.blocks->push_back(Block{user, n, h->id, true, array});
    }
    return user;
}

inline void raw_free(void *p, bool array)
{
    if (!p) return;
    AllocState &a = g_alloc;
    for (unsigned i = 0; i < a.n_placed; ++i)
        if (a.placed[i] == p) {
            a.placed[i] = a.placed[--a.n_placed];
            ++a.n_frees;
            return;
        }
    int hidx = -1;  // the address of an unmapped block is handed out again by the kernel: a live record wins over dead ones
    for (unsigned i = 0; i < a.n_huge; ++i)
        if (a.huge[i].ptr == p && (hidx < 0 || a.huge[i].live)) hidx = (int)i;
    if (hidx >= 0) {
        {
            AllocState::Huge &hg = a.huge[hidx];
            if (!hg.live) {
                ++a.double_free;
                note_event("double free");
                return;
            }
            ++a.n_frees;
            if (hg.array != array) {
                ++a.mismatch_free;
                note_event(array ? "delete[] of block from scalar new" : "delete of block from new[]");
            }
            uint64_t tail;
            memcpy(&tail, (char *)p + hg.size, 8);
            if (tail != TAIL_MAGIC) {
                ++a.canary;
                note_event("write past the end of a heap block");
            }
            hg.live = false;
            munmap((char *)p - hg.lead, hg.map_size);
            return;
        }
    }
    BlockHdr *h = (BlockHdr *)((char *)p - sizeof(BlockHdr));
#ifdef VF_ASAN
    // a foreign pointer may have no addressable header at all
    if (__asan_address_is_poisoned(h) || __asan_address_is_poisoned((char *)h + 31)) {
        // either one of our dead blocks (poisoned on free) or foreign memory
        bool ours = false;
        if (a.blocks)
            for (auto &b : *a.blocks)
                if (b.ptr == p) {
                    ours = true;
                    break;
                }
        if (ours) {
            ++a.double_free;
            note_event("double free");
        } else {
            ++a.foreign_free;
            note_event("free of pointer not obtained from new");
        }
        return;
    }
#endif
    if (h->magic == HDR_DEAD) {
        ++a.double_free;
        note_event("double free");
        return;
    }
    if (h->magic != HDR_MAGIC) {
        ++a.foreign_free;
        note_event("free of pointer not obtained from new");
        return;
    }
    ++a.n_frees;
    if (((h->flags & 1u) != 0) != array) {
        ++a.mismatch_free;
        note_event(array ? "delete[] of block from scalar new" : "delete of block from new[]");
    }
    uint64_t tail;
    memcpy(&tail, (char *)p + h->size, 8);
    if (tail != TAIL_MAGIC) {
        ++a.canary;
        note_event("write past the end of a heap block");
    }
    if (h->flags & 2u) {
        // tracked: keep the memory, mark dead
        h->magic = HDR_DEAD;
        h->flags |= 4u;
        if (a.blocks)
            for (auto &b : *a.blocks)
                if (b.id == h->id) b.live = false;
        memset(p, 0xDD, h->size);
#ifdef VF_ASAN
        __asan_poison_memory_region(p, h->size);
#endif
        return;
    }
    h->magic = HDR_DEAD;
    free(h);
}

// check tail canaries of all live tracked blocks (detects overruns before the block is freed)
inline bool check_canaries()
{
    if (!g_alloc.blocks) return true;
    for (auto &b : *g_alloc.blocks) {
        if (!b.live) continue;
        uint64_t tail;
        memcpy(&tail, (char *)b.ptr + b.size, 8);
        if (tail != TAIL_MAGIC) {
            ++g_alloc.canary;
            note_event("write past the end of a heap block");
            return false;
        }
    }
    return true;
}

inline void tracking_begin()
{
    if (!g_alloc.blocks) {
        Bypass bp;
        g_alloc.blocks = new std::vector<Block>();
    }
    g_alloc.tracking = true;
    g_alloc.in_op = false;
}
// release every tracked block (dead or alive) and clear the registry
inline void tracking_reset()
{
    bool t = g_alloc.tracking;
    g_alloc.tracking = false;
    if (g_alloc.blocks) {
        for (auto &b : *g_alloc.blocks) {
#ifdef VF_ASAN
            __asan_unpoison_memory_region(b.ptr, b.size);
#endif
            free((char *)b.ptr - sizeof(BlockHdr));
        }
        g_alloc.blocks->clear();
    }
    g_alloc.next_id = 1;
    g_alloc.tracking = t;
}
inline const Block *find_block(const void *p)
{
    if (!g_alloc.blocks) return nullptr;
    for (auto &b : *g_alloc.blocks)
        if ((const char *)p >= (const char *)b.ptr && (const char *)p < (const char *)b.ptr + b.size + 1) return &b;
    return nullptr;
}
inline size_t live_huge()
{
    size_t n = 0;
    for (unsigned i = 0; i < g_alloc.n_huge; ++i) n += g_alloc.huge[i].live;
    return n;
}
inline const AllocState::Huge *find_huge(const void *p)
{
    for (unsigned i = 0; i < g_alloc.n_huge; ++i)
        if (g_alloc.huge[i].live && p == g_alloc.huge[i].ptr) return &g_alloc.huge[i];
    return nullptr;
}
// forget the huge records (unmapping what is still mapped)
inline void huge_reset()
{
    for (unsigned i = 0; i < g_alloc.n_huge; ++i)
        if (g_alloc.huge[i].live) munmap((char *)g_alloc.huge[i].ptr - g_alloc.huge[i].lead, g_alloc.huge[i].map_size);
    g_alloc.n_huge = 0;
}
inline size_t live_tracked()
{
    size_t n = 0;
    if (g_alloc.blocks)
        for (auto &b : *g_alloc.blocks) n += b.live;
    return n;
}

struct OpScope {
    bool prev;
    OpScope() : prev(g_alloc.in_op) { g_alloc.in_op = true; }
    ~OpScope() { g_alloc.in_op = prev; }
};

}  // namespace vf

#ifdef VF_MAIN_TU
void *operator new(size_t n) { return vf::raw_alloc(n, false); }
void *operator new[](size_t n) { return vf::raw_alloc(n, true); }
void *operator new(size_t n, const std::nothrow_t &) noexcept
{
    try {
        return vf::raw_alloc(n, false);
    } catch (...) {
        return nullptr;
    }
}
void *operator new[](size_t n, const std::nothrow_t &) noexcept
{
    try {
        return vf::raw_alloc(n, true);
    } catch (...) {
        return nullptr;
    }
}
void operator delete(void *p) noexcept { vf::raw_free(p, false); }
void operator delete[](void *p) noexcept { vf::raw_free(p, true); }
void operator delete(void *p, size_t) noexcept { vf::raw_free(p, false); }
void operator delete[](void *p, size_t) noexcept { vf::raw_free(p, true); }
void operator delete(void *p, const std::nothrow_t &) noexcept { vf::raw_free(p, false); }
void operator delete[](void *p, const std::nothrow_t &) noexcept { vf::raw_free(p, true); }
#endif
