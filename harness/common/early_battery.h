// early_battery.h - include after the library headers and verif.h (see early.h).
#pragma once
#include <sys/wait.h>
#include <unistd.h>
#include <complex>
#include "st_string.h"
#include "st_format.h"
#include "st_codecs.h"
#include "st_stringstream.h"

#include <locale>
#include <clocale>
#include <cerrno>

namespace vf_early {

// Objects of the types whose default constructor is declared constexpr, defined AFTER the Runner object: they are constant-
// initialised, so a value the Runner's constructor gives them (before main, before any later dynamic initialiser of this
// translation unit) is still there in main().  A constructor that silently stopped being a constant expression would run after
// the Runner and wipe the value.
extern ST::char_buffer g_cb;
extern ST::utf16_buffer g_u16;
extern ST::utf32_buffer g_u32;
extern ST::wchar_buffer g_w;
ST::char_buffer g_cb;
ST::utf16_buffer g_u16;
ST::utf32_buffer g_u32;
ST::wchar_buffer g_w;
inline void give_values()
{
    g_cb = ST::char_buffer("0123456789abcdefghij", 20);
    g_u16 = ST::utf16_buffer(u"0123456789abcdefghij", 20);
    g_u32 = ST::utf32_buffer(U"short", 5);
    g_w = ST::wchar_buffer(L"0123456789abcdefghij", 20);
}
inline std::string globals_problem()
{
    if (g_cb.size() != 20 || memcmp(g_cb.data(), "0123456789abcdefghij", 21) != 0) return "char_buffer";
    if (g_u16.size() != 20 || g_u16.data()[19] != u'j' || g_u16.data()[20] != 0) return "utf16_buffer";
    if (g_u32.size() != 5 || g_u32.data()[4] != U't' || g_u32.data()[5] != 0) return "utf32_buffer";
    if (g_w.size() != 20 || g_w.data()[19] != L'j' || g_w.data()[20] != 0) return "wchar_buffer";
    return "";
}

// a process whose global C++ locale and C locale are not the classic ones: ctype<char> that maps bytes >= 0x80 and the letter
// i in its own way, numpunct with a decimal comma and grouping, LC_ALL = C.UTF-8.  The library documents ASCII-only case
// mapping and takes its number formats from its own code and snprintf/strtod; nothing in the battery may change.
struct HostileCtype : std::ctype<char> {
    char do_toupper(char c) const override { unsigned char u = (unsigned char)c; return u >= 0x80 ? (char)(u ^ 0x20) : c == 'i' ? (char)0xDD : (char)std::ctype<char>::do_toupper(c); }
    char do_tolower(char c) const override { unsigned char u = (unsigned char)c; return u >= 0x80 ? (char)(u ^ 0x20) : c == 'I' ? (char)0xFD : (char)std::ctype<char>::do_tolower(c); }
    const char *do_toupper(char *lo, const char *hi) const override
    {
        for (; lo != hi; ++lo) *lo = do_toupper(*lo);
        return hi;
    }
    const char *do_tolower(char *lo, const char *hi) const override
    {
        for (; lo != hi; ++lo) *lo = do_tolower(*lo);
        return hi;
    }
};
struct HostileNumpunct : std::numpunct<char> {
    char do_decimal_point() const override { return ','; }
    char do_thousands_sep() const override { return '.'; }
    std::string do_grouping() const override { return "\3"; }
};

// One call of every family with inputs that need every entry of every table the library could keep: all 256 byte
// values through the codecs and the case mappings, every digit of every radix, every format class.
// errno as the caller left it: every library call of the battery starts with this value in errno (0 normally, ERANGE in the
// hostile-environment run: a stale error code of an earlier, unrelated call must not influence anything)
inline int &errno_preset()
{
    static int v = 0;
    return v;
}
inline std::string battery()
{
    std::string out;
    auto sec = [&](const char *name) { out += std::string("\n#") + name + ":"; errno = errno_preset(); };
    auto put = [&](const ST::string &s) { out.append(s.c_str(), s.size()); out += '|'; errno = errno_preset(); };
    auto putb = [&](const ST::char_buffer &b) { out.append(b.data(), b.size()); out += '|'; errno = errno_preset(); };
    auto num = [&](long long v) { out += std::to_string(v); out += ','; errno = errno_preset(); };
    try {
        char all[256];
        for (int i = 0; i < 256; ++i) all[i] = (char)i;
        sec("hex");
        ST::string hx = ST::hex_encode(all, 256);
        put(hx);
        putb(ST::hex_decode(hx));
        putb(ST::hex_decode(hx.to_upper()));
        char dec[512];
        num(ST::hex_decode(hx, dec, sizeof dec));
        out.append(dec, 256);
        num(ST::hex_decode(ST_LITERAL("0g"), dec, sizeof dec));
        sec("base64");
        for (int shift = 0; shift < 3; ++shift) {
            ST::string b = ST::base64_encode(all + shift, 256 - shift);
            put(b);
            putb(ST::base64_decode(b));
            num(ST::base64_decode(b, dec, sizeof dec));
            out.append(dec, 256 - shift);
        }
        num(ST::base64_decode(ST_LITERAL("AA=A"), dec, sizeof dec));
        num(ST::base64_decode(ST_LITERAL("A-_A"), dec, sizeof dec));
        sec("case");
        ST::string ascii = ST::string::from_latin_1(all + 1, 255);
        put(ascii.to_upper());
        put(ascii.to_lower());
        for (int i = 1; i < 128; ++i) {
            char a[2] = {(char)i, 0}, b[2] = {(char)(i ^ 0x20), 0};
            ST::string x(a), y(b);
            num(x.compare_i(y));
            num(x.compare(y));
            num(ST::hash_i()(x) == ST::hash_i()(y));
            num(ST_LITERAL("..AbC[x{").find(a, ST::case_insensitive));
            num(ST_LITERAL("..AbC[x{").find_last(a[0], ST::case_insensitive));
        }
        sec("search");
        ST::string t = ST_LITERAL("The quick brown fox, the lazy dog; THE END");
        num(t.find("the"));
        num(t.find("the", ST::case_insensitive));
        num(t.find_last("THE", ST::case_insensitive));
        num(t.contains("LAZY", ST::case_insensitive));
        num(t.starts_with("the", ST::case_insensitive));
        num(t.ends_with("end", ST::case_insensitive));
        put(t.before_first(','));
        put(t.after_last("the", ST::case_insensitive));
        put(t.trim_left("Teh "));
        put(ST_LITERAL(" \t pad \r\n").trim());
        for (auto &p : t.split(' ')) put(p);
        for (auto &p : t.split("THE", 2, ST::case_insensitive)) put(p);
        for (auto &p : t.tokenize(" ,;")) put(p);
        put(t.replace("the", "A", ST::case_insensitive));
        put(t.substr(4, 5));
        put(t.left(3));
        put(t.right(3));
        sec("utf");
        static const char32_t cps[] = {0x41, 0x7F, 0x80, 0x7FF, 0x800, 0xFFFF, 0x10000, 0x10FFFF, 0xE9, 0x20AC, 0};
        ST::string u = ST::string::from_utf32(cps, 10);
        put(u);
        ST::utf16_buffer u16 = u.to_utf16();
        out.append((const char *)u16.data(), u16.size() * 2);
        ST::utf32_buffer u32 = u.to_utf32();
        out.append((const char *)u32.data(), u32.size() * 4);
        ST::wchar_buffer uw = u.to_wchar();
        out.append((const char *)uw.data(), uw.size() * sizeof(wchar_t));
        putb(u.to_latin_1());
        put(ST::string::from_utf16(u16));
        put(ST::string::from_wchar(uw));
        put(ST::string::from_latin_1(all + 128, 128));
        put(ST::string("a\xFFz\xC3(\xE2\x82", ST_AUTO_SIZE, ST::substitute_invalid));
        try {
            (void)ST::string("\xC3(", ST_AUTO_SIZE, ST::check_validity);
            out += "accepted|";
        } catch (const ST::unicode_error &e) {
            out += e.what();
            out += '|';
        }
        sec("ints");
        for (int base = 2; base <= 36; ++base) {
            put(ST::string::from_uint(0xFEDCBA9876543210ull, base));
            put(ST::string::from_int(-1234567890123456789LL, base, true));
            put(ST::string::from_uint(35u * (unsigned)base + 34u, base));
            ST::conversion_result r;
            num(ST::string::from_int(123456789, base).to_int(r, base));
            num(r.ok() * 2 + r.full_match());
        }
        num(ST_LITERAL("0x7fffFFFF").to_int());
        num(ST_LITERAL("-0777").to_long());
        num((long long)ST_LITERAL("18446744073709551615").to_ulong_long(10));
        num(ST_LITERAL("zZ").to_uint(36));
        sec("floats");
        for (double d : {0.0, -0.0, 1.5, 1e100, -2.5e-7, 123456789.0, 1.0 / 3}) {
            put(ST::string::from_double(d));
            put(ST::string::from_double(d, 'e'));
            put(ST::string::from_double(d, 'f'));
            put(ST::string::from_float((float)d));
        }
        num((long long)(ST_LITERAL("3.14159e5").to_double() * 10));
        num((long long)(ST_LITERAL("-2.5").to_float() * 10));
        num(ST_LITERAL("true").to_bool());
        sec("format");
        put(ST::format("{}|{>8}|{<8}|{_*>9}|{x}|{X}|{#x}|{#o}|{#b}|{+}|{05}|{c}|{.3}", 42, "ab", "cd", "mid", 255, 255, 255, 8, 5, 7, -42, 0x20AC, "abcdef"));
        put(ST::format("{}|{.2f}|{e}|{E}|{>12.4}|{}|{}", 1.5, 3.14159, 1e-9, 2.5e10, 2.0 / 3, true, 'x'));
        put(ST::format("{}|{}|{}|{}", L"wé", u"s€", U"l\U0001F600", ST_LITERAL("st")));
        put(ST::format("{&2}{&1}{&2}{{}}", "a", "b"));
        put(ST::format("{}", std::complex<double>(1.5, -2)));
        put(ST::format_latin_1("caf\xE9 {}", 7));
        try {
            (void)ST::format("{z}", 1);
            out += "accepted|";
        } catch (const ST::bad_format &e) {
            out += e.what();
            out += '|';
        }
        sec("stream");
        ST::string_stream ss;
        ss << "text" << 'c' << 42 << -7LL << 3000000000u << 1.25 << 2.5f << ST_LITERAL("st") << L"w" << u"s" << U"l" << true;
        ss.append_char('#', 300);
        put(ss.to_string());
        ss.truncate(4);
        ss << 9;
        put(ss.to_string());
        sec("buffers");
        ST::char_buffer cb(all + 1, 200), cc(cb), cm(std::move(cc));
        num(cb.compare(cm));
        num((long long)cm.size());
        cm.allocate(5, 'z');
        putb(cm);
        ST::string cat = ST_LITERAL("a") + "b" + 'c' + L"d" + u"e" + U"f" + ST_LITERAL("g");
        cat += "h";
        cat += U'€';
        put(cat);
        sec("end");
    } catch (const std::exception &e) {
        out += std::string("\n#exception:") + e.what();
    }
    return out;
}

// in a forked child, so that a crash or an abort during static initialisation becomes a result instead of ending the harness
inline std::string run_in_child(bool hostile_locale, bool at_exit = false);
// the battery once more while the process is being torn down: from an atexit handler registered before the first library call of
// that process, i.e. after the destructors of everything the library created on first use (function-local statics) have run
inline std::string &exit_result()
{
    static std::string r;
    return r;
}
inline int &exit_pipe()
{
    static int fd = -1;
    return fd;
}
inline void exit_handler()
{
    std::string r = "\n#AT-EXIT\n" + battery();
    size_t off = 0;
    while (off < r.size()) {
        ssize_t n = write(exit_pipe(), r.data() + off, r.size() - off);
        if (n <= 0) break;
        off += (size_t)n;
    }
}
inline Runner::Runner()
{
    give_values();
    early_result() = run_in_child(false);
    exit_result() = run_in_child(false, true);
}
inline std::string run_in_child(bool hostile_locale, bool at_exit)
{
    int fd[2];
    if (pipe(fd) != 0) return "machinery:pipe";
    pid_t pid = fork();
    if (pid == 0) {
        close(fd[0]);
        if (hostile_locale) {
            errno_preset() = ERANGE;
            setlocale(LC_ALL, "C.UTF-8");
            std::locale l(std::locale(std::locale::classic(), new HostileCtype), new HostileNumpunct);
            std::locale::global(l);
        }
        if (at_exit) {
            exit_pipe() = fd[1];
            (void)exit_pipe();
            atexit(exit_handler);
        }
        std::string r = battery();
        size_t off = 0;
        while (off < r.size()) {
            ssize_t n = write(fd[1], r.data() + off, r.size() - off);
            if (n <= 0) break;
            off += (size_t)n;
        }
        if (at_exit) exit(0);  // runs the destructors of function-local statics created by the battery, then exit_handler
        _exit(0);
    }
    close(fd[1]);
    std::string r;
    char buf[65536];
    ssize_t n;
    while ((n = read(fd[0], buf, sizeof buf)) > 0) r.append(buf, (size_t)n);
    close(fd[0]);
    int st = 0;
    waitpid(pid, &st, 0);
    if (WIFSIGNALED(st)) r += "\n#crash:signal=" + std::to_string(WTERMSIG(st));
    else if (!WIFEXITED(st) || WEXITSTATUS(st) != 0) r += "\n#exit:" + std::to_string(WEXITSTATUS(st));
    return r;
}

// section in which two battery results first differ
inline std::string first_difference(const std::string &a, const std::string &b)
{
    size_t i = 0, n = a.size() < b.size() ? a.size() : b.size();
    while (i < n && a[i] == b[i]) ++i;
    if (i == a.size() && i == b.size()) return "";
    size_t h = a.rfind("\n#", i);
    if (h == std::string::npos) return "start";
    size_t e = a.find(':', h);
    return a.substr(h + 2, e == std::string::npos ? 12 : e - h - 2);
}

inline void add_stage(vf::Plan &plan)
{
    plan.stage("static initialisation: a battery over every operation family run from the constructor of a global object that is initialised before "
               "anything the library headers define, compared with the same battery run from main()",
               1,
               [](uint64_t, vf::Ctx &c) {
                   std::string now = battery();
                   const std::string &then = early_result();
                   VF_COUNT("validated");
                   std::string d = first_difference(then, now);
                   if (then.find("\n#crash:") != std::string::npos || then.find("\n#exit:") != std::string::npos)
                       c.fail("static-initialisation:library-call-fails-before-main", then.substr(then.rfind("\n#") + 2));
                   else if (!d.empty())
                       c.fail("static-initialisation:result-differs-from-the-same-call-in-main:" + d,
                              vf::strf("library calls made while global objects are being initialised give other results than the same calls later; first "
                                       "difference in section '%s' (%zu vs %zu bytes)", d.c_str(), then.size(), now.size()));
                   if (now.find("\n#exception:") != std::string::npos) c.fail("static-initialisation:battery-throws", now.substr(now.rfind("\n#") + 2));
                   VF_COUNT("validated");
                   std::string gp = globals_problem();
                   if (!gp.empty())
                       c.fail("static-initialisation:constexpr-default-constructor-runs-at-start-up:" + gp,
                              "a namespace-scope " + gp + " that was given a value by an earlier global's constructor is empty in main(): its default "
                              "constructor is declared constexpr but was executed as a dynamic initialiser");
                   c.nontrivial();
               },
               [](uint64_t) { return std::string("battery of library calls before main() and in main()"); });
    plan.stage("process environment: the same battery in a child whose global C++ locale has its own ctype<char> (bytes >= 0x80, dotless/dotted i) and "
               "numpunct (decimal comma, grouping), whose C locale is C.UTF-8 and where errno holds ERANGE before every call, compared with the plain run",
               1,
               [](uint64_t, vf::Ctx &c) {
                   std::string plain = battery(), hostile = run_in_child(true);
                   VF_COUNT("validated");
                   std::string d = first_difference(hostile, plain);
                   if (hostile.find("\n#crash:") != std::string::npos || hostile.find("\n#exit:") != std::string::npos)
                       c.fail("process-environment:library-call-fails", hostile.substr(hostile.rfind("\n#") + 2));
                   else if (!d.empty())
                       c.fail("process-environment:result-depends-on-locale-or-errno:" + d,
                              vf::strf("with a non-classic global locale and a stale errno the battery differs; first difference in section '%s'", d.c_str()));
                   c.nontrivial();
               },
               [](uint64_t) { return std::string("battery under a non-classic global locale"); });
    plan.stage("process exit: the battery run again from an atexit handler registered before the process' first library call (after the destructors of "
               "whatever the library created on first use), compared with its first run in that process",
               1,
               [](uint64_t, vf::Ctx &c) {
                   const std::string &r = exit_result();
                   VF_COUNT("validated");
                   size_t cut = r.find("\n#AT-EXIT\n");
                   if (r.find("\n#crash:") != std::string::npos)
                       c.fail("process-exit:library-call-fails-during-exit", r.substr(r.rfind("\n#") + 2));
                   else if (cut == std::string::npos)
                       c.fail("process-exit:library-call-fails-during-exit", "the exit-time battery produced nothing");
                   else {
                       std::string first = r.substr(0, cut), second = r.substr(cut + 10);
                       size_t e = second.find("\n#exit:");
                       if (e != std::string::npos) second = second.substr(0, e);
                       std::string d = first_difference(second, first);
                       if (!d.empty())
                           c.fail("process-exit:result-differs-during-exit:" + d,
                                  vf::strf("library calls made from an atexit handler give other results than the same calls earlier in the process; first difference in section '%s'", d.c_str()));
                   }
                   c.nontrivial();
               },
               [](uint64_t) { return std::string("battery at process exit"); });
}
}  // namespace vf_early
