// ref_cmpfind.h - reference ordering, ASCII case folding and substring search (C06, C07).
// Written with plain loops over std::string / std::basic_string; nothing here calls the library
// or <cstring> comparison functions.
#pragma once
#include <string>
#include <cstdint>
#include <cstddef>
namespace ref {

typedef unsigned __int128 u128;

inline int sgn(long long v) { return v < 0 ? -1 : (v > 0 ? 1 : 0); }

// ---------------------------------------------------------------- ASCII case
inline bool is_ascii_upper(unsigned char c) { return c >= 65 && c <= 90; }   // 'A'..'Z'
inline bool is_ascii_lower(unsigned char c) { return c >= 97 && c <= 122; }  // 'a'..'z'
inline bool is_ascii_letter(unsigned char c) { return is_ascii_upper(c) || is_ascii_lower(c); }
inline unsigned char fold_byte(unsigned char c) { return is_ascii_upper(c) ? (unsigned char)(c + 32) : c; }
inline unsigned char upper_byte(unsigned char c) { return is_ascii_lower(c) ? (unsigned char)(c - 32) : c; }
inline std::string fold(const std::string &s)
{
    std::string o(s.size(), 0);
    for (size_t i = 0; i < s.size(); ++i) o[i] = (char)fold_byte((unsigned char)s[i]);
    return o;
}
inline std::string upper(const std::string &s)
{
    std::string o(s.size(), 0);
    for (size_t i = 0; i < s.size(); ++i) o[i] = (char)upper_byte((unsigned char)s[i]);
    return o;
}

// ---------------------------------------------------------------- element order
// char: unsigned byte; char16_t / char32_t: unsigned value; wchar_t: the platform's
// char_traits<wchar_t>::lt (DESIGN.md section 10).
template <class T>
inline bool unit_lt(T a, T b)
{
    return std::char_traits<T>::lt(a, b);
}
template <>
inline bool unit_lt<char>(char a, char b)
{
    return (unsigned)(unsigned char)a < (unsigned)(unsigned char)b;
}
template <>
inline bool unit_lt<char16_t>(char16_t a, char16_t b)
{
    return (uint32_t)a < (uint32_t)b;
}
template <>
inline bool unit_lt<char32_t>(char32_t a, char32_t b)
{
    return (uint64_t)a < (uint64_t)b;
}

// lexicographic order of the first min(la,lb) units, then the shorter operand first.
// la / lb are mathematical integers (the static pointer+length compare accepts any size_t).
template <class T>
inline int cmp_units(const T *pa, u128 la, const T *pb, u128 lb)
{
    u128 m = la < lb ? la : lb;
    for (u128 i = 0; i < m; ++i) {
        if (unit_lt<T>(pa[(size_t)i], pb[(size_t)i])) return -1;
        if (unit_lt<T>(pb[(size_t)i], pa[(size_t)i])) return 1;
    }
    if (la < lb) return -1;
    if (la > lb) return 1;
    return 0;
}
template <class T>
inline int cmp_str(const std::basic_string<T> &a, const std::basic_string<T> &b)
{
    return cmp_units<T>(a.data(), a.size(), b.data(), b.size());
}
// first n units of s (n is any size_t)
template <class T>
inline std::basic_string<T> first_n(const std::basic_string<T> &s, size_t n)
{
    return n >= s.size() ? s : s.substr(0, n);
}
// the units up to (not including) the first zero unit: what a C-string pointer denotes
template <class T>
inline std::basic_string<T> c_prefix(const std::basic_string<T> &s)
{
    size_t i = 0;
    while (i < s.size() && s[i] != T(0)) ++i;
    return s.substr(0, i);
}

// ---------------------------------------------------------------- search
inline bool occurs_at(const std::string &hay, const std::string &needle, size_t i, bool ci)
{
    if (i > hay.size() || needle.size() > hay.size() - i) return false;
    for (size_t k = 0; k < needle.size(); ++k) {
        unsigned char h = (unsigned char)hay[i + k], n = (unsigned char)needle[k];
        if (ci) {
            h = fold_byte(h);
            n = fold_byte(n);
        }
        if (h != n) return false;
    }
    return true;
}
// smallest i >= start with an occurrence at i; -1 if none, needle empty, or start >= size
inline long find_first(const std::string &hay, const std::string &needle, size_t start, bool ci)
{
    if (needle.empty() || start >= hay.size()) return -1;
    for (size_t i = start; i < hay.size(); ++i)
        if (occurs_at(hay, needle, i, ci)) return (long)i;
    return -1;
}
// largest i such that [i, i+m) lies inside [0, min(limit, size)); -1 if none or needle empty
inline long find_last(const std::string &hay, const std::string &needle, size_t limit, bool ci)
{
    if (needle.empty()) return -1;
    size_t end = limit < hay.size() ? limit : hay.size();
    long best = -1;
    for (size_t i = 0; i < hay.size(); ++i)
        if (needle.size() <= end && i <= end - needle.size() && occurs_at(hay, needle, i, ci)) best = (long)i;
    return best;
}
inline bool starts_with(const std::string &hay, const std::string &text, bool ci)
{
    if (text.empty()) return true;
    return occurs_at(hay, text, 0, ci);
}
inline bool ends_with(const std::string &hay, const std::string &text, bool ci)
{
    if (text.empty()) return true;
    if (text.size() > hay.size()) return false;
    return occurs_at(hay, text, hay.size() - text.size(), ci);
}

}  // namespace ref
