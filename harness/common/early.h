// early.h - include FIRST in a harness translation unit, before any string_theory header.
//
// The object defined here is the first object with dynamic initialisation in the translation unit, so its constructor
// runs before the dynamic initialisers of anything a library header defines at namespace scope (a table built at start-up,
// a registry, ...).  The constructor (defined in early_battery.h, after the library headers) runs a battery of library
// calls in a forked child and keeps the bytes it produced; a stage later compares them with the same battery run from
// main().  A library that is usable from the initialiser of a global object - as a header-only library with constant
// tables is - gives the same bytes at both times.
#pragma once
#include <string>
namespace vf_early {
struct Runner {
    Runner();
};
inline std::string &early_result()
{
    static std::string r;
    return r;
}
static Runner runner_instance;
}  // namespace vf_early
