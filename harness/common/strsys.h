// strsys.h - the two-string world shared by the C04 (value semantics), C18 (failed operations)
// and C19 (allocation failure) harnesses: real ST::string objects in poison-filled slots, concrete
// state inspection through the tracking allocator, the mutator menu with its std::string model,
// and the battery of const operations with held results.
#pragma once
#include "verif.h"
#include "alloc.h"
#include "histx.h"
#include "st_string.h"
#include "st_format.h"
#include "st_stringstream.h"
#include "st_iostream.h"
#include <memory>

using hx::Fail;
using hx::Fails;
using vf::strf;

typedef ST::string S;
enum { LL = 16 };  // in-object limit of char_buffer

// allocation-fault injection (C19): when g_fault_k >= 0 the k-th allocation made by library code inside the next LIB scope
// throws std::bad_alloc (alloc.h counts only allocations made while an OpScope is active)
static long g_fault_k = -1;
static bool g_fault_fired = false;
static long g_lib_allocs = 0;  // allocations made inside LIB scopes since the last reset (for sizing the fault index space)
struct FaultArm {
    FaultArm()
    {
        if (g_fault_k >= 0 && !g_fault_fired) vf::arm_fault(g_fault_k);
        else {
            vf::g_alloc.op_allocs = 0;
            vf::g_alloc.fault_fired = false;
        }
    }
    ~FaultArm()
    {
        if (vf::g_alloc.fault_fired) g_fault_fired = true;
        g_lib_allocs += vf::g_alloc.op_allocs;
        vf::disarm_fault();
    }
};
#define LIB(stmt)        \
    do {                 \
        vf::OpScope _sc; \
        FaultArm _fa;    \
        stmt;            \
    } while (0)

// ------------------------------------------------------------------------------------------------ values
static std::string value_of(size_t n)
{
    if (n == 5) return std::string("ab\0cd", 5);                // embedded NUL, in-object
    if (n == 4) return "a\xE2\x82\xAC";                       // "a" + EURO SIGN: not representable in Latin-1
    if (n == 24) return " aB,\xE2\x82\xAC,abab::Zqr,MORE,x ";  // 24 bytes, heap-backed, with EURO SIGN
    // mixed case, blanks at both ends, repeated separators, a self-overlapping run ("abab"), "::" twice
    static const std::string body = " aB,ab,abab::Zqr,MORE,ab::xyz,ABAB,tail-of-the-long-value-keeps-going";
    if (n == 0) return "";
    if (n == 1) return "a";
    return body.substr(0, n - 1) + " ";
}
static const size_t SIZES[6] = {0, 1, 15, 16, 17, 40};
static const size_t VALUES[7] = {0, 1, 5, 15, 16, 17, 40};  // values given to constructors / set: SIZES + one with an embedded NUL

// ------------------------------------------------------------------------------------------------ world
struct World {
    hx::Slot<S> slots[2];
    std::string model[2];

    const ST::char_buffer &buf(int s) const { return slots[s].obj()->m_buffer; }
    enum PKind { P_LOCAL, P_HEAP, P_HEAP_SHARED, P_INSLOT, P_FREED, P_OTHER };
    PKind pkind(int s, size_t *bsize = nullptr) const
    {
        const ST::char_buffer &b = buf(s);
        const void *p = b.m_chars;
        if (p == (const void *)b.m_data) return P_LOCAL;
        for (int k = 0; k < 2; ++k)
            if (slots[k].contains(p)) return P_INSLOT;
        const vf::Block *blk = vf::find_block(p);
        if (!blk || p != blk->ptr) return P_OTHER;
        if (bsize) *bsize = blk->size;
        if (!blk->live) return P_FREED;
        for (int k = 0; k < 2; ++k)
            if (k != s && slots[k].alive && (const void *)buf(k).m_chars == p) return P_HEAP_SHARED;
        return P_HEAP;
    }
    static const char *pkname(PKind k)
    {
        static const char *n[] = {"its own in-object array", "a live heap block of its own", "a heap block another string also uses",
                                  "the inside of another string object", "a freed heap block", "foreign memory"};
        return n[k];
    }
    std::string validity(int s) const
    {
        const ST::char_buffer &b = buf(s);
        size_t bs = 0;
        PKind k = pkind(s, &bs);
        if (b.m_size < LL) {
            if (k != P_LOCAL) return strf("size %zu is in-object but data() is %s", b.m_size, pkname(k));
        } else {
            if (k != P_HEAP) return strf("size %zu needs the heap but data() is %s", b.m_size, pkname(k));
            if (bs < b.m_size + 1) return strf("heap block of %zu bytes too small for size %zu", bs, b.m_size);
        }
        if (b.m_chars[b.m_size] != 0) return "no terminating NUL";
        return "";
    }
    std::string content(int s) const { return std::string(buf(s).m_chars, buf(s).m_size); }

    struct Snap {
        bool alive = false;
        std::string raw, heap;
        const void *data = nullptr;
    };
    Snap snap(int s) const
    {
        Snap r;
        r.alive = slots[s].alive;
        if (!r.alive) return r;
        // pointer and size fields bitwise; of the in-object array only what data()[0..size] exposes
        r.raw.assign((const char *)slots[s].mem, sizeof(char *) + sizeof(size_t));
        r.data = buf(s).m_chars;
        PKind pk = pkind(s);
        if (pk == P_HEAP || pk == P_LOCAL) r.heap.assign(buf(s).m_chars, buf(s).m_size + 1);
        return r;
    }
    bool same(const Snap &a, int s) const
    {
        Snap b = snap(s);
        return a.alive == b.alive && a.raw == b.raw && a.heap == b.heap && a.data == b.data;
    }
    size_t owned_blocks() const
    {
        size_t n = 0;
        for (int s = 0; s < 2; ++s)
            if (slots[s].alive && pkind(s) == P_HEAP) ++n;
        return n;
    }
    // is p the start of a live heap block that no live string uses?
    bool private_block(const void *p) const
    {
        const vf::Block *blk = vf::find_block(p);
        if (!blk || !blk->live || blk->ptr != p) return false;
        for (int s = 0; s < 2; ++s)
            if (slots[s].alive && (const void *)buf(s).m_chars == p) return false;
        return true;
    }
};

// ------------------------------------------------------------------------------------------------ held results
struct Held {
    std::string what;      // operation that produced it
    std::string snapshot;  // value right after the call
    virtual ~Held() {}
    // "" if the object's storage is its own (inside the object, or a live block no string uses)
    virtual std::string storage(const World &w) const = 0;
    virtual std::string bytes() const = 0;  // only called when storage() is ""
    virtual void scribble() = 0;            // overwrite contents in place, then reassign
};

template <class T>
static std::string buf_storage(const ST::buffer<T> &b, const World &w, const void *obj_begin, const void *obj_end)
{
    const void *p = b.data();
    if (p >= obj_begin && p < obj_end) return "";
    for (int k = 0; k < 2; ++k)
        if (w.slots[k].contains(p)) return strf("its data() points into string s%d", k);
    const vf::Block *blk = vf::find_block(p);
    if (!blk) return "its data() points to memory that is neither inside it nor a block from new[]";
    if (!blk->live) return "its data() points to a heap block that has been freed";
    if (blk->ptr != p) return "its data() points into the middle of a heap block";
    if (!w.private_block(p)) return "its data() is the heap block of a live string";
    if (blk->size < (b.size() + 1) * sizeof(T)) return "its heap block is smaller than size()+1";
    return "";
}
template <class T>
static std::string buf_bytes(const ST::buffer<T> &b)
{
    return std::string((const char *)b.data(), (b.size() + 1) * sizeof(T));
}

struct HeldString : Held {
    S v;
    std::string storage(const World &w) const override { return buf_storage(v.m_buffer, w, &v, &v + 1); }
    std::string bytes() const override { return buf_bytes(v.m_buffer); }
    void scribble() override
    {
        char *p = const_cast<char *>(v.c_str());
        for (size_t i = 0; i < v.size(); ++i) p[i] = '#';
        LIB(v = ST::string::from_validated("reassigned-result-with-a-long-tail", 34));
        LIB(v.clear());
    }
};
template <class T>
struct HeldBuffer : Held {
    ST::buffer<T> v;
    std::string storage(const World &w) const override { return buf_storage(v, w, &v, &v + 1); }
    std::string bytes() const override { return buf_bytes(v); }
    void scribble() override
    {
        for (size_t i = 0; i < v.size(); ++i) v.data()[i] = (T)'#';
        LIB(v.allocate(20, (T)'!'));
        LIB(v.clear());
    }
};
struct HeldVector : Held {
    std::vector<S> v;
    std::string storage(const World &w) const override
    {
        for (size_t i = 0; i < v.size(); ++i) {
            std::string s = buf_storage(v[i].m_buffer, w, &v[i], &v[i] + 1);
            if (!s.empty()) return strf("element %zu: ", i) + s;
            for (size_t j = 0; j < i; ++j)
                if (v[j].c_str() == v[i].c_str()) return strf("elements %zu and %zu share storage", j, i);
        }
        return "";
    }
    std::string bytes() const override
    {
        std::string o;
        for (auto &e : v) o += strf("[%zu]", e.size()) + buf_bytes(e.m_buffer);
        return o;
    }
    void scribble() override
    {
        for (auto &e : v) {
            char *p = const_cast<char *>(e.c_str());
            for (size_t i = 0; i < e.size(); ++i) p[i] = '#';
        }
        LIB(v.clear());
    }
};
template <class T>
struct HeldStd : Held {
    std::basic_string<T> v;
    std::string storage(const World &) const override { return ""; }
    std::string bytes() const override { return std::string((const char *)v.data(), v.size() * sizeof(T)); }
    void scribble() override
    {
        for (auto &c : v) c = (T)'#';
        v.clear();
    }
};

typedef std::function<Held *(const S &a, const S &b)> Producer;
struct ConstOp {
    std::string name;
    Producer make;
};

template <class F>
static Held *hs(F f)
{
    std::unique_ptr<HeldString> h(new HeldString());
    LIB(h->v = f());
    return h.release();
}
template <class T, class F>
static Held *hb(F f)
{
    std::unique_ptr<HeldBuffer<T>> h(new HeldBuffer<T>());
    LIB(h->v = f());
    return h.release();
}
template <class F>
static Held *hv(F f)
{
    std::unique_ptr<HeldVector> h(new HeldVector());
    LIB(h->v = f());
    return h.release();
}
template <class T, class F>
static Held *hstd(F f)
{
    std::unique_ptr<HeldStd<T>> h(new HeldStd<T>());
    LIB(h->v = f());
    return h.release();
}

static std::vector<ConstOp> g_ops;
#define OPS(NAME, EXPR) g_ops.push_back(ConstOp{NAME, [](const S &a, const S &b) -> Held * { (void)a; (void)b; return hs([&] { return EXPR; }); }})
#define OPB(T, NAME, EXPR) g_ops.push_back(ConstOp{NAME, [](const S &a, const S &b) -> Held * { (void)a; (void)b; return hb<T>([&] { return EXPR; }); }})
#define OPV(NAME, EXPR) g_ops.push_back(ConstOp{NAME, [](const S &a, const S &b) -> Held * { (void)a; (void)b; return hv([&] { return EXPR; }); }})
#define OPSTD(T, NAME, EXPR) g_ops.push_back(ConstOp{NAME, [](const S &a, const S &b) -> Held * { (void)a; (void)b; return hstd<T>([&] { return EXPR; }); }})

static void build_const_ops()
{
    OPS("S(a)", S(a));
    OPS("a.substr(0)", a.substr(0));
    OPS("a.substr(0,size)", a.substr(0, a.size()));
    OPS("a.substr(0,size+9)", a.substr(0, a.size() + 9));
    OPS("a.substr(-size)", a.substr(-(ST_ssize_t)a.size()));
    OPS("a.substr(1)", a.substr(1));
    OPS("a.substr(2,3)", a.substr(2, 3));
    OPS("a.substr(-2)", a.substr(-2));
    OPS("a.left(size)", a.left(a.size()));
    OPS("a.left(size+5)", a.left(a.size() + 5));
    OPS("a.left(2)", a.left(2));
    OPS("a.right(size)", a.right(a.size()));
    OPS("a.right(3)", a.right(3));
    OPS("a.trim()", a.trim());
    OPS("a.trim_left()", a.trim_left());
    OPS("a.trim_right()", a.trim_right());
    OPS("a.trim(\"#\")", a.trim("#"));
    OPS("a.trim_left(\"#\")", a.trim_left("#"));
    OPS("a.trim_right(\"#\")", a.trim_right("#"));
    OPS("a.to_upper()", a.to_upper());
    OPS("a.to_lower()", a.to_lower());
    OPS("a.replace(\"ab\",\"XY\")", a.replace("ab", "XY"));
    OPS("a.replace(\"zz\",\"q\")", a.replace("zz", "q"));
    OPS("a.replace(\"\",\"x\")", a.replace("", "x"));
    OPS("a.replace(a,a)", a.replace(a, a));
    OPS("a.replace(a,b)", a.replace(a, b));
    OPS("a.replace(b,a)", a.replace(b, a));
    OPS("a.replace(\"AB\",\"ab\",ci)", a.replace("AB", "ab", ST::case_insensitive));
    OPS("a.before_first(',')", a.before_first(','));
    OPS("a.before_first(\"::\")", a.before_first("::"));
    OPS("a.before_first(S(\"nope\"))", a.before_first(S("nope")));
    OPS("a.before_first('#')", a.before_first('#'));
    OPS("a.after_first(',')", a.after_first(','));
    OPS("a.after_first(\"::\")", a.after_first("::"));
    OPS("a.before_last(',')", a.before_last(','));
    OPS("a.before_last(S(\"::\"))", a.before_last(S("::")));
    OPS("a.after_last(',')", a.after_last(','));
    OPS("a.after_last(\"nope\")", a.after_last("nope"));
    OPS("a.after_last('#')", a.after_last('#'));
    OPS("a.after_last(S(\"nope\"))", a.after_last(S("nope")));
    OPS("a+b", a + b);
    OPS("a+a", a + a);
    OPS("a+\"x\"", a + "x");
    OPS("a+\"\"", a + "");
    OPS("\"x\"+a", "x" + a);
    OPS("\"\"+a", "" + a);
    OPS("a+S()", a + S());
    OPS("S()+a", S() + a);
    OPS("a+U'e-acute'", a + U'é');
    OPS("U'e-acute'+a", U'é' + a);
    OPS("a+'c'", a + 'c');
    OPS("a+L\"w\"", a + L"w");
    OPS("a+u\"w\"", a + u"w");
    OPS("a+U\"w\"", a + U"w");
    OPS("a+u'x'", a + u'x');
    OPS("a+L'x'", a + L'x');
    OPS("u'e-acute'+a", u'\u00e9' + a);
    OPS("L'x'+a", L'x' + a);
    OPS("'c'+a", 'c' + a);
    OPS("L\"w\"+a", L"w" + a);
    OPS("u\"w\"+a", u"w" + a);
    OPS("U\"w\"+a", U"w" + a);
    OPS("u8\"w\"+a", u8"w" + a);
    OPS("a+u8\"w\"", a + u8"w");
    OPS("S::from_path(a.to_path())", S::from_path(a.to_path()));
    OPS("format({},a.to_path())", ST::format("{}", a.to_path()));
    OPS("(stream<<a.to_path()).to_string()", [&] {
        ST::string_stream ss;
        ss << a.to_path();
        return ss.to_string();
    }());
    OPS("S(a.c_str(\"sub\"))", S(a.c_str("sub")));
    OPS("S(a.u8_str(u8\"sub\"))", S(a.u8_str(u8"sub")));
    OPS("format({},a)", ST::format("{}", a));
    OPS("format({}{},a,b)", ST::format("{}{}", a, b));
    OPS("format({>45},a)", ST::format("{>45}", a));
    OPS("format({.3},a)", ST::format("{.3}", a));
    // the same calls with the string as a *non-const lvalue* (forwarding references must not move from it)
#define MA const_cast<S &>(a)
#define MB const_cast<S &>(b)
    OPS("format({},lvalue a)", ST::format("{}", MA));
    OPS("format({}{},lvalue a,lvalue b)", ST::format("{}{}", MA, MB));
    OPS("format(check_validity,{},lvalue a)", ST::format(ST::check_validity, "{}", MA));
    OPS("format_latin_1({},lvalue a)", ST::format_latin_1("{}", MA));
    OPS("\"{}\"_stfmt(lvalue a)", ST::literals::operator""_stfmt("{}", 2)(MA));
    OPS("\"{}|{}\"_stfmt(lvalue a,lvalue a)", ST::literals::operator""_stfmt("{}|{}", 5)(MA, MA));
    OPS("\"{}\"_stfmt(const a)", ST::literals::operator""_stfmt("{}", 2)(a));
    OPS("lvalue a+lvalue b", MA + MB);
    OPS("S(lvalue a)", S(MA));
    OPS("lvalue a.replace(lvalue a,lvalue b)", MA.replace(MA, MB));
    OPS("(stream<<lvalue a).to_string()", [&] {
        ST::string_stream ss;
        ss << MA;
        return ss.to_string();
    }());
    OPSTD(char, "writef(ostringstream,{},lvalue a)", [&] {
        std::ostringstream os;
        ST::writef(os, "{}", MA);
        return os.str();
    }());
    OPSTD(char, "ostringstream<<lvalue a", [&] {
        std::ostringstream os;
        os << MA;
        return os.str();
    }());
#undef MA
#undef MB
    OPS("(stream<<a).to_string()", [&] {
        ST::string_stream ss;
        ss << a;
        return ss.to_string();
    }());
    OPS("from_validated(a.to_utf8())", S::from_validated(a.to_utf8()));
    OPS("S(a.view())", S(a.view()));
    OPS("S(a.to_std_string())", S(a.to_std_string()));
    OPS("S(a.c_str())", S(a.c_str()));
    OPS("S::from_utf16(a.to_utf16())", S::from_utf16(a.to_utf16()));
    OPB(char, "a.to_utf8()", a.to_utf8());
    OPB(char16_t, "a.to_utf16()", a.to_utf16());
    OPB(char32_t, "a.to_utf32()", a.to_utf32());
    OPB(wchar_t, "a.to_wchar()", a.to_wchar());
    OPB(char, "a.to_latin_1()", a.to_latin_1());
    OPB(char, "a.to_buffer(char_buffer&)", [&] {
        ST::char_buffer r("old-content-long-enough-for-heap", 32);
        a.to_buffer(r);
        return r;
    }());
    OPB(char16_t, "a.to_buffer(utf16_buffer&)", [&] {
        ST::utf16_buffer r;
        a.to_buffer(r);
        return r;
    }());
    OPV("a.split(',')", a.split(','));
    OPV("a.split(\"::\")", a.split("::"));
    OPV("a.split(b)", a.split(b));
    OPV("a.split(a)", a.split(a));
    OPV("a.split(\"nope\")", a.split("nope"));
    OPV("a.split(S(\"nope\"))", a.split(S("nope")));
    OPV("a.split(',',1)", a.split(',', 1));
    OPV("a.split(',',0)", a.split(',', 0));
    OPV("a.tokenize()", a.tokenize());
    OPV("a.tokenize(\",:\")", a.tokenize(",:"));
    OPV("a.tokenize(\"#\")", a.tokenize("#"));
    OPSTD(char, "a.to_std_string()", a.to_std_string());
    OPSTD(char, "a.to_std_string(latin1)", a.to_std_string(false));
    OPSTD(wchar_t, "a.to_std_wstring()", a.to_std_wstring());
    OPSTD(char16_t, "a.to_std_u16string()", a.to_std_u16string());
    OPSTD(char32_t, "a.to_std_u32string()", a.to_std_u32string());
    OPSTD(char8_t, "a.to_std_u8string()", a.to_std_u8string());
    OPSTD(char, "ostringstream<<a", [&] {
        std::ostringstream os;
        os << a;
        return os.str();
    }());
    OPSTD(wchar_t, "wostringstream<<a", [&] {
        std::wostringstream os;
        os << a;
        return os.str();
    }());
}

// scalar-valued const operations: only "the source does not change" is at stake
static uint64_t scalar_reads(const S &a, const S &b)
{
    uint64_t acc = 0;
    ST::conversion_result cr;
    acc += a.find('a') + a.find("ab") + a.find(b) + a.find(a) + a.find(2, 'a') + a.find(1, "ab") + a.find("AB", ST::case_insensitive);
    acc += a.find_last('a') + a.find_last("ab") + a.find_last(b) + a.find_last(a) + a.find_last(3, 'b') + a.find_last(5, "ab");
    acc += a.contains('Z') + a.contains("::") + a.contains(b) + a.contains(a);
    acc += a.starts_with(b) + a.starts_with(a) + a.starts_with(" a") + a.ends_with(b) + a.ends_with(a) + a.ends_with(" ");
    acc += a.compare(b) + a.compare(a) + a.compare("x") + a.compare_i(b) + a.compare_n(b, 3) + a.compare_ni(b, 3) + a.compare_n("ab", 1);
    acc += (a == b) + (a != b) + (a < b) + (a == a) + (a == "a") + (a != "a");
    acc += ST::hash()(a) + ST::hash_i()(a) + std::hash<ST::string>()(a) + ST::less_i()(a, b) + ST::equal_i()(a, b);
    acc += a.to_int() + a.to_uint() + a.to_long(cr, 16) + a.to_ulong_long(10) + (uint64_t)a.to_double() + (uint64_t)a.to_float(cr) + a.to_bool();
    acc += a.to_bool(cr) + (a == ST::null) + (a != ST::null) + (ST::null == a) + (ST::null != a);
    acc += a.size() + a.empty() + (uintptr_t)a.c_str() % 7 + (uintptr_t)a.data() % 7 + (uintptr_t)a.u8_str() % 7 + (uintptr_t)a.c_str("sub") % 7;
    if (!a.empty()) acc += a.at(0) + a[0] + a.front() + a.back() + a.at(a.size() - 1);
    for (auto it = a.begin(); it != a.end(); ++it) acc += *it;
    for (auto it = a.rbegin(); it != a.rend(); ++it) acc += *it;
    acc += a.view().size() + a.view(0, a.size()).size();
    try {
        (void)a.at(a.size());
    } catch (const std::out_of_range &) {
        ++acc;
    }
    return acc;
}

// ------------------------------------------------------------------------------------------------ system
enum MKind {
    M_CONSTRUCT, M_COPY_CTOR, M_MOVE_CTOR, M_DTOR, M_ASSIGN, M_ASSIGN_SELF, M_MOVE_ASSIGN, M_SET_CSTR, M_ASSIGN_CSTR, M_SET_BUFFER,
    M_APPEND, M_APPEND_SELF, M_APPEND_CSTR, M_APPEND_CHAR, M_REPLACE_SELF, M_SUBSTR_SELF, M_TRIM_SELF, M_UPPER_SELF, M_CLEAR, M_SET_STRING, M_SET_MOVE,
    // the argument is a raw pointer / view into the target's own storage: it must be consumed as a value
    M_ASSIGN_OWN_CSTR, M_SET_OWN_TAIL, M_ASSIGN_OWN_HEAD_VIEW, M_SET_OWN_TAIL_VIEW, M_APPEND_OWN_CSTR, M_SET_OWN_PTRLEN,
    M_SET_OWN_PTRLEN_SUBST, M_SET_OWN_TAIL_ASSUME, M_SET_OWN_VIEW_SUBST,
    // the target is its own argument / the source denotes no text at all
    M_SET_SELF, M_ASSIGN_NULL_VIEW, M_SET_NULL_CSTR, M_ASSIGN_NULL_U8VIEW,
    M_APPEND_WIDE_TEXT, M_APPEND_WIDE_CHARS, M_ASSIGN_NULL_T, M_ASSIGN_PATH
};
struct MOp {
    MKind k;
    int i, j;
    size_t n;
};

// a cut position inside UTF-8 text, moved forward / backward to a character boundary
static size_t own_cut(const std::string &m, size_t k)
{
    while (k < m.size() && (static_cast<unsigned char>(m[k]) & 0xC0) == 0x80) ++k;
    return k;
}

struct StrSys : World {
    std::vector<MOp> ops;
    std::string nm;
    size_t init_size;
    size_t cap = 90;
    uint64_t n_reads = 0, n_checked = 0, n_held = 0, n_refused = 0;
    std::vector<std::string> sample_list;

    StrSys(size_t init) : init_size(init)
    {
        nm = strf("two strings, s0 starts with %zu bytes", init);
        for (int i = 0; i < 2; ++i) {
            int j = 1 - i;
            for (size_t n : VALUES) ops.push_back(MOp{M_CONSTRUCT, i, -1, n});
            ops.push_back(MOp{M_COPY_CTOR, i, j, 0});
            ops.push_back(MOp{M_MOVE_CTOR, i, j, 0});
            ops.push_back(MOp{M_DTOR, i, -1, 0});
            ops.push_back(MOp{M_ASSIGN, i, j, 0});
            ops.push_back(MOp{M_ASSIGN_SELF, i, i, 0});
            ops.push_back(MOp{M_MOVE_ASSIGN, i, j, 0});
            ops.push_back(MOp{M_SET_STRING, i, j, 0});
            ops.push_back(MOp{M_SET_MOVE, i, j, 0});
            for (size_t n : VALUES) ops.push_back(MOp{M_SET_CSTR, i, -1, n});
            for (size_t n : {size_t(1), size_t(16)}) ops.push_back(MOp{M_ASSIGN_CSTR, i, -1, n});
            for (size_t n : {size_t(15), size_t(40)}) ops.push_back(MOp{M_SET_BUFFER, i, -1, n});
            ops.push_back(MOp{M_APPEND, i, j, 0});
            ops.push_back(MOp{M_APPEND_SELF, i, i, 0});
            ops.push_back(MOp{M_APPEND_CSTR, i, -1, 0});
            ops.push_back(MOp{M_APPEND_CHAR, i, -1, 0});
            ops.push_back(MOp{M_REPLACE_SELF, i, i, 0});
            ops.push_back(MOp{M_SUBSTR_SELF, i, i, 0});
            ops.push_back(MOp{M_TRIM_SELF, i, i, 0});
            ops.push_back(MOp{M_UPPER_SELF, i, i, 0});
            ops.push_back(MOp{M_CLEAR, i, -1, 0});
            ops.push_back(MOp{M_ASSIGN_OWN_CSTR, i, i, 0});
            ops.push_back(MOp{M_SET_OWN_TAIL, i, i, 0});
            ops.push_back(MOp{M_ASSIGN_OWN_HEAD_VIEW, i, i, 0});
            ops.push_back(MOp{M_SET_OWN_TAIL_VIEW, i, i, 0});
            ops.push_back(MOp{M_APPEND_OWN_CSTR, i, i, 0});
            ops.push_back(MOp{M_SET_OWN_PTRLEN, i, i, 0});
            ops.push_back(MOp{M_SET_OWN_PTRLEN_SUBST, i, i, 0});
            ops.push_back(MOp{M_SET_OWN_TAIL_ASSUME, i, i, 0});
            ops.push_back(MOp{M_SET_OWN_VIEW_SUBST, i, i, 0});
            ops.push_back(MOp{M_SET_SELF, i, i, 0});
            ops.push_back(MOp{M_ASSIGN_NULL_VIEW, i, -1, 0});
            ops.push_back(MOp{M_SET_NULL_CSTR, i, -1, 0});
            ops.push_back(MOp{M_ASSIGN_NULL_U8VIEW, i, -1, 0});
            ops.push_back(MOp{M_ASSIGN_NULL_T, i, -1, 0});
            ops.push_back(MOp{M_ASSIGN_PATH, i, i, 0});
        }
        vf::tracking_begin();
    }
    const char *name() const { return nm.c_str(); }
    size_t op_count() const { return ops.size(); }
    void reset()
    {
        for (int i = 0; i < 2; ++i) {
            slots[i].alive = false;
            slots[i].poison();
            model[i].clear();
        }
        vf::tracking_reset();
        vf::events_reset();
        std::string v = value_of(init_size);
        LIB(new (slots[0].obj()) S(v.c_str(), v.size()));
        slots[0].alive = true;
        model[0] = v;
    }
    bool enabled(size_t id) const
    {
        const MOp &o = ops[id];
        bool ai = slots[o.i].alive, aj = o.j >= 0 && slots[o.j].alive;
        switch (o.k) {
        case M_CONSTRUCT: return !ai;
        case M_COPY_CTOR:
        case M_MOVE_CTOR: return !ai && aj;
        case M_ASSIGN:
        case M_MOVE_ASSIGN:
        case M_SET_STRING:
        case M_SET_MOVE: return ai && aj;
        case M_APPEND: return ai && aj && model[o.i].size() + model[o.j].size() <= cap;
        case M_APPEND_OWN_CSTR:
        case M_APPEND_SELF: return ai && 2 * model[o.i].size() <= cap;
        case M_APPEND_WIDE_TEXT:
        case M_APPEND_WIDE_CHARS: return ai && model[o.i].size() + 8 <= cap;
        case M_APPEND_CSTR:
        case M_APPEND_CHAR: return ai && model[o.i].size() + 2 <= cap;
        default: return ai;
        }
    }
    std::string op_name(size_t id) const
    {
        const MOp &o = ops[id];
        switch (o.k) {
        case M_CONSTRUCT: return strf("new(s%d) string(value[%zu])", o.i, o.n);
        case M_COPY_CTOR: return strf("new(s%d) string(s%d)", o.i, o.j);
        case M_MOVE_CTOR: return strf("new(s%d) string(std::move(s%d))", o.i, o.j);
        case M_DTOR: return strf("s%d.~string()", o.i);
        case M_ASSIGN: return strf("s%d = s%d", o.i, o.j);
        case M_ASSIGN_SELF: return strf("s%d = s%d", o.i, o.i);
        case M_MOVE_ASSIGN: return strf("s%d = std::move(s%d)", o.i, o.j);
        case M_SET_STRING: return strf("s%d.set(s%d)", o.i, o.j);
        case M_SET_MOVE: return strf("s%d.set(std::move(s%d))", o.i, o.j);
        case M_SET_CSTR: return strf("s%d.set(value[%zu].c_str())", o.i, o.n);
        case M_ASSIGN_CSTR: return strf("s%d = value[%zu].c_str()", o.i, o.n);
        case M_SET_BUFFER: return strf("s%d = char_buffer(value[%zu])", o.i, o.n);
        case M_APPEND: return strf("s%d += s%d", o.i, o.j);
        case M_APPEND_SELF: return strf("s%d += s%d", o.i, o.i);
        case M_APPEND_CSTR: return strf("s%d += \"xy\"", o.i);
        case M_APPEND_CHAR: return strf("s%d += U'e-acute'", o.i);
        case M_REPLACE_SELF: return strf("s%d = s%d.replace(s%d, s%d)", o.i, o.i, o.i, o.i);
        case M_SUBSTR_SELF: return strf("s%d = s%d.substr(0)", o.i, o.i);
        case M_TRIM_SELF: return strf("s%d = s%d.trim()", o.i, o.i);
        case M_UPPER_SELF: return strf("s%d = s%d.to_upper()", o.i, o.i);
        case M_CLEAR: return strf("s%d.clear()", o.i);
        case M_ASSIGN_OWN_CSTR: return strf("s%d = s%d.c_str()", o.i, o.i);
        case M_SET_OWN_TAIL: return strf("s%d.set(s%d.c_str() + size/2)", o.i, o.i);
        case M_ASSIGN_OWN_HEAD_VIEW: return strf("s%d = s%d.view(0, size/2)", o.i, o.i);
        case M_SET_OWN_TAIL_VIEW: return strf("s%d.set(s%d.view(size/2))", o.i, o.i);
        case M_APPEND_OWN_CSTR: return strf("s%d += s%d.c_str()", o.i, o.i);
        case M_SET_OWN_PTRLEN: return strf("s%d.set(s%d.c_str(), size/2)", o.i, o.i);
        case M_SET_OWN_PTRLEN_SUBST: return strf("s%d.set(s%d.c_str(), size/2, substitute_invalid)", o.i, o.i);
        case M_SET_OWN_TAIL_ASSUME: return strf("s%d.set(s%d.c_str() + size/2, size - size/2, assume_valid)", o.i, o.i);
        case M_SET_OWN_VIEW_SUBST: return strf("s%d.set(s%d.view(size/2), substitute_invalid)", o.i, o.i);
        case M_SET_SELF: return strf("s%d.set(s%d)", o.i, o.i);
        case M_APPEND_WIDE_TEXT: return strf("s%d += L\"w\"; += u\"x\"; += U\"y\"; += u8\"z\"", o.i);
        case M_APPEND_WIDE_CHARS: return strf("s%d += 'c'; += L'w'; += u'x'", o.i);
        case M_ASSIGN_NULL_T: return strf("s%d = ST::null", o.i);
        case M_ASSIGN_PATH: return strf("s%d = s%d.to_path()", o.i, o.i);
        case M_ASSIGN_NULL_VIEW: return strf("s%d = std::string_view()", o.i);
        case M_SET_NULL_CSTR: return strf("s%d.set((const char *)nullptr)", o.i);
        case M_ASSIGN_NULL_U8VIEW: return strf("s%d.set(std::u8string_view(), substitute_invalid)", o.i);
        }
        return "?";
    }
    std::string key() const
    {
        std::string k;
        for (int s = 0; s < 2; ++s) {
            if (!slots[s].alive) {
                k += "D|";
                continue;
            }
            const ST::char_buffer &b = buf(s);
            PKind pk = pkind(s);
            k += strf("z%zu,k%d,", b.m_size, (int)pk);
            // observable bytes only: [0,size] through data().  The in-object array beyond the terminator (and all of it
            // while the string is heap-backed) is never read through the API, and the library leaves it uninitialised in
            // the copy constructor of a long string, so it carries stack garbage that differs between replays.
            if (pk == P_HEAP || pk == P_LOCAL) k += hx::hexbytes(b.m_chars, b.m_size + 1);
            k += "|";
        }
        return k;
    }
    bool nontrivial() const { return slots[0].alive && slots[1].alive && (buf(0).m_size >= LL || buf(1).m_size >= LL); }

    // take one result of every const operation from every live string
    // results held across a mutator: one representative per way a result comes into being (the complete battery runs in
    // every state; holding all of it across every transition only repeats the same ownership paths)
    static bool held_across_mutators(const std::string &n)
    {
        static const char *const REP[] = {"S(a)", "a.substr(0)", "a.substr(2,3)", "a.left(size)", "a.right(3)", "a.trim()", "a.to_upper()", "a.replace(\"ab\",\"XY\")",
                                          "a.replace(\"\",\"x\")", "a.replace(a,b)", "a.before_first(',')", "a.after_last(S(\"nope\"))", "a+b", "a+a", "\"\"+a",
                                          "a+U'e-acute'", "format({},a)", "format({>45},a)", "(stream<<a).to_string()", "from_validated(a.to_utf8())",
                                          "S(a.view())", "a.to_utf8()", "a.to_utf16()", "a.to_utf32()", "a.to_wchar()", "a.to_latin_1()", "a.to_buffer(char_buffer&)",
                                          "a.split(',')", "a.split(a)", "a.tokenize()", "a.to_std_string()", "a.to_std_u16string()", "ostringstream<<a",
                                          "\"{}\"_stfmt(lvalue a)", "S::from_path(a.to_path())", "lvalue a+lvalue b"};
        for (const char *r : REP)
            if (n == r) return true;
        return false;
    }
    void collect(std::vector<Held *> &held, Fails &f, const char *phase)
    {
        const bool across = strcmp(phase, "before-mutator") == 0;
        static const S other_const = S::from_validated("ab", 2);
        for (int s = 0; s < 2; ++s) {
            if (!slots[s].alive) continue;
            const S &a = *slots[s].obj();
            const S &b = slots[1 - s].alive ? *slots[1 - s].obj() : other_const;
            for (auto &op : g_ops) {
                if (across && !held_across_mutators(op.name)) continue;
                Held *h = nullptr;
                vf::Outcome oc = vf::guard([&] { h = op.make(a, b); });
                ++n_held;
                if (oc.kind == vf::EX_UNICODE) {
                    // a legitimate refusal (e.g. a precision that cuts a multi-byte character): no result to hold
                    ++n_refused;
                    continue;
                }
                if (!oc.ok()) {
                    f.push_back(Fail{strf("c04:%s:%s:%s", phase, op.name.c_str(), vf::outkind_name(oc.kind)),
                                     strf("%s on s%d (\"%s\"): %s", op.name.c_str(), s, vf::vis(model[s]).c_str(), oc.str().c_str())});
                    continue;
                }
                h->what = strf("%s [a=s%d]", op.name.c_str(), s);
                std::string st = h->storage(*this);
                if (!st.empty()) {
                    f.push_back(Fail{strf("c04:result-aliases:%s", op.name.c_str()),
                                     strf("result of %s with s%d = %s: %s", op.name.c_str(), s, vf::vis(model[s]).c_str(), st.c_str())});
                    // do not touch it any further; leak the holder (its destructor could free foreign storage)
                    continue;
                }
                h->snapshot = h->bytes();
                held.push_back(h);
            }
        }
    }
    void release(std::vector<Held *> &held)
    {
        for (Held *h : held) LIB(delete h);
        held.clear();
    }

    void apply(size_t id, bool checked, Fails &f)
    {
        const MOp &o = ops[id];
        S *a = slots[o.i].obj();
        S *b = o.j >= 0 ? slots[o.j].obj() : nullptr;
        std::string opn = checked ? op_name(id) : std::string();
        std::vector<Held *> held;
        Snap before[2];
        if (checked) {
            ++n_checked;
            vf::events_reset();
            if (!light) collect(held, f, "before-mutator");
            if (!f.empty()) {
                // storage problems of results are reported by on_new_state for the state itself; here we only stop
                return;
            }
            for (int s = 0; s < 2; ++s) {
                before[s] = snap(s);
                model_before[s] = model[s];
            }
        }
        std::string &m = model[o.i];
        std::string mj = o.j >= 0 ? model[o.j] : std::string();
        int moved = -1;
        const char *tag = "";
        vf::Outcome oc = vf::guard([&] {
            switch (o.k) {
            case M_CONSTRUCT: {
                std::string v = value_of(o.n);
                LIB(new (a) S(v.c_str(), v.size()));
                slots[o.i].alive = true;
                m = v;
                tag = "construct";
                break;
            }
            case M_COPY_CTOR:
                LIB(new (a) S(*static_cast<const S *>(b)));
                slots[o.i].alive = true;
                m = mj;
                tag = "copy-ctor";
                break;
            case M_MOVE_CTOR:
                LIB(new (a) S(std::move(*b)));
                slots[o.i].alive = true;
                m = mj;
                moved = o.j;
                tag = "move-ctor";
                break;
            case M_DTOR:
                LIB(a->~S());
                slots[o.i].alive = false;
                slots[o.i].poison();
                m.clear();
                tag = "dtor";
                break;
            case M_ASSIGN:
                LIB(*a = *static_cast<const S *>(b));
                m = mj;
                tag = "copy-assign";
                break;
            case M_ASSIGN_SELF:
                LIB(*a = *static_cast<const S *>(a));
                tag = "self-assign";
                break;
            case M_MOVE_ASSIGN:
                LIB(*a = std::move(*b));
                m = mj;
                moved = o.j;
                tag = "move-assign";
                break;
            case M_SET_STRING:
                LIB(a->set(*static_cast<const S *>(b)));
                m = mj;
                tag = "set(string)";
                break;
            case M_SET_MOVE:
                LIB(a->set(std::move(*b)));
                m = mj;
                moved = o.j;
                tag = "set(string&&)";
                break;
            case M_SET_CSTR: {
                std::string v = value_of(o.n);
                LIB(a->set(v.c_str()));
                m = std::string(v.c_str());  // a C-string argument denotes the bytes before its first NUL
                tag = "set(cstr)";
                break;
            }
            case M_ASSIGN_CSTR: {
                std::string v = value_of(o.n);
                LIB(*a = v.c_str());
                m = v;
                tag = "assign(cstr)";
                break;
            }
            case M_SET_BUFFER: {
                std::string v = value_of(o.n);
                LIB(*a = ST::char_buffer(v.data(), v.size()));
                m = v;
                tag = "assign(char_buffer&&)";
                break;
            }
            case M_APPEND:
                LIB(*a += *static_cast<const S *>(b));
                m += mj;
                tag = "append";
                break;
            case M_APPEND_SELF:
                LIB(*a += *static_cast<const S *>(a));
                m += std::string(m);
                tag = "append-self";
                break;
            case M_APPEND_CSTR:
                LIB(*a += "xy");
                m += "xy";
                tag = "append(cstr)";
                break;
            case M_APPEND_CHAR:
                LIB(*a += U'é');
                m += "\xC3\xA9";
                tag = "append(char32_t)";
                break;
            case M_REPLACE_SELF:
                LIB(*a = a->replace(*a, *a));
                tag = "replace-self";
                break;
            case M_SUBSTR_SELF:
                LIB(*a = a->substr(0));
                tag = "substr-self";
                break;
            case M_TRIM_SELF: {
                LIB(*a = a->trim());
                size_t b0 = m.find_first_not_of(" \t\r\n");
                size_t e0 = m.find_last_not_of(" \t\r\n");
                m = b0 == std::string::npos ? std::string() : m.substr(b0, e0 - b0 + 1);
                tag = "trim-self";
                break;
            }
            case M_UPPER_SELF:
                LIB(*a = a->to_upper());
                for (auto &c : m)
                    if (c >= 'a' && c <= 'z') c = (char)(c - 32);
                tag = "to_upper-self";
                break;
            case M_CLEAR:
                LIB(a->clear());
                m.clear();
                tag = "clear";
                break;
            case M_ASSIGN_OWN_CSTR:
                LIB(*a = a->c_str());
                m = std::string(m.c_str());
                tag = "assign(own c_str)";
                break;
            case M_SET_OWN_TAIL: {
                size_t k = own_cut(m, m.size() / 2);
                LIB(a->set(a->c_str() + k));
                m = std::string(m.c_str() + k);
                tag = "set(own c_str + k)";
                break;
            }
            case M_ASSIGN_OWN_HEAD_VIEW: {
                size_t k = own_cut(m, m.size() / 2);
                LIB(*a = a->view(0, k));
                m = m.substr(0, k);
                tag = "assign(own view head)";
                break;
            }
            case M_SET_OWN_TAIL_VIEW: {
                size_t k = own_cut(m, m.size() / 2);
                LIB(a->set(a->view(k)));
                m = m.substr(k);
                tag = "set(own view tail)";
                break;
            }
            case M_APPEND_OWN_CSTR:
                LIB(*a += a->c_str());
                m += std::string(m.c_str());
                tag = "append(own c_str)";
                break;
            case M_APPEND_WIDE_TEXT:
                LIB(*a += L"w"; *a += u"x"; *a += U"y"; *a += u8"z");
                m += "wxyz";
                tag = "append(wide text)";
                break;
            case M_APPEND_WIDE_CHARS:
                LIB(*a += 'c'; *a += L'w'; *a += u'x');
                m += "cwx";
                tag = "append(char, wchar_t, char16_t)";
                break;
            case M_ASSIGN_NULL_T:
                LIB(*a = ST::null);
                m.clear();
                tag = "assign(null)";
                break;
            case M_ASSIGN_PATH:
                LIB(*a = a->to_path());
                tag = "assign(own to_path())";
                break;
            case M_SET_SELF:
                LIB(a->set(*static_cast<const S *>(a)));
                tag = "set(self)";
                break;
            case M_ASSIGN_NULL_VIEW:
                LIB(*a = std::string_view());
                m.clear();
                tag = "assign(null string_view)";
                break;
            case M_SET_NULL_CSTR:
                LIB(a->set(static_cast<const char *>(nullptr)));
                m.clear();
                tag = "set(null cstr)";
                break;
            case M_ASSIGN_NULL_U8VIEW:
                LIB(a->set(std::u8string_view(), ST::substitute_invalid));
                m.clear();
                tag = "set(null u8string_view)";
                break;
            case M_SET_OWN_PTRLEN_SUBST: {
                size_t k = own_cut(m, m.size() / 2);
                LIB(a->set(a->c_str(), k, ST::substitute_invalid));
                m = m.substr(0, k);
                tag = "set(own c_str, n, substitute_invalid)";
                break;
            }
            case M_SET_OWN_TAIL_ASSUME: {
                size_t k = own_cut(m, m.size() / 2);
                LIB(a->set(a->c_str() + k, m.size() - k, ST::assume_valid));
                m = m.substr(k);
                tag = "set(own c_str + k, n, assume_valid)";
                break;
            }
            case M_SET_OWN_VIEW_SUBST: {
                size_t k = own_cut(m, m.size() / 2);
                LIB(a->set(a->view(k), ST::substitute_invalid));
                m = m.substr(k);
                tag = "set(own view, substitute_invalid)";
                break;
            }
            case M_SET_OWN_PTRLEN: {
                size_t k = own_cut(m, m.size() / 2);
                LIB(a->set(a->c_str(), k));
                m = m.substr(0, k);
                tag = "set(own c_str, n)";
                break;
            }
            }
        });
        if (moved >= 0) {
            // the moved-from string's value is whatever it reports, provided it is valid
            if (slots[moved].alive && validity(moved).empty()) model[moved] = content(moved);
        }
        if (!checked) return;
        auto fail = [&](const std::string &what, const std::string &detail) {
            f.push_back(Fail{strf("%s:%s:%s", prop_tag, tag, what.c_str()), opn + ": " + detail});
        };
        if (!oc.ok()) {
            if (!on_mutator_exception(o, oc, before, tag, opn, f)) fail(vf::outkind_name(oc.kind), oc.str());
            return;
        }
        if (vf::events_total()) fail("heap-event", vf::g_alloc.first_event);
        for (int s = 0; s < 2; ++s) {
            std::string fd = slots[s].fence_damage();
            if (!fd.empty()) fail("write-outside-object", strf("s%d: %s", s, fd.c_str()));
        }
        for (int s = 0; s < 2; ++s) {
            if (!slots[s].alive) continue;
            std::string bad = validity(s);
            const char *role = s == o.i ? "target" : s == moved ? "moved-from" : "other";
            if (!bad.empty()) {
                fail(strf("%s-invalid", role), strf("s%d: %s", s, bad.c_str()));
                continue;
            }
            if (s == moved) continue;
            if (content(s) != model[s])
                fail(strf("%s-wrong-value", role), strf("s%d holds %s, model %s", s, vf::vis(content(s)).c_str(), vf::vis(model[s]).c_str()));
            if (s != o.i && !same(before[s], s)) fail("other-string-changed", strf("s%d changed although it is neither target nor moved from", s));
        }
        if (!f.empty()) return;
        // every result taken before the mutator must be untouched by it
        for (Held *h : held) {
            std::string st = h->storage(*this);
            if (!st.empty()) {
                fail(strf("earlier-result-lost-its-storage:%s", h->what.substr(0, h->what.find(' ')).c_str()), strf("result of %s: %s", h->what.c_str(), st.c_str()));
                continue;
            }
            if (h->bytes() != h->snapshot)
                fail(strf("earlier-result-changed:%s", h->what.substr(0, h->what.find(' ')).c_str()),
                     strf("result of %s no longer holds the value it was returned with", h->what.c_str()));
        }
        if (!f.empty()) return;
        release(held);
        if (vf::live_tracked() != owned_blocks()) fail("leak-or-lost-block", strf("%zu blocks live, %zu owned", vf::live_tracked(), owned_blocks()));
    }

    const char *prop_tag = "c04";
    std::string model_before[2];
    // derived systems may accept an exception thrown by a mutator (return true = handled, checks done)
    virtual bool on_mutator_exception(const MOp &, const vf::Outcome &, const Snap *, const char *, const std::string &, Fails &) { return false; }
    bool light = false;  // derived systems: skip the const-operation battery around mutators
    // the object a member returns, bound to a reference: it must be a distinct object (a member that hands out a reference
    // to the string's own buffer makes the "result" follow every later change of the source)
    template <class R>
    void result_identity(R &&r, const S &a, const char *what, Fails &f)
    {
        const char *pr = (const char *)&r, *pa = (const char *)&a;
        if (pr >= pa && pr < pa + sizeof(S))
            f.push_back(Fail{strf("c04:result-is-part-of-the-source:%s", what), strf("%s returned a reference into the string object itself", what)});
        else if ((const void *)r.data() == (const void *)a.c_str())
            f.push_back(Fail{strf("c04:result-aliases:%s", what), strf("the object returned by %s uses the source's storage", what)});
    }
    virtual ~StrSys() {}
    virtual void on_new_state(Fails &f)
    {
        // (a) every const operation: source unchanged, result owns its storage, scribbling the result changes nothing
        Snap before[2] = {snap(0), snap(1)};
        std::vector<Held *> held;
        vf::events_reset();
        collect(held, f, "read");
        n_reads += held.size();
        for (int s = 0; s < 2; ++s)
            if (!same(before[s], s)) f.push_back(Fail{"c04:const-operation-changed-its-source", strf("s%d changed while results were being produced", s)});
        if (!f.empty()) return;
        for (Held *h : held) {
            vf::Outcome oc = vf::guard([&] { h->scribble(); });
            if (!oc.ok()) f.push_back(Fail{strf("c04:mutating-result:%s", vf::outkind_name(oc.kind)), h->what + ": " + oc.str()});
            for (int s = 0; s < 2; ++s)
                if (!same(before[s], s)) {
                    std::string opn = h->what.substr(0, h->what.find(' '));
                    f.push_back(Fail{strf("c04:modifying-result-changed-a-string:%s", opn.c_str()),
                                     strf("overwriting/reassigning the result of %s changed s%d", h->what.c_str(), s)});
                    before[s] = snap(s);
                }
        }
        release(held);
        for (int s = 0; s < 2; ++s) {
            if (!slots[s].alive) continue;
            const S &a = *slots[s].obj();
            vf::Outcome oc = vf::guard([&] {
                LIB(result_identity(a.to_utf8(), a, "a.to_utf8()", f));
                LIB(result_identity(a.to_utf16(), a, "a.to_utf16()", f));
                LIB(result_identity(a.to_utf32(), a, "a.to_utf32()", f));
                LIB(result_identity(a.to_wchar(), a, "a.to_wchar()", f));
                LIB(result_identity(a.to_latin_1(), a, "a.to_latin_1()", f));
                LIB(result_identity(a.to_std_string(), a, "a.to_std_string()", f));
                LIB(result_identity(a.substr(0), a, "a.substr(0)", f));
                LIB(result_identity(a.left(a.size()), a, "a.left(size)", f));
                LIB(result_identity(a.right(a.size()), a, "a.right(size)", f));
                LIB(result_identity(a.trim("#"), a, "a.trim(\"#\")", f));
                LIB(result_identity(a.to_upper(), a, "a.to_upper()", f));
                LIB(result_identity(a.to_lower(), a, "a.to_lower()", f));
                LIB(result_identity(a.replace("zz", "q"), a, "a.replace(\"zz\",\"q\")", f));
                LIB(result_identity(a.before_first('#'), a, "a.before_first('#')", f));
                LIB(result_identity(a.after_last('#'), a, "a.after_last('#')", f));
                LIB(result_identity(a + "", a, "a+\"\"", f));
            });
            n_reads += 16;
            if (!oc.ok() && oc.kind != vf::EX_UNICODE) f.push_back(Fail{strf("c04:result-identity:%s", vf::outkind_name(oc.kind)), oc.str()});
        }
        // += with every text and character type, on a copy (as mutators of the explored world they would multiply the value space)
        for (int s = 0; s < 2; ++s) {
            if (!slots[s].alive) continue;
            const S &a = *slots[s].obj();
            std::string got;
            vf::Outcome oc = vf::guard([&] {
                LIB(S t(a); t += L"w"; t += u"x"; t += U"y"; t += u8"z"; t += 'c'; t += L'w'; t += u'x'; t += U'\u00e9'; t += "!"; t += S::from_validated("?", 1);
                    got.assign(t.c_str(), t.size()));
            });
            n_reads += 10;
            if (!oc.ok()) f.push_back(Fail{strf("c04:append-family:%s", vf::outkind_name(oc.kind)), oc.str()});
            else if (got != model[s] + "wxyzcwx\xC3\xA9!?")
                f.push_back(Fail{"c04:append-family:wrong-value", strf("copy of s%d after ten += of every text / character type holds %s", s, vf::vis(got).c_str())});
        }
        if (!f.empty()) return;
        // (b) scalar reads
        static const S other_const = S::from_validated("ab", 2);
        for (int s = 0; s < 2; ++s) {
            if (!slots[s].alive) continue;
            const S &a = *slots[s].obj();
            const S &b = slots[1 - s].alive ? *slots[1 - s].obj() : other_const;
            vf::Outcome oc = vf::guard([&] { (void)scalar_reads(a, b); });
            n_reads += 90;
            if (!oc.ok()) f.push_back(Fail{strf("c04:scalar-read:%s", vf::outkind_name(oc.kind)), oc.str()});
            for (int t = 0; t < 2; ++t)
                if (!same(before[t], t)) f.push_back(Fail{"c04:scalar-read-changed-a-string", strf("s%d changed during scalar reads of s%d", t, s)});
        }
        if (vf::events_total()) f.push_back(Fail{"c04:read:heap-event", vf::g_alloc.first_event});
        for (int s = 0; s < 2; ++s) {
            std::string fd = slots[s].fence_damage();
            if (!fd.empty()) f.push_back(Fail{"c04:read:write-outside-object", strf("s%d: %s", s, fd.c_str())});
        }
        if (f.empty() && vf::live_tracked() != owned_blocks())
            f.push_back(Fail{"c04:read:leak", strf("%zu blocks live after reads, %zu owned", vf::live_tracked(), owned_blocks())});
        if (sample_list.size() < 4 && nontrivial()) sample_list.push_back(strf("s0=%s s1=%s", vf::vis(model[0]).c_str(), vf::vis(model[1]).c_str()));
    }
    void samples(std::vector<std::string> &out) const { out = sample_list; }
    void counters(std::map<std::string, uint64_t> &c) const
    {
        c["reads"] += n_reads;
        c["checked-transitions"] += n_checked;
        c["results-held-across-mutators"] += n_held;
        c["const-calls-refused-with-unicode_error"] += n_refused;
    }
};

