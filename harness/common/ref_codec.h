// ref_codec.h - reference hex / base64 (RFC 4648) written with integer arithmetic only.
#pragma once
#include <string>
#include <cstdint>
namespace ref {

inline char b64_char(unsigned v)  // 0..63
{
    if (v < 26) return (char)('A' + v);
    if (v < 52) return (char)('a' + (v - 26));
    if (v < 62) return (char)('0' + (v - 52));
    return v == 62 ? '+' : '/';
}
inline int b64_value(unsigned char c)  // -1 if not in the alphabet
{
    if (c >= 'A' && c <= 'Z') return c - 'A';
    if (c >= 'a' && c <= 'z') return c - 'a' + 26;
    if (c >= '0' && c <= '9') return c - '0' + 52;
    if (c == '+') return 62;
    if (c == '/') return 63;
    return -1;
}
inline std::string b64_encode(const unsigned char *p, size_t n)
{
    std::string o;
    size_t i = 0;
    for (; i + 3 <= n; i += 3) {
        uint32_t g = p[i] * 65536u + p[i + 1] * 256u + p[i + 2];
        o += b64_char(g / 262144u % 64);
        o += b64_char(g / 4096u % 64);
        o += b64_char(g / 64u % 64);
        o += b64_char(g % 64);
    }
    size_t rest = n - i;
    if (rest == 2) {
        uint32_t g = p[i] * 65536u + p[i + 1] * 256u;
        o += b64_char(g / 262144u % 64);
        o += b64_char(g / 4096u % 64);
        o += b64_char(g / 64u % 64);
        o += '=';
    } else if (rest == 1) {
        uint32_t g = p[i] * 65536u;
        o += b64_char(g / 262144u % 64);
        o += b64_char(g / 4096u % 64);
        o += "==";
    }
    return o;
}
// acceptance predicate exactly as C15 states it: length multiple of four, every character in
// the alphabet, '=' only as the last or the last two characters.
inline bool b64_valid(const std::string &s)
{
    size_t n = s.size();
    if (n % 4 != 0) return false;
    for (size_t i = 0; i < n; ++i) {
        unsigned char c = s[i];
        if (c == '=') {
            if (i == n - 1) continue;
            if (i == n - 2 && s[n - 1] == '=') continue;
            return false;
        }
        if (b64_value(c) < 0) return false;
    }
    return true;
}
// decoded length implied by length and padding (what the null-output form must return);
// -1 when the length is not a multiple of four
inline long b64_decoded_len(const std::string &s)
{
    size_t n = s.size();
    if (n % 4 != 0) return -1;
    long r = (long)(n / 4) * 3;
    if (n >= 1 && s[n - 1] == '=') --r;
    if (n >= 2 && s[n - 2] == '=') --r;
    return r;
}
inline std::string b64_decode(const std::string &s)  // precondition: b64_valid(s)
{
    std::string o;
    for (size_t i = 0; i + 4 <= s.size(); i += 4) {
        int v[4];
        int pad = 0;
        for (int k = 0; k < 4; ++k) {
            if (s[i + k] == '=') {
                v[k] = 0;
                ++pad;
            } else
                v[k] = b64_value((unsigned char)s[i + k]);
        }
        uint32_t g = v[0] * 262144u + v[1] * 4096u + v[2] * 64u + v[3];
        o += (char)(g / 65536u % 256);
        if (pad < 2) o += (char)(g / 256u % 256);
        if (pad < 1) o += (char)(g % 256);
    }
    return o;
}

inline char hex_digit(unsigned v) { return (char)(v < 10 ? '0' + v : 'a' + (v - 10)); }
inline int hex_value(unsigned char c)
{
    if (c >= '0' && c <= '9') return c - '0';
    if (c >= 'a' && c <= 'f') return c - 'a' + 10;
    if (c >= 'A' && c <= 'F') return c - 'A' + 10;
    return -1;
}
inline std::string hex_encode(const unsigned char *p, size_t n)
{
    std::string o;
    for (size_t i = 0; i < n; ++i) {
        o += hex_digit(p[i] / 16);
        o += hex_digit(p[i] % 16);
    }
    return o;
}
inline bool hex_valid(const std::string &s)
{
    if (s.size() % 2) return false;
    for (unsigned char c : s)
        if (hex_value(c) < 0) return false;
    return true;
}
inline std::string hex_decode(const std::string &s)
{
    std::string o;
    for (size_t i = 0; i + 2 <= s.size(); i += 2) o += (char)(hex_value(s[i]) * 16 + hex_value(s[i + 1]));
    return o;
}
}  // namespace ref
