// ref_slice.h - reference model for C08 (slicing) and C09 (split / tokenize / replace).
// Value model is std::string (arbitrary bytes).  Everything is written as naive loops with
// mathematical integers (__int128) so that it shares no arithmetic with the library.
// Readings pinned in DESIGN.md section 10:
//   * substr(start,count): start<0 counts from the end and is clamped to 0 (count is kept);
//     start>size gives the empty string; the range is [s, min(size, s+count)).
//   * an empty separator / pattern "does not cut": split -> [text], replace -> text.
//   * case-insensitive = fold 'A'..'Z' only.
#pragma once
#include <string>
#include <vector>
#include <cstdint>
#include <cstdio>
#include <cstdlib>

namespace refs {

typedef __int128 wide;

inline unsigned char fold(unsigned char c) { return (c >= 'A' && c <= 'Z') ? (unsigned char)(c + 32) : c; }

inline std::string folded(const std::string &s)
{
    std::string o = s;
    for (auto &ch : o) ch = (char)fold((unsigned char)ch);
    return o;
}

inline bool match_at(const std::string &s, size_t i, const std::string &pat, bool ci)
{
    if (i + pat.size() > s.size()) return false;
    for (size_t k = 0; k < pat.size(); ++k) {
        unsigned char a = (unsigned char)s[i + k], b = (unsigned char)pat[k];
        if (ci) {
            a = fold(a);
            b = fold(b);
        }
        if (a != b) return false;
    }
    return true;
}

// first occurrence of a NON-EMPTY pattern at or after `from`; -1 if none
inline long first_occ(const std::string &s, const std::string &pat, bool ci, size_t from = 0)
{
    if (pat.empty()) return -1;
    for (size_t i = from; i + pat.size() <= s.size(); ++i)
        if (match_at(s, i, pat, ci)) return (long)i;
    return -1;
}
// last occurrence of a NON-EMPTY pattern; -1 if none
inline long last_occ(const std::string &s, const std::string &pat, bool ci)
{
    if (pat.empty() || pat.size() > s.size()) return -1;
    for (size_t i = s.size() - pat.size() + 1; i-- > 0;)
        if (match_at(s, i, pat, ci)) return (long)i;
    return -1;
}
// number of non-overlapping left-to-right occurrences
inline size_t count_occ(const std::string &s, const std::string &pat, bool ci)
{
    size_t k = 0, pos = 0;
    for (;;) {
        long i = first_occ(s, pat, ci, pos);
        if (i < 0) return k;
        ++k;
        pos = (size_t)i + pat.size();
    }
}

// ------------------------------------------------------------------ C08
inline std::string substr(const std::string &s, int64_t start, uint64_t count)
{
    wide n = (wide)s.size();
    wide b = (wide)start;
    if (b < 0) {
        b = n + b;
        if (b < 0) b = 0;
    }
    if (b > n) return std::string();
    wide e = b + (wide)count;
    if (e > n) e = n;
    return s.substr((size_t)b, (size_t)(e - b));
}
inline std::string left(const std::string &s, uint64_t k)
{
    size_t m = (wide)k < (wide)s.size() ? (size_t)k : s.size();
    return s.substr(0, m);
}
inline std::string right(const std::string &s, uint64_t k)
{
    size_t m = (wide)k < (wide)s.size() ? (size_t)k : s.size();
    return s.substr(s.size() - m, m);
}
inline bool in_set(const std::string &set, char c)
{
    for (char x : set)
        if (x == c) return true;
    return false;
}
inline std::string trim_left(const std::string &s, const std::string &set)
{
    size_t i = 0;
    while (i < s.size() && in_set(set, s[i])) ++i;
    return s.substr(i);
}
inline std::string trim_right(const std::string &s, const std::string &set)
{
    size_t j = s.size();
    while (j > 0 && in_set(set, s[j - 1])) --j;
    return s.substr(0, j);
}
inline std::string trim(const std::string &s, const std::string &set) { return trim_right(trim_left(s, set), set); }

// before/after for a NON-EMPTY separator
inline std::string before_first(const std::string &s, const std::string &sep, bool ci)
{
    long i = first_occ(s, sep, ci);
    return i < 0 ? s : s.substr(0, (size_t)i);
}
inline std::string after_first(const std::string &s, const std::string &sep, bool ci)
{
    long i = first_occ(s, sep, ci);
    return i < 0 ? std::string() : s.substr((size_t)i + sep.size());
}
inline std::string before_last(const std::string &s, const std::string &sep, bool ci)
{
    long i = last_occ(s, sep, ci);
    return i < 0 ? std::string() : s.substr(0, (size_t)i);
}
inline std::string after_last(const std::string &s, const std::string &sep, bool ci)
{
    long i = last_occ(s, sep, ci);
    return i < 0 ? s : s.substr((size_t)i + sep.size());
}

// ------------------------------------------------------------------ C09
inline std::vector<std::string> split(const std::string &s, const std::string &sep, uint64_t max_splits, bool ci)
{
    std::vector<std::string> out;
    if (sep.empty()) {
        out.push_back(s);
        return out;
    }
    size_t pos = 0;
    uint64_t done = 0;
    while (done < max_splits) {
        long i = first_occ(s, sep, ci, pos);
        if (i < 0) break;
        out.push_back(s.substr(pos, (size_t)i - pos));
        pos = (size_t)i + sep.size();
        ++done;
    }
    out.push_back(s.substr(pos));
    return out;
}
inline std::string join(const std::vector<std::string> &pieces, const std::string &sep)
{
    std::string o;
    for (size_t i = 0; i < pieces.size(); ++i) {
        if (i) o += sep;
        o += pieces[i];
    }
    return o;
}
inline std::vector<std::string> tokenize(const std::string &s, const std::string &delims)
{
    std::vector<std::string> out;
    std::string cur;
    for (char ch : s) {
        if (in_set(delims, ch)) {
            if (!cur.empty()) out.push_back(cur);
            cur.clear();
        } else
            cur += ch;
    }
    if (!cur.empty()) out.push_back(cur);
    return out;
}
inline std::string replace(const std::string &s, const std::string &from, const std::string &to, bool ci, size_t *k_out = nullptr)
{
    size_t k = 0;
    if (from.empty()) {
        if (k_out) *k_out = 0;
        return s;
    }
    std::string o;
    size_t pos = 0;
    for (;;) {
        long i = first_occ(s, from, ci, pos);
        if (i < 0) break;
        o += s.substr(pos, (size_t)i - pos);
        o += to;
        pos = (size_t)i + from.size();
        ++k;
    }
    o += s.substr(pos);
    if (k_out) *k_out = k;
    return o;
}

// bytes of a C string: up to the first NUL
inline std::string cstr_part(const std::string &s)
{
    size_t p = s.find('\0');
    return p == std::string::npos ? s : s.substr(0, p);
}

// ------------------------------------------------------------------ self-test (fixed table + cross-consistency)
#define REFS_CHECK(cond)                                                                   \
    do {                                                                                   \
        if (!(cond)) {                                                                     \
            fprintf(stderr, "selftest: reference model failed: %s (line %d)\n", #cond, __LINE__); \
            exit(2);                                                                       \
        }                                                                                  \
    } while (0)

inline void selftest()
{
    typedef std::vector<std::string> V;
    const std::string z3("a\0b", 3);
    // substr / left / right: literals from the library's own test-suite and the property text
    REFS_CHECK(substr("AAAxxxx", -10, 3) == "AAA");
    REFS_CHECK(substr("AAAxxxx", 0, 3) == "AAA");
    REFS_CHECK(substr("xxxAAA", -3, 3) == "AAA" && substr("xxxAAA", -3, UINT64_MAX) == "AAA");
    REFS_CHECK(substr("abcde", 2, UINT64_MAX - 1) == "cde" && substr("abcde", 2, UINT64_MAX) == "cde");
    REFS_CHECK(substr("abcde", 5, 1) == "" && substr("abcde", 6, 1) == "" && substr("abcde", INT64_MAX, UINT64_MAX) == "");
    REFS_CHECK(substr("abcde", INT64_MIN, 2) == "ab" && substr("abcde", -5, 0) == "" && substr("abcde", -1, 9) == "e");
    REFS_CHECK(substr("", 0, 5) == "" && substr("", -1, 5) == "" && substr("", 1, 5) == "");
    REFS_CHECK(left("abcde", 0) == "" && left("abcde", 2) == "ab" && left("abcde", 5) == "abcde" && left("abcde", UINT64_MAX) == "abcde");
    REFS_CHECK(right("abcde", 0) == "" && right("abcde", 2) == "de" && right("abcde", 7) == "abcde" && right("abcde", 10) == "abcde");
    REFS_CHECK(right("abcde", UINT64_MAX) == "abcde" && right("abcde", (uint64_t)1 << 63) == "abcde" && right("", 3) == "");
    // trim
    REFS_CHECK(trim("  x y \t", " \t") == "x y" && trim_left("  x y \t", " \t") == "x y \t" && trim_right("  x y \t", " \t") == "  x y");
    REFS_CHECK(trim("   ", " ") == "" && trim("abc", "") == "abc" && trim("xxaxx", "x") == "a");
    REFS_CHECK(trim(std::string(" \0 ", 3), " ") == std::string("\0", 1));
    // before / after
    REFS_CHECK(before_first("a::b::c", "::", false) == "a" && after_first("a::b::c", "::", false) == "b::c");
    REFS_CHECK(before_last("a::b::c", "::", false) == "a::b" && after_last("a::b::c", "::", false) == "c");
    REFS_CHECK(before_first("abc", "x", false) == "abc" && after_first("abc", "x", false) == "");
    REFS_CHECK(before_last("abc", "x", false) == "" && after_last("abc", "x", false) == "abc");
    REFS_CHECK(before_first("xAy", "a", true) == "x" && before_first("xAy", "a", false) == "xAy");
    REFS_CHECK(before_last("aaa", "aa", false) == "a" && after_last("aaa", "aa", false) == "" && before_first("aaa", "aa", false) == "");
    REFS_CHECK(fold('A') == 'a' && fold('Z') == 'z' && fold('@') == '@' && fold('[') == '[' && fold(0xC1) == 0xC1 && fold('a') == 'a');
    // split / join / tokenize / replace
    REFS_CHECK((split("a,b,,c", ",", UINT64_MAX, false) == V{"a", "b", "", "c"}));
    REFS_CHECK((split("a,b,,c", ",", 2, false) == V{"a", "b", ",c"}));
    REFS_CHECK((split("a,b,,c", ",", 0, false) == V{"a,b,,c"}));
    REFS_CHECK((split("", ",", 4, false) == V{""}));
    REFS_CHECK((split("aaa", "aa", UINT64_MAX, false) == V{"", "a"}));
    REFS_CHECK((split("xAyaz", "a", UINT64_MAX, true) == V{"x", "y", "z"}) && (split("xAyaz", "a", UINT64_MAX, false) == V{"xAy", "z"}));
    REFS_CHECK((split(z3, "", UINT64_MAX, false) == V{z3}) && (split(z3, std::string("\0", 1), 5, false) == V{"a", "b"}));
    REFS_CHECK((split(",", ",", 7, false) == V{"", ""}));
    REFS_CHECK(join(V{"a", "b", "", "c"}, ",") == "a,b,,c" && join(V{""}, ",") == "" && join(V{}, ",") == "");
    REFS_CHECK((tokenize(" a  bc \t", " \t") == V{"a", "bc"}) && tokenize("", " ").empty() && tokenize("  ", " ").empty());
    REFS_CHECK((tokenize("a b", "") == V{"a b"}) && (tokenize(z3, ",") == V{z3}));
    size_t k = 99;
    REFS_CHECK(replace("aaa", "aa", "b", false, &k) == "ba" && k == 1);
    REFS_CHECK(replace("AA", "", "Y", false, &k) == "AA" && k == 0);
    REFS_CHECK(replace("a,a,", ",", ",,", false, &k) == "a,,a,," && k == 2);
    REFS_CHECK(replace("xAyaz", "a", "", true, &k) == "xyz" && k == 2);
    REFS_CHECK(replace("abab", "ab", "a", false, &k) == "aa" && k == 2);
    REFS_CHECK(cstr_part(z3) == "a" && cstr_part("ab") == "ab" && cstr_part(std::string("\0a", 2)) == "");
    // cross-consistency over every string of length <= 4 over {a, A, ','} x every pattern of length 1..2
    const char al[3] = {'a', 'A', ','};
    std::vector<std::string> all{""};
    for (size_t lo = 0, len = 1; len <= 4; ++len) {
        size_t hi = all.size();
        for (size_t i = lo; i < hi; ++i)
            for (char c : al) all.push_back(all[i] + c);
        lo = hi;
    }
    for (const std::string &s : all)
        for (const std::string &p : all) {
            if (p.empty() || p.size() > 2) continue;
            for (int ci = 0; ci < 2; ++ci) {
                size_t occ = count_occ(s, p, ci);
                V full = split(s, p, UINT64_MAX, ci);
                REFS_CHECK(full.size() == occ + 1);
                if (!ci) REFS_CHECK(join(full, p) == s);
                for (uint64_t m = 0; m < 4; ++m) {
                    V part = split(s, p, m, ci);
                    REFS_CHECK(part.size() == (occ < m ? occ : m) + 1);
                    if (!ci) REFS_CHECK(join(part, p) == s);
                }
                size_t kk = 0;
                std::string r = replace(s, p, "xyz", ci, &kk);
                REFS_CHECK(kk == occ && r.size() == s.size() + kk * 3 - kk * p.size());
                REFS_CHECK(join(full, "xyz") == r);
                if (occ) {
                    long f = first_occ(s, p, ci), l = last_occ(s, p, ci);
                    REFS_CHECK(before_first(s, p, ci) + s.substr(f, p.size()) + after_first(s, p, ci) == s);
                    REFS_CHECK(before_last(s, p, ci) + s.substr(l, p.size()) + after_last(s, p, ci) == s);
                    REFS_CHECK(before_first(s, p, ci) == full.front());
                } else {
                    REFS_CHECK(before_first(s, p, ci) == s && after_last(s, p, ci) == s && after_first(s, p, ci).empty() &&
                               before_last(s, p, ci).empty());
                }
            }
        }
}

}  // namespace refs
