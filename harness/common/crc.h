// crc.h - CRC-32 (zlib polynomial), used to compare the harness' reference encoders with
// CPython's codecs/binascii over complete domains (see lib/vdriver.py ensure_ref_tables)
#pragma once
#include <cstdint>
#include <cstddef>
namespace vf {
struct Crc32 {
    uint32_t table[256];
    uint32_t crc = 0xFFFFFFFFu;
    Crc32()
    {
        for (uint32_t i = 0; i < 256; ++i) {
            uint32_t c = i;
            for (int k = 0; k < 8; ++k) c = (c & 1) ? (0xEDB88320u ^ (c >> 1)) : (c >> 1);
            table[i] = c;
        }
    }
    void add(const void *p, size_t n)
    {
        const unsigned char *b = (const unsigned char *)p;
        while (n--) crc = table[(crc ^ *b++) & 0xFF] ^ (crc >> 8);
    }
    uint32_t value() const { return crc ^ 0xFFFFFFFFu; }
};
}
