// histx.h - explicit-state breadth-first exploration of operation histories on REAL objects.
//
// A *system* owns a pool of slots holding library objects.  A state is named by a shortest
// operation history; to visit it the system is reset (fresh poison-filled slots, tracking
// allocator cleared) and the history is replayed.  Every enabled operation is applied from
// every distinct state; the successor's canonical concrete form (addresses abstracted to
// ownership facts) is hashed for deduplication.  The search runs to a fixpoint (frontier
// empty) or to a depth bound, whichever the system's configuration says.
//
// Interface a system must provide (duck-typed, used through the template below):
//   const char *name() const;               // becomes the stage name
//   size_t op_count() const;                // size of the static operation menu
//   bool enabled(size_t op) const;          // in the current state
//   std::string op_name(size_t op) const;
//   void reset();                           // fresh world
//   void apply(size_t op, bool checked, Fails &f);   // checked=false: fast replay
//   std::string key() const;                // canonical state
//   void on_new_state(Fails &f);            // read-only checks, must not change key()
//   bool nontrivial() const;                // the rule for distinct_nontrivial
//
// Crash containment: exploration runs in a forked child which publishes the transition in
// progress in shared memory; if the child dies the parent records a violation for that
// transition, adds it to a skip list and restarts the (deterministic) exploration.
#pragma once
#include <sys/mman.h>
#include "verif.h"
#include "alloc.h"
#include <deque>
#include <unordered_map>
#include <unordered_set>

namespace hx {

using vf::strf;

struct Fail {
    std::string sig, detail;
};
typedef std::vector<Fail> Fails;

typedef std::vector<uint16_t> Hist;

inline std::string hist_str(const Hist &h)
{
    std::string s;
    for (size_t i = 0; i < h.size(); ++i) s += (i ? "," : "") + std::to_string(h[i]);
    return s;
}
inline Hist hist_parse(const std::string &s)
{
    Hist h;
    size_t p = 0;
    while (p < s.size()) {
        size_t e = s.find(',', p);
        if (e == std::string::npos) e = s.size();
        if (e > p) h.push_back((uint16_t)atoi(s.substr(p, e - p).c_str()));
        p = e + 1;
    }
    return h;
}

struct Limits {
    unsigned max_depth = 1000;       // histories longer than this are not extended
    uint64_t max_states = 50000000;  // safety cap (reported as incomplete when hit)
    double deadline_s = 1e9;
    double hang_s = 10;  // a single transition (replay + apply + reads) taking longer than this is a hang
};

struct Stats {
    uint64_t states = 0, transitions = 0, op_execs = 0, nontrivial = 0, pruned_after_violation = 0, new_state_checks = 0;
    unsigned max_depth_reached = 0;
    bool fixpoint = false;      // frontier emptied (with or without a depth bound being hit)
    bool depth_capped = false;  // some state at max_depth had successors that were not explored
    bool state_capped = false, deadline_hit = false;
    std::vector<uint64_t> per_depth;  // new states discovered at each depth
};

struct ViolationRec {
    std::string sig, detail;
    Hist hist;  // including the failing operation (last)
    uint64_t count = 1;
};

// shared with the parent for crash attribution
struct Progress {
    std::atomic<uint64_t> tick;  // bumped at every replay / transition: the parent's hang watchdog
    std::atomic<int> active;
    std::atomic<int> len;
    uint16_t hist[4096];
    char phase[160];
};

// the exploring child publishes finer-grained phases (e.g. which read / which fault index) for crash attribution
inline Progress *g_progress = nullptr;
inline void note_phase(const char *what)
{
    if (!g_progress) return;
    strncpy(g_progress->phase, what, sizeof g_progress->phase - 1);
    g_progress->phase[sizeof g_progress->phase - 1] = 0;
    g_progress->tick.fetch_add(1);
}

template <class Sys>
inline std::string describe_hist(Sys &sys, const Hist &h)
{
    std::string s;
    for (size_t i = 0; i < h.size(); ++i) s += (i ? " ; " : "") + sys.op_name(h[i]);
    return s.empty() ? "(initial state)" : s;
}

template <class Sys>
inline void replay(Sys &sys, const Hist &h, uint64_t &execs)
{
    Fails dummy;
    sys.reset();
    for (uint16_t op : h) {
        sys.apply(op, false, dummy);
        ++execs;
    }
}

template <class Sys>
inline void explore(Sys &sys, const Limits &lim, Stats &st, std::map<std::string, ViolationRec> &viol, Progress *pg,
                    const std::set<std::string> &skip, double t_start)
{
    g_progress = pg;
    std::unordered_set<std::string> seen;
    struct Node {
        Hist h;
        std::string key;
    };
    std::deque<Node> frontier;
    auto note = [&](const Fails &fs, const Hist &h) {
        for (auto &f : fs) {
            auto it = viol.find(f.sig);
            if (it == viol.end()) {
                ViolationRec r;
                r.sig = f.sig;
                r.detail = f.detail;
                r.hist = h;
                viol[f.sig] = r;
            } else
                it->second.count++;
        }
    };
    auto publish = [&](const Hist &h, const char *phase) {
        if (!pg) return;
        pg->tick.fetch_add(1);
        pg->active.store(0);
        int n = (int)std::min<size_t>(h.size(), 4096);
        for (int i = 0; i < n; ++i) pg->hist[i] = h[i];
        pg->len.store(n);
        strncpy(pg->phase, phase, sizeof pg->phase - 1);
        pg->active.store(1);
    };
    sys.reset();
    {
        Fails f;
        std::string k0 = sys.key();
        seen.insert(k0);
        publish(Hist(), "reads");
        if (skip.empty() || !skip.count("R:")) sys.on_new_state(f);
        ++st.new_state_checks;
        note(f, Hist());
        frontier.push_back(Node{Hist(), k0});
        st.states = 1;
        st.per_depth.push_back(1);
    }
    Hist h2;
    while (!frontier.empty()) {
        if (vf::now_s() - t_start > lim.deadline_s) {
            st.deadline_hit = true;
            break;
        }
        Node n = std::move(frontier.front());
        frontier.pop_front();
        publish(n.h, "replay");
        replay(sys, n.h, st.op_execs);
        // canon-on-replay: the same history must reach the same state (uninitialised fields, unreset globals break this)
        if (sys.key() != n.key) {
            fprintf(stderr, "histx: replay of [%s] reached a different state than when it was discovered\n  then: %s\n  now:  %s\n",
                    describe_hist(sys, n.h).c_str(), n.key.c_str(), sys.key().c_str());
            _exit(3);
        }
        if (n.h.size() >= lim.max_depth) {
            for (size_t op = 0; op < sys.op_count(); ++op)
                if (sys.enabled(op)) st.depth_capped = true;
            continue;
        }
        std::vector<uint16_t> ops;
        for (size_t op = 0; op < sys.op_count(); ++op)
            if (sys.enabled(op)) ops.push_back((uint16_t)op);
        bool first = true;
        for (uint16_t op : ops) {
            h2 = n.h;
            h2.push_back(op);
            if (!skip.empty() && skip.count(hist_str(h2))) continue;
            publish(h2, "apply");
            if (!first) replay(sys, n.h, st.op_execs);
            first = false;
            Fails f;
            sys.apply(op, true, f);
            ++st.op_execs;
            ++st.transitions;
            if (!f.empty()) {
                note(f, h2);
                ++st.pruned_after_violation;
                continue;  // a state reached through a violation is not extended
            }
            std::string k = sys.key();
            if (seen.insert(k).second) {
                ++st.states;
                if (sys.nontrivial()) ++st.nontrivial;
                if (h2.size() >= st.per_depth.size()) st.per_depth.resize(h2.size() + 1, 0);
                st.per_depth[h2.size()]++;
                st.max_depth_reached = std::max<unsigned>(st.max_depth_reached, (unsigned)h2.size());
                Fails g;
                publish(h2, "reads");
                if (!skip.empty() && skip.count("R:" + hist_str(h2))) {
                    ++st.pruned_after_violation;  // the per-state battery crashed here in an earlier attempt
                    continue;
                }
                sys.on_new_state(g);
                ++st.new_state_checks;
                if (!g.empty()) {
                    note(g, h2);
                    ++st.pruned_after_violation;
                    continue;
                }
                if (sys.key() != k) {
                    Fails m;
                    m.push_back(Fail{"read-only-operation-changed-state", "state before reads: " + k + " after: " + sys.key()});
                    note(m, h2);
                    continue;
                }
                if (st.states >= lim.max_states) {
                    st.state_capped = true;
                    frontier.clear();
                    break;
                }
                frontier.push_back(Node{h2, k});
            }
        }
    }
    if (pg) pg->active.store(0);
    st.fixpoint = frontier.empty() && !st.state_capped && !st.deadline_hit;
}

// ----------------------------------------------------------------------------- result plumbing (same JSON as verif.h's driver)
struct StageOut {
    std::string name, note;
    Stats st;
    double wall = 0;
    unsigned crashes = 0;
    std::vector<std::string> samples;
    bool complete = false;
};

inline void write_result(const std::string &path, const char *prop, const vf::Opts &o, double wall, const std::vector<StageOut> &stages,
                         const std::vector<std::pair<std::string, vf::Violation>> &viol_by_sig_count,
                         const std::map<std::string, uint64_t> &viol_counts, const std::string &rule,
                         const std::vector<std::string> &assumptions, const std::map<std::string, uint64_t> &counters)
{
    FILE *f = fopen(path.c_str(), "w");
    if (!f) {
        perror("open out");
        _exit(2);
    }
    bool all_complete = true;
    uint64_t cases = 0, nontriv = 0;
    for (auto &s : stages) {
        if (!s.complete) all_complete = false;
        cases += s.st.transitions;
        nontriv += s.st.nontrivial;
    }
    uint64_t events = 0;
    for (auto &kv : viol_counts) events += kv.second;
    fprintf(f, "{\n \"property\":\"%s\",\n \"tier\":\"%s\",\n \"seed\":%" PRIu64 ",\n \"wall_s\":%.3f,\n", prop, o.tier.c_str(), o.seed, wall);
    fprintf(f, " \"all_complete\":%s,\n \"cases\":%" PRIu64 ",\n \"nontrivial\":%" PRIu64 ",\n \"violation_events\":%" PRIu64 ",\n",
            all_complete ? "true" : "false", cases, nontriv, events);
    fprintf(f, " \"rule\":\"%s\",\n \"assumptions\":[", vf::json_escape(rule).c_str());
    for (size_t i = 0; i < assumptions.size(); ++i) fprintf(f, "%s\"%s\"", i ? "," : "", vf::json_escape(assumptions[i]).c_str());
    fprintf(f, "],\n \"counters\":{");
    bool first = true;
    for (auto &kv : counters) {
        fprintf(f, "%s\"%s\":%" PRIu64, first ? "" : ",", vf::json_escape(kv.first).c_str(), kv.second);
        first = false;
    }
    fprintf(f, "},\n \"stages\":[\n");
    for (size_t i = 0; i < stages.size(); ++i) {
        auto &s = stages[i];
        std::string note = s.note;
        note += strf("%sstates=%" PRIu64 " transitions=%" PRIu64 " max_depth=%u %s%s%s op_executions=%" PRIu64, note.empty() ? "" : "; ",
                     s.st.states, s.st.transitions, s.st.max_depth_reached,
                     s.st.fixpoint ? (s.st.depth_capped ? "frontier-empty(depth-bounded)" : "FIXPOINT") : "not-closed",
                     s.st.state_capped ? " state-cap-hit" : "", s.st.deadline_hit ? " deadline-hit" : "", s.st.op_execs);
        note += " new-states-per-depth=";
        for (size_t d = 0; d < s.st.per_depth.size(); ++d) note += (d ? "/" : "") + std::to_string(s.st.per_depth[d]);
        fprintf(f, "  {\"name\":\"%s\",\"count\":%" PRIu64 ",\"done\":%" PRIu64 ",\"complete\":%s,\"wall_s\":%.3f,\"crashes\":%u,\"hangs\":0,\"note\":\"%s\",\"samples\":[",
                vf::json_escape(s.name).c_str(), s.st.transitions, s.st.transitions, s.complete ? "true" : "false", s.wall, s.crashes,
                vf::json_escape(note).c_str());
        for (size_t k = 0; k < s.samples.size(); ++k) fprintf(f, "%s\"%s\"", k ? "," : "", vf::json_escape(s.samples[k]).c_str());
        fprintf(f, "]}%s\n", i + 1 < stages.size() ? "," : "");
    }
    fprintf(f, " ],\n \"violations\":[\n");
    size_t k = 0;
    for (auto &pv : viol_by_sig_count) {
        const vf::Violation &v = pv.second;
        auto it = viol_counts.find(v.sig);
        fprintf(f, "  {\"sig\":\"%s\",\"count\":%" PRIu64 ",\"stage\":\"%s\",\"index\":%" PRIu64 ",\"input\":\"%s\",\"detail\":\"%s\"}%s\n",
                vf::json_escape(v.sig).c_str(), it == viol_counts.end() ? 1 : it->second, vf::json_escape(v.stage).c_str(), v.index,
                vf::json_escape(v.input).c_str(), vf::json_escape(v.detail).c_str(), ++k < viol_by_sig_count.size() ? "," : "");
    }
    fprintf(f, " ]\n}\n");
    fclose(f);
}

// One exploration job = one system instance (e.g. one element type / one configuration).
struct Job {
    std::string name;
    // runs the exploration in the calling (child) process and fills the outputs
    std::function<void(const Limits &, Stats &, std::map<std::string, ViolationRec> &, Progress *, const std::set<std::string> &,
                       std::vector<std::string> &samples, std::map<std::string, uint64_t> &counters)>
        run;
    // replays one history with checks, printing REPLAY-VIOLATION lines; returns number of failures
    std::function<size_t(const Hist &)> replay_one;
    std::function<std::string(const Hist &)> describe;
    Limits lim;
};

template <class Sys>
inline Job make_job(std::function<Sys *()> factory, Limits lim)
{
    Job j;
    {
        Sys *s = factory();
        j.name = s->name();
        delete s;
    }
    j.lim = lim;
    j.run = [factory](const Limits &l, Stats &st, std::map<std::string, ViolationRec> &viol, Progress *pg, const std::set<std::string> &skip,
                      std::vector<std::string> &samples, std::map<std::string, uint64_t> &counters) {
        Sys *s = factory();
        explore(*s, l, st, viol, pg, skip, vf::now_s());
        s->samples(samples);
        s->counters(counters);
    };
    j.replay_one = [factory](const Hist &h) -> size_t {
        Sys *s = factory();
        Fails f;
        s->reset();
        for (size_t i = 0; i < h.size(); ++i) {
            bool last = i + 1 == h.size();
            s->apply(h[i], last, f);
            printf("  op %zu: %s\n", i, s->op_name(h[i]).c_str());
        }
        if (f.empty()) s->on_new_state(f);
        printf("  state: %s\n", s->key().c_str());
        for (auto &x : f) printf("REPLAY-VIOLATION sig=%s\n  detail: %s\n", x.sig.c_str(), x.detail.c_str());
        return f.size();
    };
    j.describe = [factory](const Hist &h) {
        Sys *s = factory();
        std::string d = describe_hist(*s, h);
        return d;
    };
    return j;
}

// serialisation of a child's outcome through a temp file
inline void save_child(const std::string &path, const Stats &st, const std::map<std::string, ViolationRec> &viol,
                       const std::vector<std::string> &samples, const std::map<std::string, uint64_t> &counters)
{
    FILE *f = fopen(path.c_str(), "w");
    if (!f) _exit(2);
    fprintf(f, "S %" PRIu64 " %" PRIu64 " %" PRIu64 " %" PRIu64 " %" PRIu64 " %" PRIu64 " %u %d %d %d %d\n", st.states, st.transitions, st.op_execs,
            st.nontrivial, st.pruned_after_violation, st.new_state_checks, st.max_depth_reached, (int)st.fixpoint, (int)st.depth_capped,
            (int)st.state_capped, (int)st.deadline_hit);
    fprintf(f, "D");
    for (auto d : st.per_depth) fprintf(f, " %" PRIu64, d);
    fprintf(f, "\n");
    for (auto &kv : viol)
        fprintf(f, "V\t%s\t%s\t%" PRIu64 "\t%s\n", vf::json_escape(kv.second.sig).c_str(), hist_str(kv.second.hist).c_str(), kv.second.count,
                vf::json_escape(kv.second.detail).c_str());
    for (auto &s : samples) fprintf(f, "M\t%s\n", vf::json_escape(s).c_str());
    for (auto &kv : counters) fprintf(f, "C\t%s\t%" PRIu64 "\n", kv.first.c_str(), kv.second);
    fclose(f);
}
inline std::string unesc(const std::string &s)
{
    std::string v;
    vf::jfield("{\"x\":\"" + s + "\"}", "x", v);
    return v;
}
inline bool load_child(const std::string &path, Stats &st, std::map<std::string, ViolationRec> &viol, std::vector<std::string> &samples,
                       std::map<std::string, uint64_t> &counters)
{
    FILE *f = fopen(path.c_str(), "r");
    if (!f) return false;
    char *line = nullptr;
    size_t cap = 0;
    ssize_t n;
    bool gotS = false;
    while ((n = getline(&line, &cap, f)) > 0) {
        std::string l(line, n);
        while (!l.empty() && l.back() == '\n') l.pop_back();
        if (l[0] == 'S') {
            int a, b, c, d;
            sscanf(l.c_str() + 2, "%" SCNu64 " %" SCNu64 " %" SCNu64 " %" SCNu64 " %" SCNu64 " %" SCNu64 " %u %d %d %d %d", &st.states,
                   &st.transitions, &st.op_execs, &st.nontrivial, &st.pruned_after_violation, &st.new_state_checks, &st.max_depth_reached,
                   &a, &b, &c, &d);
            st.fixpoint = a;
            st.depth_capped = b;
            st.state_capped = c;
            st.deadline_hit = d;
            gotS = true;
        } else if (l[0] == 'D') {
            st.per_depth.clear();
            const char *p = l.c_str() + 1;
            char *e;
            while (*p) {
                uint64_t v = strtoull(p, &e, 10);
                if (e == p) break;
                st.per_depth.push_back(v);
                p = e;
            }
        } else {
            std::vector<std::string> parts;
            size_t p = 0;
            while (true) {
                size_t e = l.find('\t', p);
                if (e == std::string::npos) {
                    parts.push_back(l.substr(p));
                    break;
                }
                parts.push_back(l.substr(p, e - p));
                p = e + 1;
            }
            if (parts[0] == "V" && parts.size() >= 5) {
                ViolationRec r;
                r.sig = unesc(parts[1]);
                r.hist = hist_parse(parts[2]);
                r.count = strtoull(parts[3].c_str(), nullptr, 10);
                r.detail = unesc(parts[4]);
                viol[r.sig] = r;
            } else if (parts[0] == "M" && parts.size() >= 2)
                samples.push_back(unesc(parts[1]));
            else if (parts[0] == "C" && parts.size() >= 3)
                counters[parts[1]] += strtoull(parts[2].c_str(), nullptr, 10);
        }
    }
    free(line);
    fclose(f);
    return gotS;
}

// main driver for histx harnesses: all jobs run concurrently, each in its own forked child
inline int main_driver(int argc, char **argv, const char *prop, std::function<void(std::vector<Job> &, const vf::Opts &, std::string &rule,
                                                                                     std::vector<std::string> &assumptions)>
                                                                    build)
{
    vf::Opts o;
    for (int i = 1; i < argc; ++i) {
        std::string a = argv[i];
        if (a == "--tier" && i + 1 < argc) o.tier = argv[++i];
        else if (a == "--jobs" && i + 1 < argc) o.jobs = atoi(argv[++i]);
        else if (a == "--seed" && i + 1 < argc) o.seed = strtoull(argv[++i], nullptr, 10);
        else if (a == "--deadline" && i + 1 < argc) o.deadline_s = atof(argv[++i]);
        else if (a == "--out" && i + 1 < argc) o.out = argv[++i];
        else if (a == "--stage" && i + 1 < argc) o.only_stage = argv[++i];
        else if (a == "--replay" && i + 2 < argc) {
            o.replay = true;
            o.replay_stage = argv[++i];
            o.replay_index = strtoull(argv[++i], nullptr, 10);
        } else {
            vf::usage(argv[0]);
            return 2;
        }
    }
    vf::g_shm = (vf::Shm *)mmap(nullptr, sizeof(vf::Shm), PROT_READ | PROT_WRITE, MAP_SHARED | MAP_ANONYMOUS, -1, 0);
    memset((void *)vf::g_shm, 0, sizeof(vf::Shm));
    std::vector<Job> jobs;
    std::string rule;
    std::vector<std::string> assumptions;
    build(jobs, o, rule, assumptions);
    if (o.replay) {
        // stage string = "<job name>|<comma separated op ids>"
        size_t bar = o.replay_stage.rfind('|');
        std::string jn = bar == std::string::npos ? o.replay_stage : o.replay_stage.substr(0, bar);
        Hist h = hist_parse(bar == std::string::npos ? "" : o.replay_stage.substr(bar + 1));
        for (auto &j : jobs)
            if (j.name == jn) {
                printf("REPLAY property=%s job=%s history=[%s]\n", prop, jn.c_str(), j.describe(h).c_str());
                fflush(stdout);
                size_t nv = j.replay_one(h);
                printf("REPLAY-RESULT violations=%zu\n", nv);
                return nv ? 1 : 0;
            }
        fprintf(stderr, "no such job: %s\n", jn.c_str());
        return 2;
    }
    if (o.out.empty()) {
        vf::usage(argv[0]);
        return 2;
    }
    std::string tmpdir = o.out + ".d";
    {
        std::error_code ec;
        std::filesystem::remove_all(tmpdir, ec);
        std::filesystem::create_directories(tmpdir, ec);
    }
    double t_start = vf::now_s();
    size_t NJ = jobs.size();
    Progress *pg = (Progress *)mmap(nullptr, sizeof(Progress) * NJ, PROT_READ | PROT_WRITE, MAP_SHARED | MAP_ANONYMOUS, -1, 0);
    memset((void *)pg, 0, sizeof(Progress) * NJ);
    struct JState {
        pid_t pid = 0;
        double t0 = 0;
        std::set<std::string> skip;
        std::map<std::string, ViolationRec> crash_viol;
        unsigned crashes = 0;
        bool done = false, failed = false, hung = false;
        double t1 = 0, last_change = 0;
        uint64_t last_tick = ~0ull;
    };
    std::vector<JState> js(NJ);
    std::vector<StageOut> outs(NJ);
    auto spawn = [&](size_t k) {
        fflush(stdout);
        fflush(stderr);
        js[k].t0 = js[k].t0 ? js[k].t0 : vf::now_s();
        pid_t p = fork();
        if (p < 0) _exit(2);
        if (p == 0) {
            Stats st;
            std::map<std::string, ViolationRec> viol;
            std::vector<std::string> samples;
            std::map<std::string, uint64_t> counters;
            Limits l = jobs[k].lim;
            l.deadline_s = std::min(l.deadline_s, o.deadline_s - (vf::now_s() - t_start));
            jobs[k].run(l, st, viol, &pg[k], js[k].skip, samples, counters);
            save_child(tmpdir + "/job" + std::to_string(k) + ".txt", st, viol, samples, counters);
            fflush(stdout);
            VF_COV_DUMP();
            _exit(0);
        }
        js[k].pid = p;
        js[k].last_change = vf::now_s();
        js[k].last_tick = ~0ull;
    };
    size_t running = 0, next = 0;
    size_t maxpar = (size_t)std::max(1, o.jobs);
    std::map<std::string, uint64_t> counters;
    while (true) {
        while (running < maxpar && next < NJ) {
            if (!o.only_stage.empty() && jobs[next].name != o.only_stage) {
                js[next].done = true;
                ++next;
                continue;
            }
            spawn(next++);
            ++running;
        }
        if (running == 0) break;
        int status = 0;
        pid_t p = waitpid(-1, &status, WNOHANG);
        if (p == 0) {
            double t = vf::now_s();
            for (size_t i = 0; i < NJ; ++i) {
                if (js[i].done || !js[i].pid) continue;
                uint64_t tk = pg[i].tick.load();
                if (tk != js[i].last_tick) {
                    js[i].last_tick = tk;
                    js[i].last_change = t;
                } else if (pg[i].active.load() && t - js[i].last_change > jobs[i].lim.hang_s) {
                    js[i].hung = true;
                    kill(js[i].pid, SIGKILL);
                    js[i].last_change = t;
                }
            }
            struct timespec ts = {0, 20 * 1000 * 1000};
            nanosleep(&ts, nullptr);
            continue;
        }
        if (p < 0) {
            if (errno == EINTR) continue;
            break;
        }
        size_t k = NJ;
        for (size_t i = 0; i < NJ; ++i)
            if (js[i].pid == p && !js[i].done) k = i;
        if (k == NJ) continue;
        js[k].t1 = vf::now_s();
        if (WIFEXITED(status) && WEXITSTATUS(status) == 0) {
            js[k].done = true;
            --running;
            continue;
        }
        if (WIFEXITED(status) && (WEXITSTATUS(status) == 3 || WEXITSTATUS(status) == 2)) {
            // machinery error (non-deterministic replay etc.)
            js[k].done = true;
            js[k].failed = true;
            --running;
            continue;
        }
        // crash: attribute to the transition in progress
        Hist h;
        int len = pg[k].len.load();
        for (int i = 0; i < len; ++i) h.push_back(pg[k].hist[i]);
        ViolationRec r;
        r.hist = h;
        std::string opn = h.empty() ? std::string("(init)") : jobs[k].describe(Hist(1, h.back()));
        std::string phase = pg[k].phase;
        bool in_reads = phase.compare(0, 5, "reads") == 0;
        if (in_reads && phase.size() > 5) opn = phase.substr(phase[5] == ':' ? 6 : 5);  // the system named the call in progress
        else if (in_reads) opn = "per-state battery after " + opn;
        bool hung = js[k].hung;
        js[k].hung = false;
        if (hung) r.sig = strf("hang:during:%s", opn.c_str());
        else if (WIFSIGNALED(status)) r.sig = strf("crash:signal=%d:during:%s", WTERMSIG(status), opn.c_str());
        else r.sig = strf("crash:exit=%d:during:%s", WEXITSTATUS(status), opn.c_str());
        r.detail = strf("exploration process %s while in phase '%s' of history [%s]",
                        hung ? "made no progress within the hang limit and was killed"
                             : (WIFSIGNALED(status) ? strsignal(WTERMSIG(status)) : "exited abnormally"),
                        pg[k].phase, jobs[k].describe(h).c_str());
        if (js[k].crash_viol.count(r.sig)) js[k].crash_viol[r.sig].count++;
        else js[k].crash_viol[r.sig] = r;
        js[k].skip.insert((in_reads ? "R:" : "") + hist_str(h));
        js[k].crashes++;
        if (js[k].crashes >= 12) {
            js[k].done = true;
            js[k].failed = false;
            --running;
            outs[k].note = "stopped after 12 crashes";
            continue;
        }
        spawn(k);  // deterministic re-exploration with the crashing transition skipped
    }
    std::vector<std::pair<std::string, vf::Violation>> vlist;
    std::map<std::string, uint64_t> vcounts;
    bool machinery = false;
    for (size_t k = 0; k < NJ; ++k) {
        if (!o.only_stage.empty() && jobs[k].name != o.only_stage) continue;
        StageOut &so = outs[k];
        so.name = jobs[k].name;
        so.wall = (js[k].t1 ? js[k].t1 : vf::now_s()) - js[k].t0;
        so.crashes = js[k].crashes;
        std::map<std::string, ViolationRec> viol;
        bool ok = load_child(tmpdir + "/job" + std::to_string(k) + ".txt", so.st, viol, so.samples, counters);
        if (js[k].failed || (!ok && js[k].crashes < 12)) machinery = true;
        for (auto &kv : js[k].crash_viol) viol[kv.first] = kv.second;
        so.complete = ok && so.st.fixpoint && js[k].crashes == 0;
        for (auto &kv : viol) {
            vf::Violation v;
            v.stage = jobs[k].name + "|" + hist_str(kv.second.hist);
            v.index = 0;
            v.sig = kv.second.sig;
            v.detail = kv.second.detail;
            v.input = jobs[k].describe(kv.second.hist);
            if (!vcounts.count(v.sig)) vlist.push_back({v.sig, v});
            vcounts[v.sig] += kv.second.count;
        }
        fprintf(stderr, "[%s] job %-34s states=%" PRIu64 " transitions=%" PRIu64 " depth=%u %s %.1fs\n", prop, so.name.c_str(), so.st.states,
                so.st.transitions, so.st.max_depth_reached, so.complete ? (so.st.depth_capped ? "closed(depth-bounded)" : "FIXPOINT") : "INCOMPLETE",
                so.wall);
    }
    if (machinery) {
        fprintf(stderr, "histx: machinery error in at least one job\n");
        return 2;
    }
    uint64_t states = 0, trans = 0, checks = 0, execs = 0;
    std::vector<StageOut> used;
    for (size_t k = 0; k < NJ; ++k)
        if (o.only_stage.empty() || jobs[k].name == o.only_stage) {
            states += outs[k].st.states;
            trans += outs[k].st.transitions;
            checks += outs[k].st.new_state_checks + outs[k].st.transitions;
            execs += outs[k].st.op_execs;
            used.push_back(outs[k]);
        }
    counters["states"] = states;
    counters["transitions"] = trans;
    counters["validated"] = checks;
    counters["ops"] = execs;
    write_result(o.out, prop, o, vf::now_s() - t_start, used, vlist, vcounts, rule, assumptions, counters);
    {
        std::error_code ec;
        std::filesystem::remove_all(tmpdir, ec);
    }
    return 0;
}

// ----------------------------------------------------------------------------- helpers for systems
// poison-filled raw storage for one object, in a mapping of its own:
//   [PROT_NONE page][ ... unused ... | 32 fence bytes | object | 32..47 fence bytes ][PROT_NONE page]
// A write just outside the object's footprint (e.g. a terminator stored one past an in-object array) lands in a fence and
// is reported by fence_damage(); a larger overrun faults on the guard page and is attributed to the transition in
// progress by the job runner.  Nothing of the harness' own bookkeeping lives next to the object.
template <class T>
struct Slot {
    enum { FENCE = 32, PAGE = 4096, BODY = ((sizeof(T) + 2 * FENCE + 64 + PAGE - 1) / PAGE) * PAGE };
    unsigned char *base = nullptr;  // start of the mapping
    unsigned char *mem = nullptr;   // the object's storage
    size_t post_len = 0;
    bool alive = false;
    Slot()
    {
        base = (unsigned char *)mmap(nullptr, BODY + 2 * PAGE, PROT_READ | PROT_WRITE, MAP_PRIVATE | MAP_ANONYMOUS, -1, 0);
        if (base == (unsigned char *)MAP_FAILED) {
            perror("mmap(slot)");
            _exit(2);
        }
        mprotect(base, PAGE, PROT_NONE);
        mprotect(base + PAGE + BODY, PAGE, PROT_NONE);
        unsigned char *guard = base + PAGE + BODY;
        mem = (unsigned char *)(((uintptr_t)(guard - FENCE - sizeof(T))) & ~(uintptr_t)15);
        post_len = (size_t)(guard - (mem + sizeof(T)));
        memset(mem - FENCE, 0xFE, FENCE);
        memset(mem + sizeof(T), 0xFE, post_len);
        memset(mem, 0xCD, sizeof(T));
    }
    Slot(const Slot &) = delete;
    Slot &operator=(const Slot &) = delete;
    Slot(Slot &&o) noexcept : base(o.base), mem(o.mem), post_len(o.post_len), alive(o.alive) { o.base = o.mem = nullptr; }
    ~Slot()
    {
        if (base) munmap(base, BODY + 2 * PAGE);
    }
    // empty when intact; otherwise a description (and the fence is repaired so that one overrun is reported once)
    std::string fence_damage()
    {
        std::string r;
        unsigned char *post = mem + sizeof(T), *pre = mem - FENCE;
        for (size_t i = 0; i < post_len; ++i)
            if (post[i] != 0xFE) {
                r = "byte " + std::to_string(i) + " after the end of the object was overwritten";
                break;
            }
        if (r.empty())
            for (size_t i = FENCE; i-- > 0;)
                if (pre[i] != 0xFE) {
                    r = "byte " + std::to_string(FENCE - i) + " before the start of the object was overwritten";
                    break;
                }
        if (!r.empty()) {
            memset(pre, 0xFE, FENCE);
            memset(post, 0xFE, post_len);
        }
        return r;
    }
    T *obj() { return reinterpret_cast<T *>(mem); }
    const T *obj() const { return reinterpret_cast<const T *>(mem); }
    void poison() { memset(mem, 0xCD, sizeof(T)); }
    bool contains(const void *p) const { return (const unsigned char *)p >= mem && (const unsigned char *)p < mem + sizeof(T); }
};

inline std::string hexbytes(const void *p, size_t n)
{
    static const char *d = "0123456789abcdef";
    std::string s;
    const unsigned char *b = (const unsigned char *)p;
    for (size_t i = 0; i < n; ++i) {
        s += d[b[i] >> 4];
        s += d[b[i] & 15];
    }
    return s;
}

}  // namespace hx
