// verif.h - common machinery for the bounded-exhaustive harnesses (seqx engine core).
//
//  * prelude: captures the library's assert_handler (fprintf+abort) without touching /repo
//  * Plan/Stage: a stage is a finite, randomly addressable case space [0,count); every
//    index is executed exactly once by a pool of forked workers (dynamic block dispatch)
//  * crash / hang containment: a worker that dies or stalls is attributed to the case
//    index it was executing; the stage continues after it
//  * reporting: counters, outcome classes, violations (deduplicated by signature),
//    samples; result is written as JSON for bin/check
#pragma once
// line-coverage builds (bin/coverage): forked workers leave through _exit(), so they flush the counters themselves
#ifdef VF_COVERAGE
extern "C" void __gcov_dump(void);
#define VF_COV_DUMP() __gcov_dump()
#else
#define VF_COV_DUMP() ((void)0)
#endif

#include <stdexcept>
#include <cstdio>
#include <cstdlib>
#include <cstring>
#include <cstdint>
#include <cstdarg>
#include <cerrno>
#include <cinttypes>
#include <sys/types.h>
#include <string>
#include <vector>
#include <map>
#include <set>
#include <functional>
#include <atomic>
#include <algorithm>
#include <limits>
#include <new>
#include <utility>
#include <iterator>
#include <complex>
#include <ostream>
#include <istream>
#include <sstream>
#include <string_view>
#include <filesystem>
#include <unistd.h>
#include <signal.h>
#include <time.h>
#include <sys/mman.h>
#include <sys/wait.h>
#include <sys/time.h>
#include <sys/resource.h>
#include <fcntl.h>

#ifndef VF_NO_ABORT_HOOK
namespace std {
int verif_fprintf(FILE *, const char *, ...);
[[noreturn]] void verif_abort();
}
#define fprintf verif_fprintf
#define abort verif_abort
#include "st_assert.h"
#undef fprintf
#undef abort
#endif

namespace vf {

// ---------------------------------------------------------------- abort capture
struct AbortEx {
    char msg[320];
};
inline char g_last_assert[320];

// ---------------------------------------------------------------- small utils
inline double now_s()
{
    struct timespec ts;
    clock_gettime(CLOCK_MONOTONIC, &ts);
    return ts.tv_sec + ts.tv_nsec * 1e-9;
}

inline std::string json_escape(const std::string &s)
{
    std::string o;
    o.reserve(s.size() + 8);
    for (unsigned char c : s) {
        switch (c) {
        case '"': o += "\\\""; break;
        case '\\': o += "\\\\"; break;
        case '\n': o += "\\n"; break;
        case '\r': o += "\\r"; break;
        case '\t': o += "\\t"; break;
        default:
            if (c < 0x20 || c >= 0x7f) {
                char b[8];
                snprintf(b, sizeof b, "\\u%04x", c);
                o += b;
            } else
                o += (char)c;
        }
    }
    return o;
}

inline std::string strf(const char *fmt, ...)
{
    char buf[2048];
    va_list ap;
    va_start(ap, fmt);
    int n = vsnprintf(buf, sizeof buf, fmt, ap);
    va_end(ap);
    if (n < 0) return "";
    if ((size_t)n < sizeof buf) return std::string(buf, n);
    std::string big(n + 1, 0);
    va_start(ap, fmt);
    vsnprintf(&big[0], n + 1, fmt, ap);
    va_end(ap);
    big.resize(n);
    return big;
}

template <class T>
inline std::string hex_units(const T *p, size_t n, size_t maxn = 64)
{
    std::string o;
    for (size_t i = 0; i < n && i < maxn; ++i) {
        if (i) o += ' ';
        unsigned long long v;
        if (sizeof(T) == 1) v = (unsigned char)p[i];
        else if (sizeof(T) == 2) v = (uint16_t)p[i];
        else v = (uint32_t)p[i];
        o += strf(sizeof(T) == 1 ? "%02llX" : sizeof(T) == 2 ? "%04llX" : "%llX", v);
    }
    if (n > maxn) o += strf(" ...(+%zu)", n - maxn);
    return o;
}
inline std::string hex_str(const std::string &s, size_t maxn = 64) { return hex_units(s.data(), s.size(), maxn); }

// printable rendering of bytes: ASCII as is, others as \xNN
inline std::string vis(const char *p, size_t n, size_t maxn = 96)
{
    std::string o = "\"";
    for (size_t i = 0; i < n && i < maxn; ++i) {
        unsigned char c = p[i];
        if (c == '\\') o += "\\\\";
        else if (c == '"') o += "\\\"";
        else if (c >= 0x20 && c < 0x7f) o += (char)c;
        else o += strf("\\x%02X", c);
    }
    o += "\"";
    if (n > maxn) o += strf("...(+%zu)", n - maxn);
    return o;
}
inline std::string vis(const std::string &s, size_t maxn = 96) { return vis(s.data(), s.size(), maxn); }

// ---------------------------------------------------------------- mixed radix helpers
// number of sequences over an alphabet of k symbols with length 0..L
inline uint64_t seq_count(uint64_t k, unsigned L)
{
    uint64_t total = 0, p = 1;
    for (unsigned l = 0; l <= L; ++l) {
        total += p;
        p *= k;
    }
    return total;
}
// decode index -> sequence of symbol indices (shorter sequences first: length-lexicographic)
inline void seq_decode(uint64_t idx, uint64_t k, unsigned L, std::vector<unsigned> &out)
{
    out.clear();
    uint64_t p = 1;
    unsigned len = 0;
    while (len <= L && idx >= p) {
        idx -= p;
        p *= k;
        ++len;
    }
    out.resize(len);
    for (unsigned i = len; i-- > 0;) {
        out[i] = (unsigned)(idx % k);
        idx /= k;
    }
}
// number of sequences of exactly length L
inline uint64_t ipow(uint64_t k, unsigned L)
{
    uint64_t p = 1;
    while (L--) p *= k;
    return p;
}

// take one mixed-radix digit off idx
inline uint64_t take(uint64_t &idx, uint64_t radix)
{
    uint64_t d = idx % radix;
    idx /= radix;
    return d;
}

// ---------------------------------------------------------------- guard-page input buffers
// Data placed so that its last element ends exactly at a PROT_NONE page: reading one
// unit past the end faults.  (Reading before the start is not trapped.)
class GuardArena
{
public:
    GuardArena() : m_base(nullptr), m_len(0) {}
    ~GuardArena()
    {
        if (m_base) munmap(m_base, m_len + 4096);
    }
    void reserve(size_t bytes)
    {
        size_t need = (bytes + 4095) & ~size_t(4095);
        if (need == 0) need = 4096;
        if (need <= m_len) return;
        if (m_base) munmap(m_base, m_len + 4096);
        m_base = (char *)mmap(nullptr, need + 4096, PROT_READ | PROT_WRITE, MAP_PRIVATE | MAP_ANONYMOUS, -1, 0);
        if (m_base == MAP_FAILED) {
            perror("mmap");
            _exit(2);
        }
        mprotect(m_base + need, 4096, PROT_NONE);
        m_len = need;
    }
    // returns pointer to n elements of T ending at the guard page, copied from src
    template <class T>
    T *place(const T *src, size_t n)
    {
        reserve(n * sizeof(T) + sizeof(T));
        char *p = m_base + m_len - n * sizeof(T);
        if (n) memcpy(p, src, n * sizeof(T));
        return reinterpret_cast<T *>(p);
    }
    // as place(), but the data starts at an address congruent to `a` modulo 16: up to 15 readable filler bytes follow it
    // (an over-read is seen one to sixteen bytes late); for code whose path depends on the alignment of its input
    template <class T>
    T *place_aligned(const T *src, size_t n, unsigned a)
    {
        reserve(n * sizeof(T) + sizeof(T) + 16);
        uintptr_t end = (uintptr_t)(m_base + m_len), start = end - n * sizeof(T);
        unsigned pad = (unsigned)((start - a) & 15);
        char *p = (char *)(start - pad);
        if (n) memcpy(p, src, n * sizeof(T));
        memset(p + n * sizeof(T), 0xEE, pad);
        return reinterpret_cast<T *>(p);
    }

private:
    char *m_base;
    size_t m_len;
};

// ---------------------------------------------------------------- shared state
enum { MAX_WORKERS = 64, MAX_COUNTERS = 160, MAX_OUTCOMES = 96, NAME_LEN = 56 };

struct NamedCounter {
    std::atomic<int> used;
    char name[NAME_LEN];
    std::atomic<uint64_t> value;
};

struct Slot {
    std::atomic<uint64_t> cur;       // case index being executed
    std::atomic<uint64_t> blk_end;   // end of the block in progress (exclusive)
    std::atomic<int> busy;           // 1 while inside a case
    std::atomic<uint64_t> progress;  // cases completed by this worker (watchdog)
    std::atomic<int> hang_flag;
    pid_t pid;
};

struct Shm {
    std::atomic<uint64_t> next_block;
    std::atomic<uint64_t> done_cases;
    std::atomic<uint64_t> nontrivial;
    std::atomic<uint64_t> violations;
    std::atomic<int> stop;  // deadline reached: stop taking blocks
    std::atomic<int> lock;
    NamedCounter counters[MAX_COUNTERS];
    Slot slots[MAX_WORKERS];
};

inline Shm *g_shm = nullptr;
inline uint64_t g_local[MAX_COUNTERS];
inline int g_worker = -1;
inline uint64_t g_local_nontrivial = 0;

inline int counter_id(const char *name)
{
    Shm *s = g_shm;
    for (;;) {
        for (int i = 0; i < MAX_COUNTERS; ++i) {
            if (s->counters[i].used.load() == 2) {
                if (strncmp(s->counters[i].name, name, NAME_LEN - 1) == 0) return i;
            } else if (s->counters[i].used.load() == 0) {
                int exp = 0;
                if (s->counters[i].used.compare_exchange_strong(exp, 1)) {
                    strncpy(s->counters[i].name, name, NAME_LEN - 1);
                    s->counters[i].name[NAME_LEN - 1] = 0;
                    s->counters[i].used.store(2);
                    return i;
                }
                --i;  // re-examine (someone else claimed it)
                continue;
            } else {
                --i;  // being written; spin
                continue;
            }
        }
        fprintf(stderr, "verif: counter table full (%s)\n", name);
        _exit(2);
    }
}

#define VF_COUNT(name)                                 \
    do {                                               \
        static const int _vf_i = vf::counter_id(name); \
        vf::g_local[_vf_i]++;                          \
    } while (0)
#define VF_ADD(name, n)                                \
    do {                                               \
        static const int _vf_i = vf::counter_id(name); \
        vf::g_local[_vf_i] += (n);                     \
    } while (0)

inline void count_dyn(const std::string &name)
{
    static std::map<std::string, int> cache;
    auto it = cache.find(name);
    int id;
    if (it == cache.end()) {
        id = counter_id(name.c_str());
        cache[name] = id;
    } else
        id = it->second;
    g_local[id]++;
}

inline void flush_local()
{
    if (!g_shm) return;
    for (int i = 0; i < MAX_COUNTERS; ++i)
        if (g_local[i]) {
            g_shm->counters[i].value.fetch_add(g_local[i]);
            g_local[i] = 0;
        }
    if (g_local_nontrivial) {
        g_shm->nontrivial.fetch_add(g_local_nontrivial);
        g_local_nontrivial = 0;
    }
}

// ---------------------------------------------------------------- violations
struct Violation {
    std::string stage;
    uint64_t index;
    std::string sig;
    std::string detail;
    std::string input;
};

struct Ctx {
    const char *stage = "";
    uint64_t index = 0;
    bool replay = false;
    std::function<std::string(uint64_t)> describe;
    FILE *vfile = nullptr;
    std::map<std::string, unsigned> sig_seen;
    bool case_nontrivial = false;

    void nontrivial() { case_nontrivial = true; }

    void fail(const std::string &sig, const std::string &detail)
    {
        if (g_shm) g_shm->violations.fetch_add(1);
        unsigned &n = sig_seen[sig];
        ++n;
        if (n > 2 && !replay) return;
        std::string in = describe ? describe(index) : std::string();
        if (vfile) {
            fprintf(vfile, "{\"stage\":\"%s\",\"index\":%" PRIu64 ",\"sig\":\"%s\",\"detail\":\"%s\",\"input\":\"%s\"}\n",
                    json_escape(stage).c_str(), index, json_escape(sig).c_str(), json_escape(detail).c_str(),
                    json_escape(in).c_str());
            fflush(vfile);
        }
        if (replay)
            printf("REPLAY-VIOLATION sig=%s\n  input: %s\n  detail: %s\n", sig.c_str(), in.c_str(), detail.c_str());
    }
};

// ---------------------------------------------------------------- plan
struct Stage {
    std::string name;
    uint64_t count;
    std::function<void(uint64_t, Ctx &)> run;
    std::function<std::string(uint64_t)> describe;
    unsigned case_timeout_s = 20;
    std::string note;
};

struct Opts {
    std::string tier = "quick";
    int jobs = 16;
    uint64_t seed = 0;
    double deadline_s = 1e9;  // seconds from start
    std::string out = "";
    std::string replay_stage;
    uint64_t replay_index = 0;
    bool replay = false;
    std::string only_stage;
    bool thorough() const { return tier == "thorough"; }
};

struct Plan {
    std::vector<Stage> stages;
    std::vector<std::string> assumptions;
    std::string rule;  // non-triviality rule
    Stage &stage(const std::string &name, uint64_t count, std::function<void(uint64_t, Ctx &)> run,
                 std::function<std::string(uint64_t)> describe)
    {
        stages.push_back(Stage{name, count, std::move(run), std::move(describe)});
        return stages.back();
    }
};

struct StageResult {
    std::string name;
    uint64_t count = 0, done = 0;
    bool complete = false;
    double wall = 0;
    unsigned crashes = 0, hangs = 0;
    std::vector<std::string> samples;
    std::string note;
};

// called inside worker
inline void worker_loop(const Stage &st, Ctx &ctx, uint64_t block, uint64_t nblocks, uint64_t rot, int w,
                        uint64_t resume_from, uint64_t resume_end)
{
    Slot &sl = g_shm->slots[w];
    auto run_range = [&](uint64_t b, uint64_t e) {
        sl.blk_end.store(e);
        for (uint64_t i = b; i < e; ++i) {
            sl.cur.store(i);
            sl.busy.store(1);
            ctx.index = i;
            ctx.case_nontrivial = false;
            st.run(i, ctx);
            if (ctx.case_nontrivial) ++g_local_nontrivial;
            sl.busy.store(0);
            sl.progress.fetch_add(1);
        }
        g_shm->done_cases.fetch_add(e - b);
        flush_local();
    };
    if (resume_end > resume_from) run_range(resume_from, resume_end);
    for (;;) {
        if (g_shm->stop.load()) break;
        uint64_t k = g_shm->next_block.fetch_add(1);
        if (k >= nblocks) break;
        uint64_t bk = (k + rot) % nblocks;
        uint64_t b = bk * block, e = std::min(st.count, b + block);
        run_range(b, e);
    }
    flush_local();
}

inline std::string g_vdir;

int run_stage(const Stage &st, const Opts &o, double t_start, StageResult &res, std::vector<Violation> &viol);

inline void read_violations(const std::string &path, std::vector<Violation> &out);

// minimal JSON-lines reader for our own violation files
inline bool jfield(const std::string &line, const char *key, std::string &val)
{
    std::string k = std::string("\"") + key + "\":";
    size_t p = line.find(k);
    if (p == std::string::npos) return false;
    p += k.size();
    if (line[p] == '"') {
        ++p;
        std::string o;
        while (p < line.size() && line[p] != '"') {
            if (line[p] == '\\' && p + 1 < line.size()) {
                char c = line[p + 1];
                if (c == 'n') o += '\n';
                else if (c == 't') o += '\t';
                else if (c == 'r') o += '\r';
                else if (c == 'u') {
                    unsigned v = 0;
                    sscanf(line.c_str() + p + 2, "%4x", &v);
                    o += (char)v;
                    p += 4;
                } else o += c;
                p += 2;
            } else
                o += line[p++];
        }
        val = o;
    } else {
        size_t e = p;
        while (e < line.size() && line[e] != ',' && line[e] != '}') ++e;
        val = line.substr(p, e - p);
    }
    return true;
}

inline void read_violations(const std::string &path, std::vector<Violation> &out)
{
    FILE *f = fopen(path.c_str(), "r");
    if (!f) return;
    char *line = nullptr;
    size_t cap = 0;
    ssize_t n;
    while ((n = getline(&line, &cap, f)) > 0) {
        std::string l(line, n);
        Violation v;
        std::string idx;
        if (!jfield(l, "stage", v.stage)) continue;
        jfield(l, "index", idx);
        v.index = strtoull(idx.c_str(), nullptr, 10);
        jfield(l, "sig", v.sig);
        jfield(l, "detail", v.detail);
        jfield(l, "input", v.input);
        out.push_back(v);
    }
    free(line);
    fclose(f);
}

inline void child_alarm(int) {}

inline int run_stage(const Stage &st, const Opts &o, double t_start, StageResult &res, std::vector<Violation> &viol)
{
    res.name = st.name;
    res.count = st.count;
    res.note = st.note;
    double t0 = now_s();
    int W = std::max(1, std::min<int>(o.jobs, MAX_WORKERS));
    if (st.count < (uint64_t)W * 4) W = (int)std::max<uint64_t>(1, std::min<uint64_t>(W, st.count));
    uint64_t block = std::max<uint64_t>(1, std::min<uint64_t>(4096, st.count / ((uint64_t)W * 16)));
    uint64_t nblocks = (st.count + block - 1) / block;
    uint64_t rot = nblocks ? o.seed % nblocks : 0;
    g_shm->next_block.store(0);
    g_shm->done_cases.store(0);
    g_shm->stop.store(0);
    for (int w = 0; w < MAX_WORKERS; ++w) {
        g_shm->slots[w].busy.store(0);
        g_shm->slots[w].pid = 0;
        g_shm->slots[w].progress.store(0);
        g_shm->slots[w].hang_flag.store(0);
    }
    // samples (pure function of index)
    if (st.count && st.describe) {
        std::set<uint64_t> idxs = {0, st.count / 3, st.count / 2, st.count - 1};
        for (uint64_t i : idxs) res.samples.push_back(st.describe(i));
    }
    unsigned crash_cap = 40;
    std::vector<uint64_t> last_progress(W, 0);
    std::vector<double> last_change(W, now_s());
    std::vector<bool> alive(W, false);
    int live = 0;
    auto spawn = [&](int w, uint64_t rb, uint64_t re) {
        fflush(stdout);
        fflush(stderr);
        pid_t p = fork();
        if (p < 0) {
            perror("fork");
            _exit(2);
        }
        if (p == 0) {
            g_worker = w;
            Ctx ctx;
            ctx.stage = st.name.c_str();
            ctx.describe = st.describe;
            std::string vp = g_vdir + "/viol." + std::to_string(w) + ".jsonl";
            ctx.vfile = fopen(vp.c_str(), "a");
            worker_loop(st, ctx, block, nblocks, rot, w, rb, re);
            if (ctx.vfile) fclose(ctx.vfile);
            fflush(stdout);
            VF_COV_DUMP();
            _exit(0);
        }
        g_shm->slots[w].pid = p;
        alive[w] = true;
        last_progress[w] = g_shm->slots[w].progress.load();
        last_change[w] = now_s();
        ++live;
    };
    for (int w = 0; w < W; ++w) spawn(w, 0, 0);
    bool stopped_for_deadline = false;
    while (live > 0) {
        int status = 0;
        pid_t p = waitpid(-1, &status, WNOHANG);
        if (p == 0) {
            // watchdog
            double t = now_s();
            if (!stopped_for_deadline && t - t_start > o.deadline_s) {
                g_shm->stop.store(1);
                stopped_for_deadline = true;
            }
            for (int w = 0; w < W; ++w) {
                if (!alive[w]) continue;
                uint64_t pr = g_shm->slots[w].progress.load();
                if (pr != last_progress[w] || !g_shm->slots[w].busy.load()) {
                    last_progress[w] = pr;
                    last_change[w] = t;
                } else if (t - last_change[w] > st.case_timeout_s) {
                    g_shm->slots[w].hang_flag.store(1);
                    kill(g_shm->slots[w].pid, SIGKILL);
                    last_change[w] = t;
                }
            }
            struct timespec ts = {0, 20 * 1000 * 1000};
            nanosleep(&ts, nullptr);
            continue;
        }
        if (p < 0) {
            if (errno == EINTR) continue;
            break;
        }
        int w = -1;
        for (int i = 0; i < W; ++i)
            if (alive[i] && g_shm->slots[i].pid == p) w = i;
        if (w < 0) continue;
        alive[w] = false;
        --live;
        if (WIFEXITED(status) && WEXITSTATUS(status) == 0) continue;
        // abnormal termination: attribute to the case in progress
        Slot &sl = g_shm->slots[w];
        uint64_t idx = sl.cur.load(), bend = sl.blk_end.load();
        bool hang = sl.hang_flag.exchange(0) != 0;
        Violation v;
        v.stage = st.name;
        v.index = idx;
        v.input = st.describe ? st.describe(idx) : "";
        if (hang) {
            ++res.hangs;
            v.sig = "hang";
            v.detail = strf("case did not finish within %us (worker killed)", st.case_timeout_s);
        } else if (WIFSIGNALED(status)) {
            ++res.crashes;
            v.sig = strf("crash:signal=%d", WTERMSIG(status));
            v.detail = strf("worker died with signal %d (%s) while executing this case", WTERMSIG(status),
                            strsignal(WTERMSIG(status)));
        } else {
            ++res.crashes;
            v.sig = strf("crash:exit=%d", WEXITSTATUS(status));
            v.detail = strf("worker exited with status %d while executing this case", WEXITSTATUS(status));
        }
        g_shm->violations.fetch_add(1);
        viol.push_back(v);
        if (res.crashes + res.hangs < crash_cap) {
            sl.busy.store(0);
            // account for the cases of the block completed before the crash: not added to done (approximation)
            spawn(w, idx + 1, bend);
        } else {
            g_shm->stop.store(1);
        }
    }
    res.done = g_shm->done_cases.load();
    res.complete = (res.done == st.count) && res.crashes == 0 && res.hangs == 0 && !stopped_for_deadline;
    if (stopped_for_deadline && res.done == st.count) res.complete = (res.crashes == 0 && res.hangs == 0);
    res.wall = now_s() - t0;
    return 0;
}

inline void usage(const char *a0)
{
    fprintf(stderr,
            "usage: %s --tier quick|thorough [--jobs N] [--seed S] [--deadline SECS] --out FILE\n"
            "       %s --replay STAGE INDEX [--tier T]\n"
            "       %s --list [--tier T]\n",
            a0, a0, a0);
}

inline int main_driver(int argc, char **argv, const char *prop, std::function<void(Plan &, const Opts &)> build)
{
    Opts o;
    bool list = false;
    for (int i = 1; i < argc; ++i) {
        std::string a = argv[i];
        if (a == "--tier" && i + 1 < argc) o.tier = argv[++i];
        else if (a == "--jobs" && i + 1 < argc) o.jobs = atoi(argv[++i]);
        else if (a == "--seed" && i + 1 < argc) o.seed = strtoull(argv[++i], nullptr, 10);
        else if (a == "--deadline" && i + 1 < argc) o.deadline_s = atof(argv[++i]);
        else if (a == "--out" && i + 1 < argc) o.out = argv[++i];
        else if (a == "--stage" && i + 1 < argc) o.only_stage = argv[++i];
        else if (a == "--replay" && i + 2 < argc) {
            o.replay = true;
            o.replay_stage = argv[++i];
            o.replay_index = strtoull(argv[++i], nullptr, 10);
        } else if (a == "--list") list = true;
        else {
            usage(argv[0]);
            return 2;
        }
    }
    g_shm = (Shm *)mmap(nullptr, sizeof(Shm), PROT_READ | PROT_WRITE, MAP_SHARED | MAP_ANONYMOUS, -1, 0);
    if (g_shm == MAP_FAILED) {
        perror("mmap");
        return 2;
    }
    memset((void *)g_shm, 0, sizeof(Shm));
    Plan plan;
    build(plan, o);
    if (list) {
        for (auto &s : plan.stages) printf("%-40s %12" PRIu64 "\n", s.name.c_str(), s.count);
        return 0;
    }
    if (o.replay) {
        for (auto &s : plan.stages)
            if (s.name == o.replay_stage) {
                if (o.replay_index >= s.count) {
                    fprintf(stderr, "replay index out of range for stage %s\n", s.name.c_str());
                    return 2;
                }
                Ctx ctx;
                ctx.stage = s.name.c_str();
                ctx.describe = s.describe;
                ctx.replay = true;
                ctx.index = o.replay_index;
                printf("REPLAY property=%s stage=%s index=%" PRIu64 "\n  input: %s\n", prop, s.name.c_str(),
                       o.replay_index, s.describe ? s.describe(o.replay_index).c_str() : "");
                fflush(stdout);
                s.run(o.replay_index, ctx);
                size_t nv = 0;
                for (auto &kv : ctx.sig_seen) nv += kv.second;
                printf("REPLAY-RESULT violations=%zu\n", nv);
                return nv ? 1 : 0;
            }
        fprintf(stderr, "no such stage: %s\n", o.replay_stage.c_str());
        return 2;
    }
    if (o.out.empty()) {
        usage(argv[0]);
        return 2;
    }
    g_vdir = o.out + ".d";
    {
        std::error_code ec;
        std::filesystem::remove_all(g_vdir, ec);
        std::filesystem::create_directories(g_vdir, ec);
    }
    double t_start = now_s();
    std::vector<StageResult> results;
    std::vector<Violation> viol;
    bool all_complete = true;
    uint64_t total_cases = 0;
    for (auto &s : plan.stages) {
        if (!o.only_stage.empty() && s.name != o.only_stage) continue;
        StageResult r;
        if (now_s() - t_start > o.deadline_s) {
            r.name = s.name;
            r.count = s.count;
            r.note = "not started: deadline";
            all_complete = false;
            results.push_back(r);
            continue;
        }
        run_stage(s, o, t_start, r, viol);
        fprintf(stderr, "[%s] stage %-34s %12" PRIu64 "/%-12" PRIu64 " %6.1fs%s\n", prop, s.name.c_str(), r.done, r.count,
                r.wall, r.complete ? "" : " INCOMPLETE");
        if (!r.complete) all_complete = false;
        total_cases += r.done;
        results.push_back(r);
    }
    for (int w = 0; w < MAX_WORKERS; ++w) read_violations(g_vdir + "/viol." + std::to_string(w) + ".jsonl", viol);
    // dedupe by signature, keeping the smallest (stage order, index)
    std::map<std::string, std::pair<Violation, uint64_t>> bysig;
    std::map<std::string, int> stage_order;
    for (size_t i = 0; i < plan.stages.size(); ++i) stage_order[plan.stages[i].name] = (int)i;
    for (auto &v : viol) {
        auto it = bysig.find(v.sig);
        if (it == bysig.end()) bysig[v.sig] = {v, 1};
        else {
            it->second.second++;
            auto &c = it->second.first;
            if (std::make_pair(stage_order[v.stage], v.index) < std::make_pair(stage_order[c.stage], c.index)) c = v;
        }
    }
    FILE *f = fopen(o.out.c_str(), "w");
    if (!f) {
        perror("open out");
        return 2;
    }
    fprintf(f, "{\n \"property\":\"%s\",\n \"tier\":\"%s\",\n \"seed\":%" PRIu64 ",\n \"wall_s\":%.3f,\n", prop,
            o.tier.c_str(), o.seed, now_s() - t_start);
    fprintf(f, " \"all_complete\":%s,\n \"cases\":%" PRIu64 ",\n \"nontrivial\":%" PRIu64 ",\n \"violation_events\":%" PRIu64 ",\n",
            all_complete ? "true" : "false", total_cases, g_shm->nontrivial.load(), g_shm->violations.load());
    fprintf(f, " \"rule\":\"%s\",\n", json_escape(plan.rule).c_str());
    fprintf(f, " \"assumptions\":[");
    for (size_t i = 0; i < plan.assumptions.size(); ++i)
        fprintf(f, "%s\"%s\"", i ? "," : "", json_escape(plan.assumptions[i]).c_str());
    fprintf(f, "],\n \"counters\":{");
    bool first = true;
    for (int i = 0; i < MAX_COUNTERS; ++i)
        if (g_shm->counters[i].used.load() == 2) {
            fprintf(f, "%s\"%s\":%" PRIu64, first ? "" : ",", json_escape(g_shm->counters[i].name).c_str(),
                    g_shm->counters[i].value.load());
            first = false;
        }
    fprintf(f, "},\n \"stages\":[\n");
    for (size_t i = 0; i < results.size(); ++i) {
        auto &r = results[i];
        fprintf(f, "  {\"name\":\"%s\",\"count\":%" PRIu64 ",\"done\":%" PRIu64 ",\"complete\":%s,\"wall_s\":%.3f,\"crashes\":%u,\"hangs\":%u,\"note\":\"%s\",\"samples\":[",
                json_escape(r.name).c_str(), r.count, r.done, r.complete ? "true" : "false", r.wall, r.crashes, r.hangs,
                json_escape(r.note).c_str());
        for (size_t k = 0; k < r.samples.size(); ++k)
            fprintf(f, "%s\"%s\"", k ? "," : "", json_escape(r.samples[k]).c_str());
        fprintf(f, "]}%s\n", i + 1 < results.size() ? "," : "");
    }
    fprintf(f, " ],\n \"violations\":[\n");
    size_t k = 0;
    for (auto &kv : bysig) {
        auto &v = kv.second.first;
        fprintf(f, "  {\"sig\":\"%s\",\"count\":%" PRIu64 ",\"stage\":\"%s\",\"index\":%" PRIu64 ",\"input\":\"%s\",\"detail\":\"%s\"}%s\n",
                json_escape(v.sig).c_str(), kv.second.second, json_escape(v.stage).c_str(), v.index,
                json_escape(v.input).c_str(), json_escape(v.detail).c_str(), ++k < bysig.size() ? "," : "");
    }
    fprintf(f, " ]\n}\n");
    fclose(f);
    {
        std::error_code ec;
        std::filesystem::remove_all(g_vdir, ec);
    }
    return 0;
}

// ---------------------------------------------------------------- outcome of a guarded library call
enum OutKind {
    OK = 0,
    EX_UNICODE,
    EX_CODEC,
    EX_BADFORMAT,
    EX_OUT_OF_RANGE,
    EX_INVALID_ARG,
    EX_BAD_ALLOC,
    EX_ASSERT,
    EX_OTHER_STD,
    EX_UNKNOWN
};
inline const char *outkind_name(OutKind k)
{
    static const char *n[] = {"ok",           "unicode_error", "codec_error", "bad_format", "out_of_range",
                              "invalid_argument", "bad_alloc",     "assert",      "std::exception", "unknown_exception"};
    return n[k];
}
struct Outcome {
    OutKind kind = OK;
    std::string what;
    bool ok() const { return kind == OK; }
    std::string str() const { return kind == OK ? "ok" : std::string(outkind_name(kind)) + "(" + what + ")"; }
};

}  // namespace vf

#if !defined(VF_NO_ABORT_HOOK) && defined(VF_MAIN_TU)
namespace std {
int verif_fprintf(FILE *f, const char *fmt, ...)
{
    va_list ap;
    va_start(ap, fmt);
    if (f == stderr) {
        vsnprintf(vf::g_last_assert, sizeof vf::g_last_assert, fmt, ap);
        size_t n = strlen(vf::g_last_assert);
        while (n && (vf::g_last_assert[n - 1] == '\n')) vf::g_last_assert[--n] = 0;
        va_end(ap);
        return (int)n;
    }
    int r = vfprintf(f, fmt, ap);
    va_end(ap);
    return r;
}
[[noreturn]] void verif_abort()
{
    vf::AbortEx e;
    strncpy(e.msg, vf::g_last_assert, sizeof e.msg - 1);
    e.msg[sizeof e.msg - 1] = 0;
    throw e;
}
}  // namespace std
#endif

namespace vf {
// run f, classify what comes out.  Needs string_theory's exception types => st_assert.h included above.
template <class F>
inline Outcome guard(F &&f)
{
    Outcome o;
    try {
        f();
    } catch (const ST::unicode_error &e) {
        o.kind = EX_UNICODE;
        o.what = e.what();
    } catch (const ST::codec_error &e) {
        o.kind = EX_CODEC;
        o.what = e.what();
    } catch (const ST::bad_format &e) {
        o.kind = EX_BADFORMAT;
        o.what = e.what();
    } catch (const std::out_of_range &e) {
        o.kind = EX_OUT_OF_RANGE;
        o.what = e.what();
    } catch (const std::invalid_argument &e) {
        o.kind = EX_INVALID_ARG;
        o.what = e.what();
    } catch (const std::bad_alloc &e) {
        o.kind = EX_BAD_ALLOC;
        o.what = e.what();
    } catch (const AbortEx &e) {
        o.kind = EX_ASSERT;
        // strip the absolute path prefix so signatures do not depend on where /repo lives
        const char *m = e.msg;
        const char *slash = strrchr(m, '/');
        const char *colon = strchr(m, ':');
        if (slash && colon && slash < colon) m = slash + 1;
        o.what = m;
    } catch (const std::exception &e) {
        o.kind = EX_OTHER_STD;
        o.what = e.what();
    } catch (...) {
        o.kind = EX_UNKNOWN;
    }
    return o;
}
}  // namespace vf

#define VF_MAIN(PROP, BUILD)                                  \
    int main(int argc, char **argv)                           \
    {                                                         \
        return vf::main_driver(argc, argv, PROP, BUILD);      \
    }
