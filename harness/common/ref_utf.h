// ref_utf.h - reference UTF-8/16/32/Latin-1 encoders and "tolerant" left-to-right decoders.
//
// Written from the Unicode definitions (D90-D92) with division/modulo arithmetic and an
// explicit range table; NOT transcribed from the library.  The decoders implement the reading
// property C02 describes: reading left to right, a unit is *bad* when it cannot be part of a
// sequence where it stands; the forms the library tolerates by design (overlong encodings,
// encoded surrogates, 4-byte forms above U+10FFFF, a low surrogate followed by a high one)
// count as well-formed.  A bad unit is skipped alone (scanning resumes at the next unit).
#pragma once
#include <cstdint>
#include <string>
#include <vector>

namespace ref {

typedef std::basic_string<uint32_t> cps_t;  // not used for I/O, only as value container

inline bool is_scalar(uint32_t v) { return v < 0xD800u || (v >= 0xE000u && v <= 0x10FFFFu); }

// ------------------------------------------------------------------ encoders (any v <= 0x10FFFF, surrogates included)
inline void enc8(uint32_t v, std::string &o)
{
    if (v <= 0x7F) {
        o += (char)v;
    } else if (v <= 0x7FF) {
        o += (char)(192 + v / 64);
        o += (char)(128 + v % 64);
    } else if (v <= 0xFFFF) {
        o += (char)(224 + v / 4096);
        o += (char)(128 + v / 64 % 64);
        o += (char)(128 + v % 64);
    } else {
        o += (char)(240 + v / 262144);
        o += (char)(128 + v / 4096 % 64);
        o += (char)(128 + v / 64 % 64);
        o += (char)(128 + v % 64);
    }
}
inline void enc16(uint32_t v, std::u16string &o)
{
    if (v <= 0xFFFF) {
        o += (char16_t)v;
    } else {
        uint32_t w = v - 65536;
        o += (char16_t)(55296 + w / 1024);
        o += (char16_t)(56320 + w % 1024);
    }
}

// ------------------------------------------------------------------ tolerant decoders
struct Item {
    bool good;
    uint32_t v;      // decoded value (good only)
    unsigned start;  // first unit
    unsigned len;    // units consumed (1 for bad)
};

// number of continuation bytes a lead byte asks for; -1 = cannot start a sequence
inline int need8(unsigned char b)
{
    if (b <= 0x7F) return 0;
    if (b <= 0xBF) return -1;  // continuation byte
    if (b <= 0xDF) return 1;   // C0, C1 (overlong) tolerated
    if (b <= 0xEF) return 2;
    if (b <= 0xF7) return 3;   // F5..F7 (> U+10FFFF) tolerated
    return -1;                 // F8..FF
}
inline bool is_cont(unsigned char b) { return b >= 0x80 && b <= 0xBF; }

inline void dec8(const unsigned char *p, size_t n, std::vector<Item> &out)
{
    out.clear();
    size_t i = 0;
    while (i < n) {
        int k = need8(p[i]);
        // can start a sequence, and enough bytes left for it?
        bool ok = k >= 0 && (i + (size_t)k + 1 <= n);
        if (ok)
            for (int j = 1; j <= k; ++j)
                if (!is_cont(p[i + j])) ok = false;
        if (!ok) {
            out.push_back(Item{false, 0, (unsigned)i, 1});
            i += 1;
            continue;
        }
        uint32_t v;
        if (k == 0) v = p[i];
        else if (k == 1) v = (p[i] - 192u) * 64 + (p[i + 1] - 128u);
        else if (k == 2) v = (p[i] - 224u) * 4096 + (p[i + 1] - 128u) * 64 + (p[i + 2] - 128u);
        else v = (p[i] - 240u) * 262144 + (p[i + 1] - 128u) * 4096 + (p[i + 2] - 128u) * 64 + (p[i + 3] - 128u);
        out.push_back(Item{true, v, (unsigned)i, (unsigned)k + 1});
        i += (size_t)k + 1;
    }
}

inline bool is_hi(uint32_t u) { return u >= 0xD800 && u <= 0xDBFF; }
inline bool is_lo(uint32_t u) { return u >= 0xDC00 && u <= 0xDFFF; }

inline void dec16(const char16_t *p, size_t n, std::vector<Item> &out)
{
    out.clear();
    size_t i = 0;
    while (i < n) {
        uint32_t u = p[i];
        if (!is_hi(u) && !is_lo(u)) {
            out.push_back(Item{true, u, (unsigned)i, 1});
            i += 1;
        } else if (i + 1 < n && is_hi(u) && is_lo(p[i + 1])) {
            out.push_back(Item{true, 65536 + (u - 55296) * 1024 + (p[i + 1] - 56320u), (unsigned)i, 2});
            i += 2;
        } else if (i + 1 < n && is_lo(u) && is_hi(p[i + 1])) {
            // tolerated: low surrogate followed by a high one
            out.push_back(Item{true, 65536 + (p[i + 1] - 55296u) * 1024 + (u - 56320), (unsigned)i, 2});
            i += 2;
        } else {
            out.push_back(Item{false, 0, (unsigned)i, 1});
            i += 1;
        }
    }
}

inline void dec32(const char32_t *p, size_t n, std::vector<Item> &out)
{
    out.clear();
    for (size_t i = 0; i < n; ++i) {
        uint32_t u = p[i];
        if (u <= 0x10FFFF) out.push_back(Item{true, u, (unsigned)i, 1});  // encoded surrogates tolerated
        else out.push_back(Item{false, 0, (unsigned)i, 1});
    }
}

// ------------------------------------------------------------------ expected result of a conversion
enum Enc { E8 = 0, E16 = 1, E32 = 2, EL1 = 3 };
enum Mode { ASSUME = 0, SUBST = 1, CHECK = 2 };
enum Tgt {
    T8,        // UTF-8 produced by transcoding (from UTF-16/32)
    T8SAME,    // UTF-8 from UTF-8 (ST::string construction): good sequences are copied as they are
    T16,
    T32,
    TL1S,      // Latin-1, out-of-range values replaced by '?'
    TL1N       // Latin-1, out-of-range values raise
};

struct Expect {
    bool throws = false;          // ST::unicode_error expected
    bool content_unspecified = false;  // assume_valid on malformed input: only size/safety asserted
    bool beyond16 = false;        // a tolerated 4-byte form above U+10FFFF headed for UTF-16 (C03 only: throw or 1 unit)
    bool has_bad = false;
    bool has_tolerated = false;   // decoded a surrogate / value above 10FFFF / overlong form
    std::vector<uint32_t> units;  // expected target units (size always meaningful unless throws)
};

inline void put8(std::vector<uint32_t> &u, uint32_t v)
{
    std::string s;
    enc8(v, s);
    for (unsigned char c : s) u.push_back(c);
}
inline void put16(std::vector<uint32_t> &u, uint32_t v)
{
    std::u16string s;
    enc16(v, s);
    for (char16_t c : s) u.push_back(c);
}

// src: the raw source units widened to uint32 (needed for T8SAME, and overlong detection)
inline void expect(const std::vector<Item> &items, const std::vector<uint32_t> &src, Enc senc, Tgt tgt, Mode mode, Expect &e)
{
    e = Expect();
    for (auto &it : items) {
        if (!it.good) e.has_bad = true;
        else {
            if (!is_scalar(it.v)) e.has_tolerated = true;
            if (senc == E8) {
                std::string s;
                if (it.v <= 0x10FFFF) enc8(it.v, s);
                if (s.size() != it.len) e.has_tolerated = true;  // overlong
            }
            if (senc == E16 && it.len == 2 && is_lo(src[it.start])) e.has_tolerated = true;
            if (tgt == T16 && it.v > 0x10FFFF) e.beyond16 = true;
        }
    }
    if (mode == CHECK && e.has_bad) {
        e.throws = true;
        return;
    }
    if (mode == ASSUME && e.has_bad && tgt != T8SAME) e.content_unspecified = true;
    for (auto &it : items) {
        if (!it.good) {
            if (tgt == T8SAME && mode == ASSUME) {
                e.units.push_back(src[it.start]);  // bytes taken as they are
                continue;
            }
            switch (tgt) {
            case T8:
            case T8SAME: put8(e.units, 0xFFFD); break;
            case T16:
            case T32: e.units.push_back(0xFFFD); break;
            case TL1S:
            case TL1N: e.units.push_back('?'); break;
            }
            continue;
        }
        switch (tgt) {
        case T8SAME:
            for (unsigned k = 0; k < it.len; ++k) e.units.push_back(src[it.start + k]);
            break;
        case T8: put8(e.units, it.v); break;  // v <= 10FFFF always here (sources are UTF-16/32)
        case T16:
            if (it.v > 0x10FFFF) {
                e.beyond16 = true;
                e.units.push_back(0xFFFD);  // one unit is what the measuring pass reserves
            } else
                put16(e.units, it.v);
            break;
        case T32: e.units.push_back(it.v); break;
        case TL1S: e.units.push_back(it.v < 256 ? it.v : (uint32_t)'?'); break;
        case TL1N:
            if (it.v >= 256) {
                e.throws = true;
                return;
            }
            e.units.push_back(it.v);
            break;
        }
    }
}

// does `units` (in encoding enc) consist of good items only?
inline bool all_good(Enc enc, const std::vector<uint32_t> &units)
{
    std::vector<Item> items;
    if (enc == E8) {
        std::string s;
        for (uint32_t u : units) s += (char)u;
        dec8((const unsigned char *)s.data(), s.size(), items);
    } else if (enc == E16) {
        std::u16string s;
        for (uint32_t u : units) s += (char16_t)u;
        dec16(s.data(), s.size(), items);
    } else if (enc == E32) {
        std::u32string s;
        for (uint32_t u : units) s += (char32_t)u;
        dec32(s.data(), s.size(), items);
    } else
        return true;
    for (auto &it : items)
        if (!it.good) return false;
    return true;
}

}  // namespace ref
