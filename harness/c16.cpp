// C16 - string_stream content equals the concatenation of everything appended.
// histx (explicit-state BFS on real ST::string_stream objects), three jobs:
//   dense:   one stream, every size 0..cap reachable (+1 steps), appends of {1,2,255,256,257,513,2049},
//            truncate / erase to every boundary, to FIXPOINT.  Appended bytes are g(offset), so the
//            content is a function of the size and the state is (size, capacity, storage).
//   pair:    two streams over a sparse size set around 256/512/1024, move construction and move
//            assignment in every storage-mode combination, destroy / recreate, to FIXPOINT.
//   overload: from base sizes around the growth boundaries every operator<< overload, depth-bounded,
//            content tracked explicitly.
#define VF_MAIN_TU
#include "verif.h"
#include "alloc.h"
#include "histx.h"
#include <cmath>
#include <limits>
#include "ref_utf.h"
#include "st_stringstream.h"

using hx::Fail;
using hx::Fails;
using vf::strf;
typedef ST::string_stream SS;

enum { STACK = ST_STACK_STRING_SIZE };

// content function: byte at stream offset p (valid UTF-8 pattern "a e-acute euro Z", perturbed so that no
// shift below 9464 bytes maps the sequence onto itself)
static unsigned char g(size_t p)
{
    static const unsigned char pat[7] = {0x61, 0xC3, 0xA9, 0xE2, 0x82, 0xAC, 0x5A};
    unsigned r = p % 7;
    if (r == 0) return (unsigned char)('a' + (p / 7) % 26);
    if (r == 6) {
        unsigned i = (p / 182) % 52;
        return (unsigned char)(i < 26 ? 'A' + i : 'a' + (i - 26));
    }
    return pat[r];
}
static std::string G;  // g(0..N)

// expected to_string results from the reference decoder
static void check_to_string(const SS &ss, const std::string &model, const std::function<void(const std::string &, const std::string &)> &fail)
{
    std::vector<ref::Item> items;
    ref::dec8((const unsigned char *)model.data(), model.size(), items);
    std::vector<uint32_t> src;
    for (unsigned char c : model) src.push_back(c);
    static const ST::utf_validation_t M[3] = {ST::assume_valid, ST::substitute_invalid, ST::check_validity};
    for (int m = 0; m < 4; ++m) {
        ref::Expect e;
        ref::expect(items, src, ref::E8, ref::T8SAME, (ref::Mode)(m == 3 ? 2 : m), e);
        std::string got;
        vf::Outcome oc = vf::guard([&] {
            ST::string s = m == 3 ? ss.to_string() : ss.to_string(true, M[m]);
            got.assign(s.c_str(), s.size());
        });
        if (e.throws) {
            if (oc.kind != vf::EX_UNICODE) fail("to_string:invalid-utf8-not-rejected", strf("mode %d: %s", m, oc.str().c_str()));
        } else if (!oc.ok()) {
            fail(strf("to_string:%s", vf::outkind_name(oc.kind)), strf("mode %d: %s", m, oc.str().c_str()));
        } else {
            std::string want;
            for (uint32_t u : e.units) want += (char)u;
            if (got != want) fail("to_string:wrong-bytes", strf("mode %d: got %zu bytes, want %zu", m, got.size(), want.size()));
        }
    }
    // Latin-1 reading
    std::string want;
    for (unsigned char c : model) ref::enc8(c, want);
    std::string got;
    vf::Outcome oc = vf::guard([&] {
        ST::string s = ss.to_string(false);
        got.assign(s.c_str(), s.size());
    });
    if (!oc.ok()) fail(strf("to_string(latin1):%s", vf::outkind_name(oc.kind)), oc.str());
    else if (got != want) fail("to_string(latin1):wrong-bytes", strf("got %zu bytes, want %zu", got.size(), want.size()));
}

// ------------------------------------------------------------------------------------------------ common base
struct StreamBase {
    int NS;
    std::vector<hx::Slot<SS>> slots;
    std::vector<std::string> model;  // expected content per slot
    std::vector<std::string> sample_list;
    uint64_t n_reads = 0, n_checked = 0;

    StreamBase(int ns) : NS(ns), slots(ns), model(ns) { vf::tracking_begin(); }
    void reset_world()
    {
        for (int i = 0; i < NS; ++i) {
            slots[i].alive = false;
            slots[i].poison();
            model[i].clear();
        }
        vf::tracking_reset();
        vf::events_reset();
    }
    enum PKind { P_STACK, P_HEAP, P_HEAP_SHARED, P_INSLOT, P_FREED, P_OTHER };
    PKind pkind(int s, size_t *bsize = nullptr, int *other = nullptr) const
    {
        const SS *o = slots[s].obj();
        const void *p = o->m_chars;
        if (p == (const void *)o->m_stack) return P_STACK;
        for (int k = 0; k < NS; ++k)
            if (slots[k].contains(p)) {
                if (other) *other = k;
                return P_INSLOT;
            }
        const vf::Block *b = vf::find_block(p);
        if (!b || p != b->ptr) return P_OTHER;
        if (bsize) *bsize = b->size;
        if (!b->live) return P_FREED;
        for (int k = 0; k < NS; ++k)
            if (k != s && slots[k].alive && (const void *)slots[k].obj()->m_chars == p) {
                if (other) *other = k;
                return P_HEAP_SHARED;
            }
        return P_HEAP;
    }
    static const char *pkname(PKind k)
    {
        static const char *n[] = {"its own in-object buffer", "a live heap block of its own", "a heap block another stream also uses",
                                  "the inside of another stream object", "a freed heap block", "foreign memory"};
        return n[k];
    }
    // "" when valid; otherwise (class, text)
    std::pair<std::string, std::string> validity(int s) const
    {
        const SS *o = slots[s].obj();
        size_t bsize = 0;
        PKind k = pkind(s, &bsize);
        if (o->m_alloc == 0) return {"zero-capacity", "capacity is 0 (appending can never make room)"};
        if (o->m_size > o->m_alloc) return {"size-exceeds-capacity", strf("size %zu > capacity %zu", o->m_size, o->m_alloc)};
        if (o->m_alloc > STACK) {
            if (k != P_HEAP) return {strf("storage-not-owned:%d", (int)k), strf("capacity %zu needs heap storage but raw_buffer() is %s", o->m_alloc, pkname(k))};
            if (bsize < o->m_alloc) return {"block-smaller-than-capacity", strf("heap block of %zu bytes for capacity %zu", bsize, o->m_alloc)};
        } else if (k != P_STACK)
            return {strf("storage-not-owned:%d", (int)k), strf("capacity %zu is the in-object buffer but raw_buffer() is %s", o->m_alloc, pkname(k))};
        return {"", ""};
    }
    std::string leak_check() const
    {
        size_t owned = 0;
        for (int s = 0; s < NS; ++s)
            if (slots[s].alive && pkind(s) == P_HEAP) ++owned;
        size_t live = vf::live_tracked();
        if (live != owned) return strf("%zu heap block(s) live, %zu owned by live streams", live, owned);
        return "";
    }
    std::string base_key(bool with_content) const
    {
        std::string k;
        for (int s = 0; s < NS; ++s) {
            if (!slots[s].alive) {
                k += "D|";
                continue;
            }
            const SS *o = slots[s].obj();
            k += strf("z%zu,a%zu,k%d", o->m_size, o->m_alloc, (int)pkind(s));
            if (with_content) {
                // FNV-1a of the model content
                uint64_t h = 1469598103934665603ull;
                for (unsigned char c : model[s]) h = (h ^ c) * 1099511628211ull;
                k += strf(",h%016llx", (unsigned long long)h);
            }
            k += "|";
        }
        return k;
    }
    // common post-conditions: validity of every live stream, content vs model, leaks, allocator events
    void post(const char *tag, const std::string &opn, int tgt, int src_moved, Fails &f) const
    {
        auto fail = [&](const std::string &what, const std::string &detail) {
            f.push_back(Fail{strf("c16:%s:%s", tag, what.c_str()), opn + ": " + detail});
        };
        if (vf::events_total()) fail("heap-event", vf::g_alloc.first_event);
        for (int s = 0; s < NS; ++s) {
            std::string fd = const_cast<hx::Slot<SS> &>(slots[s]).fence_damage();
            if (!fd.empty()) fail("write-outside-object", strf("s%d: %s", s, fd.c_str()));
        }
        for (int s = 0; s < NS; ++s) {
            if (!slots[s].alive) continue;
            auto v = validity(s);
            const char *role = s == tgt ? "target" : s == src_moved ? "moved-from" : "bystander";
            if (!v.first.empty()) {
                fail(strf("%s-invalid:%s", role, v.first.c_str()), strf("s%d (%s): %s", s, role, v.second.c_str()));
                continue;
            }
            const SS *o = slots[s].obj();
            if (s == src_moved) {
                if (o->size() != 0) fail("moved-from-not-empty", strf("s%d reports size %zu after being moved from", s, o->size()));
                continue;
            }
            if (o->size() != model[s].size())
                fail(strf("%s-wrong-size", role), strf("s%d size() %zu, model %zu", s, o->size(), model[s].size()));
            else if (memcmp(o->raw_buffer(), model[s].data(), model[s].size()) != 0) {
                size_t d = 0;
                while (d < model[s].size() && o->raw_buffer()[d] == model[s][d]) ++d;
                fail(strf("%s-wrong-content", role), strf("s%d differs from the model at offset %zu of %zu", s, d, model[s].size()));
            }
        }
        if (!f.empty()) return;
        std::string leak = leak_check();
        if (!leak.empty()) fail("leak-or-lost-block", leak);
    }
    void samples(std::vector<std::string> &out) const { out = sample_list; }
    void counters(std::map<std::string, uint64_t> &c) const
    {
        c["reads"] += n_reads;
        c["checked-transitions"] += n_checked;
    }
};

#define LIB(stmt)        \
    do {                 \
        vf::OpScope _sc; \
        stmt;            \
    } while (0)

// ------------------------------------------------------------------------------------------------ dense / pair
enum SKind { S_NEW, S_DTOR, S_APPEND, S_APPEND_CHAR, S_APPEND_AUTO, S_TRUNC, S_TRUNC_REL, S_ERASE, S_ERASE_REL, S_RESIZE, S_MOVE_CTOR, S_MOVE_ASSIGN };
struct SOp {
    SKind k;
    int i, j;
    long n;
};

struct StreamSys : StreamBase {
    std::vector<SOp> ops;
    std::string nm;
    size_t cap;
    bool dense;

    StreamSys(bool dense_, size_t cap_) : StreamBase(dense_ ? 1 : 2), cap(cap_), dense(dense_)
    {
        nm = dense ? strf("one stream, every size 0..%zu", cap) : strf("two streams, sparse sizes up to %zu, moves", cap);
        if (dense) {
            ops.push_back(SOp{S_NEW, 0, -1, 0});
            for (long n : {1L, 2L, 255L, 256L, 257L, 513L, 2049L, 4097L}) ops.push_back(SOp{S_APPEND, 0, -1, n});
            ops.push_back(SOp{S_APPEND, 0, -1, 0});
            ops.push_back(SOp{S_APPEND_CHAR, 0, -1, 1});
            ops.push_back(SOp{S_APPEND_CHAR, 0, -1, 0});
            for (long n : {0L, 1L, 255L, 256L, 257L, 511L, 512L, 513L}) ops.push_back(SOp{S_TRUNC, 0, -1, n});
            for (long d : {-1L, 0L, 1L}) ops.push_back(SOp{S_TRUNC_REL, 0, -1, d});
            for (long n : {0L, 1L, 256L}) ops.push_back(SOp{S_ERASE, 0, -1, n});
            for (long d : {-1L, 0L, 1L}) ops.push_back(SOp{S_ERASE_REL, 0, -1, d});
        } else {
            for (int i = 0; i < 2; ++i) {
                ops.push_back(SOp{S_NEW, i, -1, 0});
                ops.push_back(SOp{S_DTOR, i, -1, 0});
                for (long n : {0L, 1L, 255L, 256L, 257L, 512L, 513L, 1025L, 2100L, 4200L})
                    if ((size_t)n <= cap) ops.push_back(SOp{S_RESIZE, i, -1, n});
                ops.push_back(SOp{S_MOVE_CTOR, i, 1 - i, 0});
                ops.push_back(SOp{S_MOVE_ASSIGN, i, 1 - i, 0});
            }
        }
    }
    const char *name() const { return nm.c_str(); }
    size_t op_count() const { return ops.size(); }
    void reset() { reset_world(); }
    std::string key() const { return base_key(false); }
    bool nontrivial() const
    {
        for (int s = 0; s < NS; ++s)
            if (slots[s].alive && slots[s].obj()->m_alloc > STACK) return true;
        return false;
    }
    bool enabled(size_t id) const
    {
        const SOp &o = ops[id];
        switch (o.k) {
        case S_NEW: return !slots[o.i].alive;
        case S_MOVE_CTOR: return !slots[o.i].alive && slots[o.j].alive;
        case S_MOVE_ASSIGN: return slots[o.i].alive && slots[o.j].alive;
        case S_APPEND:
        case S_APPEND_CHAR: return slots[o.i].alive && model[o.i].size() + (size_t)o.n <= cap;
        default: return slots[o.i].alive;
        }
    }
    std::string op_name(size_t id) const
    {
        const SOp &o = ops[id];
        switch (o.k) {
        case S_NEW: return strf("new(s%d) string_stream()", o.i);
        case S_DTOR: return strf("s%d.~string_stream()", o.i);
        case S_APPEND: return strf("s%d.append(g+size, %ld)", o.i, o.n);
        case S_APPEND_CHAR: return strf("s%d.append_char(g(size), %ld)", o.i, o.n);
        case S_TRUNC: return strf("s%d.truncate(%ld)", o.i, o.n);
        case S_TRUNC_REL: return strf("s%d.truncate(size%+ld)", o.i, o.n);
        case S_ERASE: return strf("s%d.erase(%ld)", o.i, o.n);
        case S_ERASE_REL: return strf("s%d.erase(size%+ld)", o.i, o.n);
        case S_RESIZE: return strf("s%d: append or truncate to size %ld", o.i, o.n);
        case S_MOVE_CTOR: return strf("new(s%d) string_stream(std::move(s%d))", o.i, o.j);
        case S_MOVE_ASSIGN: return strf("s%d = std::move(s%d)", o.i, o.j);
        default: return "?";
        }
    }
    void apply(size_t id, bool checked, Fails &f)
    {
        const SOp &o = ops[id];
        SS *a = slots[o.i].obj();
        SS *b = o.j >= 0 ? slots[o.j].obj() : nullptr;
        std::string &m = model[o.i];
        std::string opn = checked ? op_name(id) : std::string();
        const char *tag = "";
        int moved = -1;
        if (checked) {
            ++n_checked;
            vf::events_reset();
        }
        vf::Outcome oc = vf::guard([&] {
            switch (o.k) {
            case S_NEW:
                LIB(new (a) SS());
                slots[o.i].alive = true;
                m.clear();
                tag = "construct";
                break;
            case S_DTOR:
                LIB(a->~SS());
                slots[o.i].alive = false;
                slots[o.i].poison();
                m.clear();
                tag = "destroy";
                break;
            case S_APPEND: {
                size_t at = m.size();
                LIB(a->append(G.data() + at, (size_t)o.n));
                m.append(G, at, (size_t)o.n);
                tag = "append";
                break;
            }
            case S_APPEND_CHAR: {
                size_t at = m.size();
                LIB(a->append_char((char)g(at), (size_t)o.n));
                m.append((size_t)o.n, (char)g(at));
                tag = "append_char";
                break;
            }
            case S_TRUNC:
            case S_TRUNC_REL: {
                long t = o.k == S_TRUNC ? o.n : (long)m.size() + o.n;
                if (t < 0) t = 0;
                LIB(a->truncate((size_t)t));
                if ((size_t)t < m.size()) m.resize((size_t)t);
                tag = "truncate";
                break;
            }
            case S_ERASE:
            case S_ERASE_REL: {
                long t = o.k == S_ERASE ? o.n : (long)m.size() + o.n;
                if (t < 0) t = 0;
                LIB(a->erase((size_t)t));
                m.resize((size_t)t < m.size() ? m.size() - (size_t)t : 0);
                tag = "erase";
                break;
            }
            case S_RESIZE: {
                size_t at = m.size();
                if ((size_t)o.n > at) {
                    // alternate between one append call, append_char + append, and the NUL-terminated overload path
                    if ((at + o.n) % 2) LIB(a->append(G.data() + at, (size_t)o.n - at));
                    else {
                        LIB(a->append_char((char)g(at)));
                        LIB(a->append(G.data() + at + 1, (size_t)o.n - at - 1));
                    }
                    m.append(G, at, (size_t)o.n - at);
                    tag = "append";
                } else {
                    LIB(a->truncate((size_t)o.n));
                    m.resize((size_t)o.n);
                    tag = "truncate";
                }
                break;
            }
            case S_MOVE_CTOR:
                LIB(new (a) SS(std::move(*b)));
                slots[o.i].alive = true;
                m = model[o.j];
                model[o.j].clear();
                moved = o.j;
                tag = "move-ctor";
                break;
            case S_MOVE_ASSIGN:
                LIB(*a = std::move(*b));
                m = model[o.j];
                model[o.j].clear();
                moved = o.j;
                tag = "move-assign";
                break;
            default: break;
            }
        });
        if (!checked) return;
        if (!oc.ok()) {
            f.push_back(Fail{strf("c16:%s:%s", tag, vf::outkind_name(oc.kind)), opn + ": " + oc.str()});
            return;
        }
        post(tag, opn, o.i, moved, f);
    }
    void on_new_state(Fails &f)
    {
        for (int s = 0; s < NS; ++s) {
            if (!slots[s].alive) continue;
            // to_string at sizes near the boundaries and every 61st size (cost control); contents are g(0..size)
            size_t z = model[s].size();
            bool near = z <= 8 || (z % 256) <= 2 || (z % 256) >= 254 || z % 61 == 0;
            if (!near) continue;
            n_reads += 5;
            check_to_string(*slots[s].obj(), model[s], [&](const std::string &what, const std::string &detail) {
                f.push_back(Fail{"c16:" + what, strf("s%d size %zu: %s", s, z, detail.c_str())});
            });
        }
        for (int s = 0; s < NS; ++s) {
            std::string fd = slots[s].fence_damage();
            if (!fd.empty()) f.push_back(Fail{"c16:read:write-outside-object", strf("s%d: %s (while reading raw_buffer()/to_string())", s, fd.c_str())});
        }
        if (sample_list.size() < 5 && nontrivial()) sample_list.push_back(key());
    }
};

// ------------------------------------------------------------------------------------------------ overload mode
struct OvOp {
    std::string name;
    std::function<void(SS &)> call;
    std::string appended;
    std::function<std::string(const std::string &)> dyn = nullptr;  // appended text as a function of the current content
};

struct OverloadSys : StreamBase {
    std::vector<size_t> bases;
    std::vector<OvOp> ov;
    std::string nm;
    bool started = false;

    static std::string fmt(const char *f, ...)
    {
        char buf[128];
        va_list ap;
        va_start(ap, f);
        vsnprintf(buf, sizeof buf, f, ap);
        va_end(ap);
        return buf;
    }
    template <class T>
    void add_int(const char *tname, T v, const char *pf)
    {
        ov.push_back(OvOp{strf("<< (%s)%s", tname, fmt(pf, v).c_str()), [v](SS &s) { s << v; }, fmt(pf, v)});
    }
    OverloadSys(unsigned depth) : StreamBase(1)
    {
        nm = strf("every operator<< overload from base sizes, depth %u", depth);
        bases = {0, 250, 255, 256, 500, 511, 1020};
        static const char u8txt[] = "h\xC3\xA9llo \xE2\x82\xAC \xF0\x9F\x98\x80";
        static const std::string txt = u8txt;
        static const std::wstring wtxt = L"héllo € \U0001F600";
        static const std::u16string u16txt = u"héllo € \U0001F600";
        static const std::u32string u32txt = U"héllo € \U0001F600";
        static const std::u8string u8s = u8"héllo € \U0001F600";
        static const std::string long_ascii(300, 'q');
        static const std::wstring long_w(300, L'é');
        std::string long_w_u8;
        for (int i = 0; i < 300; ++i) long_w_u8 += "\xC3\xA9";
        ov.push_back(OvOp{"<< const char*", [](SS &s) { s << txt.c_str(); }, txt});
        ov.push_back(OvOp{"<< (const char*)nullptr", [](SS &s) { s << (const char *)nullptr; }, ""});
        ov.push_back(OvOp{"<< \"\"", [](SS &s) { s << ""; }, ""});
        ov.push_back(OvOp{"<< const wchar_t*", [](SS &s) { s << wtxt.c_str(); }, txt});
        ov.push_back(OvOp{"<< (const wchar_t*)nullptr", [](SS &s) { s << (const wchar_t *)nullptr; }, ""});
        ov.push_back(OvOp{"<< (const char16_t*)nullptr", [](SS &s) { s << (const char16_t *)nullptr; }, ""});
        ov.push_back(OvOp{"<< (const char32_t*)nullptr", [](SS &s) { s << (const char32_t *)nullptr; }, ""});
        ov.push_back(OvOp{"<< (const char8_t*)nullptr", [](SS &s) { s << (const char8_t *)nullptr; }, ""});
        ov.push_back(OvOp{"<< std::filesystem::path", [](SS &s) { s << std::filesystem::path(std::u8string(u8s)); }, txt});
        // texts whose first / last character is one a "helpful" reader might treat specially (byte order mark, non-characters, line
        // and paragraph separators, the last scalar): appended like any other character, through every text overload
        {
            static const std::u32string sp32 = U"\uFEFFa\uFFFE\u2028\uFFFF\U0010FFFF\u0085\uFEFF";
            static const std::string sp8 = "\xEF\xBB\xBF" "a\xEF\xBF\xBE\xE2\x80\xA8\xEF\xBF\xBF\xF4\x8F\xBF\xBF\xC2\x85\xEF\xBB\xBF";
            static const std::wstring spw(sp32.begin(), sp32.end());
            static const std::u16string sp16 = u"\uFEFFa\uFFFE\u2028\uFFFF\U0010FFFF\u0085\uFEFF";
            ov.push_back(OvOp{"<< const wchar_t* (leading U+FEFF, special scalars)", [](SS &s) { s << spw.c_str(); }, sp8});
            ov.push_back(OvOp{"<< const char16_t* (leading U+FEFF, special scalars)", [](SS &s) { s << sp16.c_str(); }, sp8});
            ov.push_back(OvOp{"<< const char32_t* (leading U+FEFF, special scalars)", [](SS &s) { s << sp32.c_str(); }, sp8});
            ov.push_back(OvOp{"<< const char* (leading U+FEFF, special scalars)", [](SS &s) { s << sp8.c_str(); }, sp8});
            ov.push_back(OvOp{"<< std::wstring (leading U+FEFF, special scalars)", [](SS &s) { s << spw; }, sp8});
            ov.push_back(OvOp{"<< std::u16string_view (leading U+FEFF, special scalars)", [](SS &s) { s << std::u16string_view(sp16); }, sp8});
            ov.push_back(OvOp{"<< std::u32string (leading U+FEFF, special scalars)", [](SS &s) { s << sp32; }, sp8});
            ov.push_back(OvOp{"<< ST::string (leading U+FEFF, special scalars)", [](SS &s) { s << ST::string::from_validated(sp8.data(), sp8.size()); }, sp8});
            ov.push_back(OvOp{"append (leading U+FEFF, special scalars)", [](SS &s) { s.append(sp8.data(), sp8.size()); }, sp8});
        }
        // not-a-number values with the sign bit set and clear, infinities (the C library prints the sign of a NaN)
        {
            auto cfmt = [](double v) { char b[64]; snprintf(b, sizeof b, "%g", v); return std::string(b); };
            const double nn = std::copysign(std::numeric_limits<double>::quiet_NaN(), -1.0), pn = std::copysign(std::numeric_limits<double>::quiet_NaN(), 1.0);
            const double ni = -std::numeric_limits<double>::infinity();
            ov.push_back(OvOp{"<< (double)-nan", [nn](SS &s) { s << nn; }, cfmt(nn)});
            ov.push_back(OvOp{"<< (double)+nan", [pn](SS &s) { s << pn; }, cfmt(pn)});
            ov.push_back(OvOp{"<< (float)-nan", [nn](SS &s) { s << (float)nn; }, cfmt((double)(float)nn)});
            ov.push_back(OvOp{"<< (double)-inf", [ni](SS &s) { s << ni; }, cfmt(ni)});
            ov.push_back(OvOp{"<< (float)-inf", [ni](SS &s) { s << (float)ni; }, cfmt(ni)});
        }
        // paths whose text is not in "generic" form: the text of the path is appended as it is (u8string()), nothing is normalised
        ov.push_back(OvOp{"<< std::filesystem::path (doubled separators)", [](SS &s) { s << std::filesystem::path("dir//sub///file"); }, "dir//sub///file"});
        ov.push_back(OvOp{"<< std::filesystem::path (dot segments, trailing separator)", [](SS &s) { s << std::filesystem::path("./a/../b/./"); }, "./a/../b/./"});
        ov.push_back(OvOp{"<< std::filesystem::path (//server/share, backslash)", [](SS &s) { s << std::filesystem::path("//server/share\\x"); }, "//server/share\\x"});
        ov.push_back(OvOp{"<< std::filesystem::path (empty)", [](SS &s) { s << std::filesystem::path(); }, ""});
        ov.push_back(OvOp{"<< const char16_t*", [](SS &s) { s << u16txt.c_str(); }, txt});
        ov.push_back(OvOp{"<< const char32_t*", [](SS &s) { s << u32txt.c_str(); }, txt});
        ov.push_back(OvOp{"<< const char8_t*", [](SS &s) { s << u8s.c_str(); }, txt});
        ov.push_back(OvOp{"<< ST::string", [](SS &s) { s << ST::string::from_validated(txt.data(), txt.size()); }, txt});
        ov.push_back(OvOp{"<< ST::string (empty)", [](SS &s) { s << ST::string(); }, ""});
        ov.push_back(OvOp{"<< std::string", [](SS &s) { s << txt; }, txt});
        ov.push_back(OvOp{"<< std::string (300 bytes)", [](SS &s) { s << long_ascii; }, long_ascii});
        ov.push_back(OvOp{"<< std::wstring", [](SS &s) { s << wtxt; }, txt});
        ov.push_back(OvOp{"<< std::wstring (300 x e-acute)", [](SS &s) { s << long_w; }, long_w_u8});
        ov.push_back(OvOp{"<< std::u16string", [](SS &s) { s << u16txt; }, txt});
        ov.push_back(OvOp{"<< std::u32string", [](SS &s) { s << u32txt; }, txt});
        ov.push_back(OvOp{"<< std::u8string", [](SS &s) { s << u8s; }, txt});
        ov.push_back(OvOp{"<< std::string_view", [](SS &s) { s << std::string_view(txt).substr(1, 5); }, txt.substr(1, 5)});
        ov.push_back(OvOp{"<< std::wstring_view", [](SS &s) { s << std::wstring_view(wtxt); }, txt});
        ov.push_back(OvOp{"<< std::u16string_view", [](SS &s) { s << std::u16string_view(u16txt); }, txt});
        ov.push_back(OvOp{"<< std::u32string_view", [](SS &s) { s << std::u32string_view(u32txt); }, txt});
        ov.push_back(OvOp{"<< std::u8string_view", [](SS &s) { s << std::u8string_view(u8s); }, txt});
        // length-carrying arguments with an embedded U+0000: all units are appended, not the part before the first zero
        static const std::string ntxt("a\0b\xC3\xA9", 5);
        static const std::wstring nw(L"a\0b\u00e9", 4);
        static const std::u16string n16(u"a\0b\u00e9", 4);
        static const std::u32string n32(U"a\0b\u00e9", 4);
        static const std::u8string n8(u8"a\0b\u00e9", 5);
        ov.push_back(OvOp{"<< ST::string (embedded NUL)", [](SS &s) { s << ST::string::from_validated(ntxt.data(), ntxt.size()); }, ntxt});
        ov.push_back(OvOp{"<< std::string (embedded NUL)", [](SS &s) { s << ntxt; }, ntxt});
        ov.push_back(OvOp{"<< std::wstring (embedded NUL)", [](SS &s) { s << nw; }, ntxt});
        ov.push_back(OvOp{"<< std::u16string (embedded NUL)", [](SS &s) { s << n16; }, ntxt});
        ov.push_back(OvOp{"<< std::u32string (embedded NUL)", [](SS &s) { s << n32; }, ntxt});
        ov.push_back(OvOp{"<< std::u8string (embedded NUL)", [](SS &s) { s << n8; }, ntxt});
        ov.push_back(OvOp{"<< std::string_view (embedded NUL)", [](SS &s) { s << std::string_view(ntxt); }, ntxt});
        ov.push_back(OvOp{"<< std::wstring_view (embedded NUL)", [](SS &s) { s << std::wstring_view(nw); }, ntxt});
        ov.push_back(OvOp{"<< std::u16string_view (embedded NUL)", [](SS &s) { s << std::u16string_view(n16); }, ntxt});
        ov.push_back(OvOp{"<< std::u32string_view (embedded NUL)", [](SS &s) { s << std::u32string_view(n32); }, ntxt});
        ov.push_back(OvOp{"<< std::u8string_view (embedded NUL)", [](SS &s) { s << std::u8string_view(n8); }, ntxt});
        ov.push_back(OvOp{"<< std::u16string (U+0000 alone)", [](SS &s) { s << std::u16string(1, u'\0'); }, std::string(1, '\0')});
        // narrow text is appended byte for byte, whatever the bytes are (validation happens in to_string())
        static const std::string badb[3] = {std::string("\xFF", 1), std::string("caf\xE9", 4), std::string("ok\xE2\x82", 4)};
        for (int bi = 0; bi < 3; ++bi) {
            const std::string &bb = badb[bi];
            std::string tag = bi == 0 ? "FF" : bi == 1 ? "Latin-1 e-acute" : "truncated sequence";
            ov.push_back(OvOp{"<< const char* (" + tag + ")", [&bb](SS &s) { s << bb.c_str(); }, bb});
            ov.push_back(OvOp{"<< std::string (" + tag + ")", [&bb](SS &s) { s << bb; }, bb});
            ov.push_back(OvOp{"<< std::string_view (" + tag + ")", [&bb](SS &s) { s << std::string_view(bb); }, bb});
            ov.push_back(OvOp{"<< const char8_t* (" + tag + ")", [&bb](SS &s) { s << reinterpret_cast<const char8_t *>(bb.c_str()); }, bb});
            ov.push_back(OvOp{"<< std::u8string (" + tag + ")", [&bb](SS &s) { s << std::u8string(reinterpret_cast<const char8_t *>(bb.data()), bb.size()); }, bb});
            ov.push_back(OvOp{"<< std::u8string_view (" + tag + ")",
                              [&bb](SS &s) { s << std::u8string_view(reinterpret_cast<const char8_t *>(bb.data()), bb.size()); }, bb});
            ov.push_back(OvOp{"append(ptr,n) (" + tag + ")", [&bb](SS &s) { s.append(bb.data(), bb.size()); }, bb});
        }
        ov.push_back(OvOp{"<< char 'x'", [](SS &s) { s << 'x'; }, "x"});
        ov.push_back(OvOp{"<< char NUL", [](SS &s) { s << '\0'; }, std::string(1, '\0')});
        ov.push_back(OvOp{"append(with embedded NUL, 3)", [](SS &s) { s.append("a\0b", 3); }, std::string("a\0b", 3)});
        ov.push_back(OvOp{"append(cstr)", [](SS &s) { s.append("auto-sized"); }, "auto-sized"});
        // the source is the stream's own buffer (append uses an overlap-safe move, so this is meant to work)
        ov.push_back(OvOp{"append(own raw_buffer(), size())", [](SS &s) { s.append(s.raw_buffer(), s.size()); }, "", [](const std::string &m) { return m; }});
        ov.push_back(OvOp{"append(own raw_buffer() + size/2, size - size/2)", [](SS &s) { s.append(s.raw_buffer() + s.size() / 2, s.size() - s.size() / 2); }, "",
                          [](const std::string &m) { return m.substr(m.size() / 2); }});
        ov.push_back(OvOp{"append(own raw_buffer(), min(size, 7))", [](SS &s) { s.append(s.raw_buffer(), s.size() < 7 ? s.size() : 7); }, "",
                          [](const std::string &m) { return m.substr(0, 7); }});
        ov.push_back(OvOp{"append(nullptr)", [](SS &s) { s.append(nullptr); }, ""});
        ov.push_back(OvOp{"append_char('z', 257)", [](SS &s) { s.append_char('z', 257); }, std::string(257, 'z')});
        ov.push_back(OvOp{"append_char('z', 0)", [](SS &s) { s.append_char('z', 0); }, ""});
        add_int<int>("int", 0, "%d");
        add_int<int>("int", -1, "%d");
        add_int<int>("int", INT_MAX, "%d");
        add_int<int>("int", INT_MIN, "%d");
        add_int<int>("int", INT_MIN + 1, "%d");
        add_int<unsigned>("unsigned", UINT_MAX, "%u");
        add_int<long>("long", LONG_MIN, "%ld");
        add_int<long>("long", LONG_MAX, "%ld");
        add_int<unsigned long>("unsigned long", ULONG_MAX, "%lu");
        add_int<long long>("long long", LLONG_MIN, "%lld");
        add_int<long long>("long long", -10, "%lld");
        add_int<unsigned long long>("unsigned long long", ULLONG_MAX, "%llu");
        add_int<unsigned long long>("unsigned long long", 0, "%llu");
        for (double d : {0.0, -0.0, 1.5, -2.25e-7, 1e100, 123456789.0, 0.1})
            ov.push_back(OvOp{strf("<< (double)%g", d), [d](SS &s) { s << d; }, fmt("%g", d)});
        for (float d : {0.0f, 3.25f, -1e-30f, 16777216.0f})
            ov.push_back(OvOp{strf("<< (float)%g", (double)d), [d](SS &s) { s << d; }, fmt("%g", (double)d)});
        ov.push_back(OvOp{"<< inf", [](SS &s) { s << std::numeric_limits<double>::infinity(); }, "inf"});
        ov.push_back(OvOp{"truncate(size-1)", nullptr, ""});
        (void)depth;
    }
    const char *name() const { return nm.c_str(); }
    size_t op_count() const { return bases.size() + ov.size(); }
    void reset()
    {
        reset_world();
        started = false;
    }
    std::string key() const { return (started ? "S" : "I") + base_key(true); }
    bool nontrivial() const { return started && slots[0].obj()->m_alloc > STACK; }
    bool enabled(size_t id) const { return (id < bases.size()) == !started; }
    std::string op_name(size_t id) const
    {
        if (id < bases.size()) return strf("new string_stream + append %zu bytes of g", bases[id]);
        return ov[id - bases.size()].name;
    }
    void apply(size_t id, bool checked, Fails &f)
    {
        SS *a = slots[0].obj();
        std::string opn = checked ? op_name(id) : std::string();
        std::string tag = "base";
        if (checked) {
            ++n_checked;
            vf::events_reset();
        }
        vf::Outcome oc = vf::guard([&] {
            if (id < bases.size()) {
                LIB(new (a) SS());
                slots[0].alive = true;
                LIB(a->append(G.data(), bases[id]));
                model[0].assign(G, 0, bases[id]);
                started = true;
            } else {
                const OvOp &o = ov[id - bases.size()];
                tag = "overload:" + o.name;
                if (!o.call) {
                    size_t t = model[0].empty() ? 0 : model[0].size() - 1;
                    LIB(a->truncate(t));
                    model[0].resize(t);
                } else {
                    std::string add = o.dyn ? o.dyn(model[0]) : o.appended;
                    LIB(o.call(*a));
                    model[0] += add;
                }
            }
        });
        if (!checked) return;
        if (!oc.ok()) {
            f.push_back(Fail{strf("c16:%s:%s", tag.c_str(), vf::outkind_name(oc.kind)), opn + ": " + oc.str()});
            return;
        }
        post(tag.c_str(), opn, 0, -1, f);
    }
    void on_new_state(Fails &f)
    {
        if (!slots[0].alive) return;
        n_reads += 5;
        check_to_string(*slots[0].obj(), model[0], [&](const std::string &what, const std::string &detail) {
            f.push_back(Fail{"c16:" + what, strf("size %zu: %s", model[0].size(), detail.c_str())});
        });
        {
            std::string fd = slots[0].fence_damage();
            if (!fd.empty()) f.push_back(Fail{"c16:read:write-outside-object", strf("s0: %s (while reading raw_buffer()/to_string())", fd.c_str())});
        }
        if (sample_list.size() < 5 && nontrivial()) sample_list.push_back(key());
    }
};

// ---------------------------------------------------------------------------------------------- large streams
// Capacities in the tens of MiB (where a growth policy may stop doubling): a few appends whose sizes are chosen around 8, 16 and
// 32 MiB.  The content is a function of the offset, checked at both ends and at every seam; the tracking allocator's canary
// sees a write past the block.
struct LargeSys {
    uint64_t n_checks = 0, n_scen = 0;
    const char *name() const { return "large streams: appends of 1..25 MiB onto streams holding 0..33 MiB"; }
    size_t op_count() const { return 0; }
    bool enabled(size_t) const { return false; }
    std::string op_name(size_t) const { return ""; }
    void reset() {}
    void apply(size_t, bool, hx::Fails &) {}
    std::string key() const { return "large"; }
    bool nontrivial() const { return true; }
    static char gen(size_t off) { return (char)('A' + (off * 2654435761u >> 7) % 53); }
    void scenario(const std::vector<size_t> &pieces, int how, hx::Fails &f)
    {
        ++n_scen;
        const size_t MI = size_t(1) << 20;
        std::string label;
        for (size_t p : pieces) label += vf::strf("%s%zu", label.empty() ? "" : "+", p);
        auto fail = [&](const std::string &what, const std::string &detail) {
            f.push_back(hx::Fail{"c16:large-stream:" + what, vf::strf("appends of %s bytes (%s): %s", label.c_str(), how ? "append_char / append" : "append", detail.c_str())});
        };
        size_t total = 0;
        for (size_t p : pieces) total += p;
        std::vector<char> src;
        {
            vf::Bypass bp;
            src.resize(total);
        }
        for (size_t i = 0; i < total; ++i) src[i] = gen(i);
        vf::tracking_reset();
        vf::events_reset();
        const size_t saved = vf::g_alloc.max_request;
        vf::g_alloc.max_request = size_t(1) << 31;
        vf::Outcome oc = vf::guard([&] {
            vf::OpScope sc;
            ST::string_stream ss;
            size_t off = 0;
            for (size_t k = 0; k < pieces.size(); ++k) {
                hx::note_phase(vf::strf("large stream %s: piece %zu", label.c_str(), k).c_str());
                if (how == 1 && k == 0) {
                    ss.append_char(gen(0), 1);
                    ss.append(src.data() + 1, pieces[k] - 1);
                } else
                    ss.append(src.data() + off, pieces[k]);
                off += pieces[k];
                ++n_checks;
                if (ss.size() != off) {
                    fail("size", vf::strf("size() is %zu after %zu bytes", ss.size(), off));
                    return;
                }
                if (!vf::check_canaries() || vf::events_total()) {
                    fail("heap-event", vf::g_alloc.first_event);
                    return;
                }
                const char *rb = ss.raw_buffer();
                size_t seams[6] = {0, off - 1, off / 2, off - pieces[k], off >= pieces[k] + 1 ? off - pieces[k] - 1 : 0, off > 16 * MI ? 16 * MI : 0};
                for (size_t q : seams)
                    if (rb[q] != gen(q)) {
                        fail("content", vf::strf("byte %zu of %zu is wrong", q, off));
                        return;
                    }
            }
            // every byte once, at the end
            const char *rb = ss.raw_buffer();
            ++n_checks;
            for (size_t i = 0; i < total; ++i)
                if (rb[i] != src[i]) {
                    fail("content", vf::strf("byte %zu of %zu is wrong", i, total));
                    return;
                }
            ss.truncate(5);
            ss << 12345;
            if (ss.size() != 10 || memcmp(ss.raw_buffer() + 5, "12345", 5) != 0) fail("after-truncate", "truncate(5) << 12345 gives the wrong content");
        });
        vf::g_alloc.max_request = saved;
        if (!oc.ok()) fail(vf::outkind_name(oc.kind), oc.str());
        if (vf::events_total()) fail("heap-event", vf::g_alloc.first_event);
        if (vf::live_tracked()) fail("leak", vf::strf("%zu blocks live after the stream was destroyed", vf::live_tracked()));
        vf::tracking_reset();
        {
            vf::Bypass bp;
            std::vector<char>().swap(src);
        }
    }
    void on_new_state(hx::Fails &f)
    {
        const size_t MI = size_t(1) << 20;
        vf::tracking_begin();
        for (int how = 0; how < 2; ++how) {
            scenario({8 * MI + 1, 24 * MI}, how, f);
            scenario({8 * MI + 1, 25 * MI}, how, f);
            scenario({16 * MI, 16 * MI + 1}, how, f);
            scenario({16 * MI + 1, 16 * MI, 1 * MI}, how, f);
            scenario({4 * MI + 3, 4 * MI, 9 * MI, 1, 17 * MI}, how, f);
            scenario({33 * MI, 1 * MI, 1 * MI}, how, f);
        }
        hx::note_phase("reads");
    }
    void samples(std::vector<std::string> &out) const { out.push_back(vf::strf("large streams: %llu scenarios, %llu checks", (unsigned long long)n_scen, (unsigned long long)n_checks)); }
    void counters(std::map<std::string, uint64_t> &c) const
    {
        c["large-stream-scenarios"] += n_scen;
        c["large-stream-checks"] += n_checks;
    }
};

// The result of every inserter / append is the stream itself: a chain acts on one stream, in order.
struct ChainSys {
    uint64_t n_checks = 0;
    const char *name() const { return "identity of << / append / append_char results, chains"; }
    size_t op_count() const { return 0; }
    bool enabled(size_t) const { return false; }
    std::string op_name(size_t) const { return ""; }
    void reset() {}
    void apply(size_t, bool, hx::Fails &) {}
    std::string key() const { return "chain"; }
    bool nontrivial() const { return true; }
    void on_new_state(hx::Fails &f)
    {
        for (size_t pre : {size_t(0), size_t(250), size_t(600)}) {
            vf::Outcome oc = vf::guard([&] {
                std::string want(pre, 'p');
                ST::string_stream ss;
                ss.append_char('p', pre);
                auto same = [&](const char *what, const void *r) {
                    ++n_checks;
                    if (r != (const void *)&ss) f.push_back(hx::Fail{vf::strf("c16:chain:%s:result-is-not-the-stream", what), vf::strf("the result of %s does not denote the stream", what)});
                };
                { auto &&r = (ss << "a"); same("<< const char*", &r); }
                { auto &&r = (ss << L"b"); same("<< const wchar_t*", &r); }
                { auto &&r = (ss << u"c"); same("<< const char16_t*", &r); }
                { auto &&r = (ss << U"d"); same("<< const char32_t*", &r); }
                { auto &&r = (ss << 'e'); same("<< char", &r); }
                { auto &&r = (ss << 12); same("<< int", &r); }
                { auto &&r = (ss << -34LL); same("<< long long", &r); }
                { auto &&r = (ss << 56u); same("<< unsigned", &r); }
                { auto &&r = (ss << 1.5); same("<< double", &r); }
                { auto &&r = (ss << 2.5f); same("<< float", &r); }
                { auto &&r = (ss << ST_LITERAL("st")); same("<< ST::string", &r); }
                { auto &&r = (ss << std::string("std")); same("<< std::string", &r); }
                { auto &&r = (ss << std::string_view("sv")); same("<< std::string_view", &r); }
                { auto &&r = ss.append("xy", 2); same("append(ptr,n)", &r); }
                { auto &&r = ss.append("z"); same("append(cstr)", &r); }
                { auto &&r = ss.append_char('-', 3); same("append_char", &r); }
                want += "abcde12-34561.52.5ststdsvxyz---";
                ++n_checks;
                if (std::string(ss.raw_buffer(), ss.size()) != want)
                    f.push_back(hx::Fail{"c16:chain:content", vf::strf("stream holds %s", vf::vis(std::string(ss.raw_buffer(), ss.size())).c_str())});
                ST::string_stream t;
                (t << "A" << 1 << 'b').append("C", 1).append_char('d', 2) << 2.5 << ST_LITERAL("E");
                ++n_checks;
                if (std::string(t.raw_buffer(), t.size()) != "A1bCdd2.5E")
                    f.push_back(hx::Fail{"c16:chain:one-expression", vf::strf("(t << \"A\" << 1 << 'b').append(\"C\",1).append_char('d',2) << 2.5 << \"E\" gives %s", vf::vis(std::string(t.raw_buffer(), t.size())).c_str())});
                ST::string_stream u;
                auto &&r = (u = std::move(t));
                ++n_checks;
                if ((const void *)&r != (const void *)&u || std::string(u.raw_buffer(), u.size()) != "A1bCdd2.5E")
                    f.push_back(hx::Fail{"c16:chain:move-assign:result-is-not-the-target", "(u = std::move(t)) does not denote u or u lacks t's content"});
            });
            if (!oc.ok()) f.push_back(hx::Fail{vf::strf("c16:chain:%s", vf::outkind_name(oc.kind)), oc.str()});
        }
        hx::note_phase("reads");
    }
    void samples(std::vector<std::string> &out) const { out.push_back(vf::strf("chains: %llu checks", (unsigned long long)n_checks)); }
    void counters(std::map<std::string, uint64_t> &c) const { c["chain-checks"] += n_checks; }
};

static void build(std::vector<hx::Job> &jobs, const vf::Opts &o, std::string &rule, std::vector<std::string> &assumptions)
{
    G.resize(16384);
    for (size_t p = 0; p < G.size(); ++p) G[p] = (char)g(p);
    rule = "states are canonical (size, capacity, storage kind[, content hash]) tuples of the live streams, deduplicated; "
           "non-trivial = some live stream has grown onto the heap";
    assumptions = {"dense/pair jobs: appended bytes are g(offset), so content is a function of size and (size, capacity, storage) is the "
                   "whole state; stale bytes beyond size() are never observable through the API",
                   "sizes are capped (see job names); growth is by doubling so every boundary below the cap is crossed",
                   "moved-from streams must report size 0 and satisfy the storage invariants; they are then explored like any other state"};
    bool T = o.thorough();
    {
        hx::Limits lim;
        size_t cap = T ? 9000 : 4700;
        jobs.push_back(hx::make_job<StreamSys>([cap]() { return new StreamSys(true, cap); }, lim));
    }
    {
        hx::Limits lim;
        size_t cap = T ? 4200 : 2100;
        jobs.push_back(hx::make_job<StreamSys>([cap]() { return new StreamSys(false, cap); }, lim));
    }
    {
        hx::Limits lim;
        unsigned depth = T ? 3 : 2;
        lim.max_depth = 1 + depth;
        jobs.push_back(hx::make_job<OverloadSys>([depth]() { return new OverloadSys(depth); }, lim));
    }
    {
        hx::Limits l1;
        l1.max_depth = 0;
        l1.hang_s = 120;
        jobs.push_back(hx::make_job<LargeSys>([]() { return new LargeSys(); }, l1));
        hx::Limits l2;
        l2.max_depth = 0;
        jobs.push_back(hx::make_job<ChainSys>([]() { return new ChainSys(); }, l2));
    }
}

int main(int argc, char **argv) { return hx::main_driver(argc, argv, "C16", build); }
