// C08 - slicing returns the clamped byte range for every position, count and separator.
//   substr/left/right : every string length 0..N (pairwise distinct bytes, NUL and high bytes included)
//                       x a boundary alphabet of starts / counts that contains every value around
//                       0, +-size, +-2size and the extremes of ssize_t / size_t
//   trim*             : every subject over {' ', '\t', '\n', 'x', NUL}^<=L x 6 character sets, plus
//                       padded subjects crossing the small-string limit
//   before/after_*    : every subject over {a, b, A, ':', NUL}^<=L x every separator ^<=3 in the char,
//                       const char* and ST::string forms, both case modes; long subjects (13..34) with
//                       the separator at every pair of positions; a case-folding boundary alphabet
// Oracle: refs:: (128-bit clamped ranges, naive search), reassembly, overload agreement, and the
// interposed allocator must not see a request above size()+1 (+15) nor may bad_alloc escape.
#define VF_MAIN_TU
#include "early.h"
#include "verif.h"
#include "alloc.h"
#include "ref_slice.h"
#include "longpat.h"
#include "hugestr.h"
#include "st_string.h"
#include "early_battery.h"

using vf::Ctx;
using vf::strf;

static const size_t ALLOC_SLACK = 16;  // request <= size()+ALLOC_SLACK is never "oversized"
static const size_t CALL_MAX_REQUEST = size_t(1) << 20;  // in force only while a library call runs
static const size_t DEFAULT_MAX_REQUEST = vf::g_alloc.max_request;

static inline ST::string mkst(const std::string &s) { return ST::string::from_validated(s.data(), s.size()); }

// ---------------------------------------------------------------- index segments (variable-size blocks)
struct Segments {
    std::vector<uint64_t> off{0};
    void add(uint64_t n) { off.push_back(off.back() + n); }
    uint64_t total() const { return off.back(); }
    size_t locate(uint64_t idx, uint64_t &local) const
    {
        size_t s = std::upper_bound(off.begin(), off.end(), idx) - off.begin() - 1;
        local = idx - off[s];
        return s;
    }
};

// ---------------------------------------------------------------- outcome counters
enum Op { SUBSTR, LEFT, RIGHT, TRIML, TRIMR, TRIM, BF, AF, BL, AL, NOPS };
static const char *OPN[NOPS] = {"substr", "left", "right", "trim_left", "trim_right", "trim",
                                "before_first", "after_first", "before_last", "after_last"};
enum Cls { C_EMPTY, C_WHOLE, C_PART, C_WRONG, C_EXC, NCLS };
static const char *CLSN[NCLS] = {"ok-empty", "ok-whole", "ok-proper-part", "wrong-value", "exception"};
static void out_count(int op, int cls)
{
    static int ids[NOPS][NCLS];
    int &id = ids[op][cls];
    if (!id) id = vf::counter_id(strf("out:%s:%s", OPN[op], CLSN[cls]).c_str()) + 1;
    vf::g_local[id - 1]++;
}

// ---------------------------------------------------------------- one guarded library call
struct Res {
    vf::Outcome o;
    std::string val;
    bool term = true, toolong = false, oversize = false;
    size_t got_size = 0, max_req = 0;
    unsigned events = 0;
    std::string event;
};

template <class F>
static Res run(size_t subj_size, F &&f)
{
    Res r;
    vf::events_reset();
    vf::window_reset();
    r.o = vf::guard([&] {
        try {
            vf::g_alloc.max_request = CALL_MAX_REQUEST;
            ST::string out = f();
            vf::g_alloc.max_request = DEFAULT_MAX_REQUEST;
            r.max_req = vf::g_alloc.max_seen;  // captured before the harness allocates anything itself
            r.oversize = vf::g_alloc.oversize;
            r.got_size = out.size();
            if (out.size() > subj_size) {
                r.toolong = true;
            } else {
                r.term = out.c_str()[out.size()] == 0;
                r.val.assign(out.c_str(), out.size());
            }
        } catch (...) {
            vf::g_alloc.max_request = DEFAULT_MAX_REQUEST;
            r.max_req = vf::g_alloc.max_seen;
            r.oversize = vf::g_alloc.oversize;
            throw;
        }
    });
    r.events = vf::events_total();
    if (r.events) r.event = vf::g_alloc.first_event;
    return r;
}

// compares one call with the reference; SIG and CALL are only evaluated on failure
template <class SIG, class CALL>
static bool judge(Ctx &c, int op, const Res &r, const std::string &want, const std::string &subj, SIG &&sig, CALL &&call)
{
    VF_COUNT("ops");
    VF_COUNT("validated");
    bool pass = true;
    if (!r.o.ok()) {
        out_count(op, C_EXC);
        std::string k = vf::outkind_name(r.o.kind);
        if (r.o.kind == vf::EX_BAD_ALLOC) k += r.oversize ? "(oversize-request)" : "(no-request-seen)";
        c.fail(sig() + ":" + k,
               strf("%s on %s threw %s; largest allocation request during the call = %zu bytes (size()=%zu)%s%s; expected %s",
                    call().c_str(), vf::vis(subj).c_str(), r.o.str().c_str(), r.max_req, subj.size(),
                    r.events ? "; heap event: " : "", r.event.c_str(), vf::vis(want).c_str()));
        return false;
    }
    if (r.toolong || r.val != want) {
        out_count(op, C_WRONG);
        c.fail(sig() + ":value", strf("%s on %s returned %s, expected %s", call().c_str(), vf::vis(subj).c_str(),
                                      r.toolong ? strf("a string of size %zu", r.got_size).c_str() : vf::vis(r.val).c_str(),
                                      vf::vis(want).c_str()));
        pass = false;
    } else {
        out_count(op, want.empty() ? C_EMPTY : want.size() == subj.size() ? C_WHOLE : C_PART);
        if (!r.term) {
            c.fail(sig() + ":terminator", strf("%s on %s: result is not NUL-terminated", call().c_str(), vf::vis(subj).c_str()));
            pass = false;
        }
    }
    if (r.max_req > subj.size() + ALLOC_SLACK || r.oversize) {
        c.fail(sig() + ":alloc-request>size+1", strf("%s on %s requested an allocation of %zu bytes, size()+1 = %zu", call().c_str(),
                                                       vf::vis(subj).c_str(), r.max_req, subj.size() + 1));
        pass = false;
    }
    if (r.events) {
        c.fail(sig() + ":heap-event", strf("%s on %s: %s", call().c_str(), vf::vis(subj).c_str(), r.event.c_str()));
        pass = false;
    }
    return pass;
}

// ---------------------------------------------------------------- substr / left / right
static std::string distinct_bytes(size_t n)
{
    // i -> (37 i + 219) mod 256 is a bijection on bytes: pairwise distinct, NUL at index 1, high bytes present
    std::string s(n, 0);
    for (size_t i = 0; i < n; ++i) s[i] = (char)((i * 37 + 219) & 0xFF);
    return s;
}

static std::vector<int64_t> starts_for(size_t n)
{
    std::vector<int64_t> v;
    int64_t m = 2 * (int64_t)n + 2;
    for (int64_t k = -m; k <= m; ++k) v.push_back(k);
    const int64_t ex[] = {INT64_MIN, INT64_MIN + 1, INT64_MIN + (int64_t)n, -(1ll << 32) - 1, -(1ll << 32), -(1ll << 31) - 1,
                          -(1ll << 31), (1ll << 31) - 1, 1ll << 31, 1ll << 32, (1ll << 32) + 1, INT64_MAX - (int64_t)n,
                          INT64_MAX - 1, INT64_MAX};
    for (int64_t e : ex) v.push_back(e);
    return v;
}
static std::vector<uint64_t> counts_for(size_t n)
{
    std::vector<uint64_t> v;
    uint64_t m = 2 * (uint64_t)n + 2;
    for (uint64_t k = 0; k <= m; ++k) v.push_back(k);
    const uint64_t ex[] = {(1ull << 31) - 1, 1ull << 31, (1ull << 32) - 1, 1ull << 32, (1ull << 32) + 1};
    for (uint64_t e : ex) v.push_back(e);
    for (uint64_t k = 0; k <= 2 * (n + 1); ++k) v.push_back((1ull << 63) - (n + 1) + k);  // 2^63-(n+1) .. 2^63+(n+1)
    for (uint64_t k = m + 1; k-- > 0;) v.push_back(UINT64_MAX - k);                       // SIZE_MAX-m .. SIZE_MAX
    return v;
}

static std::string substr_class(size_t n, int64_t start, uint64_t count)
{
    refs::wide N = n, b = start;
    const char *sc;
    if (b < -N) sc = "start<-size", b = 0;
    else if (b < 0) sc = "-size<=start<0", b = N + b;
    else if (b <= N) sc = "0<=start<=size";
    else return "start>size";
    if (count == UINT64_MAX) return std::string(sc) + ":count=AUTO";
    if (b + (refs::wide)count > (refs::wide)UINT64_MAX) return "start+count>SIZE_MAX";
    return std::string(sc) + (b + (refs::wide)count > N ? ":count>rest" : ":count<=rest");
}
static const char *n_class(size_t n, uint64_t k, bool right)
{
    if (k <= n) return "n<=size";
    if (k >= (1ull << 63)) return "n>=2^63";
    if (right && k < 2 * (uint64_t)n) return "size<n<2size";
    return right ? "2size<=n<2^63" : "size<n<2^63";
}

// ---------------------------------------------------------------- separators
enum Form { F_CHAR, F_CSTR, F_STR, F_U8, NFORMS };
static const char *FORMN[NFORMS] = {"char", "const char*", "ST::string", "const char8_t*"};

static ST::string call_sep(int op, int form, const ST::string &s, char ch, const char *cz, const ST::string &ss, bool ci)
{
    ST::case_sensitivity_t cs = ci ? ST::case_insensitive : ST::case_sensitive;
    if (form == F_U8) {
        const char8_t *u8 = reinterpret_cast<const char8_t *>(cz);
        switch (op) {
        case BF: return s.before_first(u8, cs);
        case AF: return s.after_first(u8, cs);
        case BL: return s.before_last(u8, cs);
        default: return s.after_last(u8, cs);
        }
    }
    switch (op) {
    case BF: return form == F_CHAR ? s.before_first(ch, cs) : form == F_CSTR ? s.before_first(cz, cs) : s.before_first(ss, cs);
    case AF: return form == F_CHAR ? s.after_first(ch, cs) : form == F_CSTR ? s.after_first(cz, cs) : s.after_first(ss, cs);
    case BL: return form == F_CHAR ? s.before_last(ch, cs) : form == F_CSTR ? s.before_last(cz, cs) : s.before_last(ss, cs);
    default: return form == F_CHAR ? s.after_last(ch, cs) : form == F_CSTR ? s.after_last(cz, cs) : s.after_last(ss, cs);
    }
}
static std::string ref_sep(int op, const std::string &s, const std::string &sep, bool ci)
{
    switch (op) {
    case BF: return refs::before_first(s, sep, ci);
    case AF: return refs::after_first(s, sep, ci);
    case BL: return refs::before_last(s, sep, ci);
    default: return refs::after_last(s, sep, ci);
    }
}

// All four before/after operations, all applicable overload forms, both case modes, for one (subject, separator).
static void check_sides(Ctx &c, const std::string &subj, const std::string &sep)
{
    static vf::GuardArena ga;
    ST::string s = mkst(subj), ss = mkst(sep);
    // the C string ends (terminator included) exactly at a PROT_NONE page
    const char *cz = ga.place(sep.c_str(), sep.size() + 1);
    const std::string csep = refs::cstr_part(sep);
    const char ch = sep.size() == 1 ? sep[0] : 0;
    bool nt = false;
    std::string emptyval[NFORMS][4];
    bool emptyok[NFORMS] = {false, false, false, false};
    for (int form = 0; form < NFORMS; ++form) {
        if (form == F_CHAR && sep.size() != 1) continue;
        const std::string &esep = (form == F_CSTR || form == F_U8) ? csep : sep;  // the bytes this overload form denotes
        const char *sepcls = esep.empty() ? "empty" : esep.size() == 1 ? "1" : "multi";
        for (int ci = 0; ci < 2; ++ci) {
            if (esep.empty()) {
                // Reading: an empty separator either "does not occur" or occurs at the edge; both readings
                // reassemble.  (before, after) must be (whole, empty) or (empty, whole) for first and for last.
                std::string v[4];
                bool ok = true;
                for (int op = BF; op <= AL; ++op) {
                    Res r = run(subj.size(), [&] { return call_sep(op, form, s, ch, cz, ss, ci); });
                    const std::string &alt = r.val.empty() ? r.val : subj;  // whichever of the two legal values it is closer to
                    ok &= judge(c, op, r, alt, subj, [&] { return strf("%s(%s):sep=empty", OPN[op], FORMN[form]); },
                                [&] { return strf("%s(\"\"%s)", OPN[op], ci ? ", case_insensitive" : ""); });
                    v[op - BF] = r.val;
                }
                if (ok) {
                    VF_COUNT("validated");
                    if (v[0].size() + v[1].size() != subj.size())
                        c.fail(strf("before_first+after_first(%s):sep=empty:reassembly", FORMN[form]),
                               strf("on %s: before_first(\"\")=%s after_first(\"\")=%s", vf::vis(subj).c_str(), vf::vis(v[0]).c_str(),
                                    vf::vis(v[1]).c_str()));
                    if (v[2].size() + v[3].size() != subj.size())
                        c.fail(strf("before_last+after_last(%s):sep=empty:reassembly", FORMN[form]),
                               strf("on %s: before_last(\"\")=%s after_last(\"\")=%s", vf::vis(subj).c_str(), vf::vis(v[2]).c_str(),
                                    vf::vis(v[3]).c_str()));
                    if (!ci) {
                        emptyok[form] = true;
                        for (int k = 0; k < 4; ++k) emptyval[form][k] = v[k];
                    }
                }
                continue;
            }
            size_t occ = refs::count_occ(subj, esep, ci);
            if (occ) nt = true;
            std::string got[4];
            bool pass[4];
            for (int op = BF; op <= AL; ++op) {
                std::string want = ref_sep(op, subj, esep, ci);
                Res r = run(subj.size(), [&] { return call_sep(op, form, s, ch, cz, ss, ci); });
                got[op - BF] = r.val;
                pass[op - BF] = judge(
                    c, op, r, want, subj,
                    [&] {
                        // ":ci" only when the same call on pre-folded data in case-sensitive mode is right,
                        // i.e. the failure is specific to folding
                        bool fold_specific = false;
                        if (ci) {
                            std::string fs = refs::folded(subj), fp = refs::folded(sep);
                            ST::string s2 = mkst(fs), ss2 = mkst(fp);
                            std::string p2 = fp;
                            Res r2 = run(fs.size(), [&] { return call_sep(op, form, s2, (char)refs::fold((unsigned char)ch), p2.c_str(), ss2, false); });
                            fold_specific = r2.o.ok() && !r2.toolong &&
                                            r2.val == ref_sep(op, fs, (form == F_CSTR || form == F_U8) ? refs::cstr_part(fp) : fp, false);
                        }
                        return strf("%s(%s):sep=%s:occ%s%s", OPN[op], FORMN[form], sepcls, occ ? ">0" : "=0", fold_specific ? ":ci" : "");
                    },
                    [&] { return strf("%s(%s%s)", OPN[op], vf::vis(esep).c_str(), ci ? ", case_insensitive" : ""); });
            }
            // the property's own formulation: before + separator + after reassembles the original
            if (occ && pass[0] && pass[1] && pass[2] && pass[3]) {
                VF_COUNT("validated");
                long f = refs::first_occ(subj, esep, ci), l = refs::last_occ(subj, esep, ci);
                if (got[0] + subj.substr(f, esep.size()) + got[1] != subj)
                    c.fail(strf("before_first+after_first(%s):reassembly", FORMN[form]), strf("on %s sep %s", vf::vis(subj).c_str(), vf::vis(esep).c_str()));
                if (got[2] + subj.substr(l, esep.size()) + got[3] != subj)
                    c.fail(strf("before_last+after_last(%s):reassembly", FORMN[form]), strf("on %s sep %s", vf::vis(subj).c_str(), vf::vis(esep).c_str()));
            }
        }
    }
    // calls that omit the case mode: the default is case_sensitive
    for (int form = 0; form < NFORMS; ++form) {
        if (form == F_CHAR && sep.size() != 1) continue;
        for (int op = BF; op <= AL; ++op) {
            ST::string dflt, expl;
            vf::Outcome o1 = vf::guard([&] {
                const char8_t *u8 = reinterpret_cast<const char8_t *>(cz);
                switch (op) {
                case BF: dflt = form == F_CHAR ? s.before_first(ch) : form == F_CSTR ? s.before_first(cz) : form == F_STR ? s.before_first(ss) : s.before_first(u8); break;
                case AF: dflt = form == F_CHAR ? s.after_first(ch) : form == F_CSTR ? s.after_first(cz) : form == F_STR ? s.after_first(ss) : s.after_first(u8); break;
                case BL: dflt = form == F_CHAR ? s.before_last(ch) : form == F_CSTR ? s.before_last(cz) : form == F_STR ? s.before_last(ss) : s.before_last(u8); break;
                default: dflt = form == F_CHAR ? s.after_last(ch) : form == F_CSTR ? s.after_last(cz) : form == F_STR ? s.after_last(ss) : s.after_last(u8); break;
                }
                expl = call_sep(op, form, s, ch, cz, ss, false);
            });
            VF_COUNT("ops");
            VF_COUNT("validated");
            if (o1.ok() && dflt != expl)
                c.fail(strf("%s(%s):default-case-mode-is-not-case_sensitive", OPN[op], FORMN[form]),
                       strf("%s(%s) on %s without a case mode gives %s, with case_sensitive %s", OPN[op], vf::vis(sep).c_str(), vf::vis(subj).c_str(),
                            vf::vis(std::string(dflt.c_str(), dflt.size())).c_str(), vf::vis(std::string(expl.c_str(), expl.size())).c_str()));
        }
    }
    // overload agreement for the empty separator (non-empty forms agree through the common reference)
    if (sep.empty() && emptyok[F_CSTR] && emptyok[F_STR]) {
        VF_COUNT("validated");
        for (int k = 0; k < 4; ++k)
            if (emptyval[F_CSTR][k] != emptyval[F_STR][k])
                c.fail(strf("%s:sep=empty:overloads-differ", OPN[BF + k]),
                       strf("on %s: const char* form gives %s, ST::string form gives %s", vf::vis(subj).c_str(),
                            vf::vis(emptyval[F_CSTR][k]).c_str(), vf::vis(emptyval[F_STR][k]).c_str()));
    }
    if (nt) c.nontrivial();
}

static std::string seq_string(uint64_t idx, const std::string &alphabet, unsigned L)
{
    std::vector<unsigned> d;
    vf::seq_decode(idx, alphabet.size(), L, d);
    std::string s(d.size(), 0);
    for (size_t i = 0; i < d.size(); ++i) s[i] = alphabet[d[i]];
    return s;
}

// ---------------------------------------------------------------- trim
static const char *const CHARSETS[] = {" ", " \t", "x", "", nullptr /* default argument */, "\t x",
                                       // bytes >= 0x80 in the set (NBSP in Latin-1 / a UTF-8 character / a byte whose low 7 bits are TAB)
                                       "\xA0", "\xC3\xA9", "x\x89"};
enum { NCHARSETS = 6, NCHARSETS_ALL = 9 };

static void check_trim(Ctx &c, const std::string &subj, int csi)
{
    static vf::GuardArena ga;
    ST::string s = mkst(subj);
    const char *cs = CHARSETS[csi];
    std::string set = cs ? cs : " \t\r\n";  // ST_WHITESPACE as documented
    const char *cz = cs ? ga.place(cs, strlen(cs) + 1) : nullptr;
    std::string want[3] = {refs::trim_left(subj, set), refs::trim_right(subj, set), refs::trim(subj, set)};
    for (int k = 0; k < 3; ++k) {
        int op = TRIML + k;
        Res r = run(subj.size(), [&] {
            if (!cz) return k == 0 ? s.trim_left() : k == 1 ? s.trim_right() : s.trim();
            return k == 0 ? s.trim_left(cz) : k == 1 ? s.trim_right(cz) : s.trim(cz);
        });
        judge(c, op, r, want[k], subj, [&] { return strf("%s%s", OPN[op], set.empty() ? ":charset=empty" : ""); },
              [&] { return strf("%s(%s)", OPN[op], cs ? vf::vis(set).c_str() : "<default>"); });
    }
    if (!want[2].empty() && want[2].size() != subj.size()) c.nontrivial();
}

static std::string padded_subject(uint64_t i)
{
    static const unsigned PADS[] = {0, 1, 2, 7, 8, 14, 15, 16, 17, 31, 33};
    static const std::string CORES[] = {"", "x", "x x", std::string("x\0 x", 4), "y\t\ty", std::string(12, 'x'), std::string(16, 'z'), "x\n \tx"};
    static const std::string WS[] = {" ", "\t", " \t", "x"};
    unsigned lp = PADS[vf::take(i, 11)], tp = PADS[vf::take(i, 11)];
    const std::string &core = CORES[vf::take(i, 8)], &ws = WS[vf::take(i, 4)];
    std::string s;
    for (unsigned k = 0; k < lp; ++k) s += ws[k % ws.size()];
    s += core;
    for (unsigned k = 0; k < tp; ++k) s += ws[(k + 1) % ws.size()];
    return s;
}

// ---------------------------------------------------------------- long subjects for before/after
static const char *const LONG_SEPS[] = {":", "::", ":a:", "Aa"};
struct LongCase {
    std::string subj, sep;
};
static const unsigned LONG_N[] = {13, 14, 15, 16, 17, 18, 19, 20, 30, 31, 32, 33, 34};
static LongCase long_case(const Segments &seg, uint64_t idx)
{
    uint64_t i;
    size_t k = seg.locate(idx, i);
    unsigned n = LONG_N[k];
    LongCase lc;
    lc.sep = LONG_SEPS[vf::take(i, 4)];
    unsigned p1 = vf::take(i, n + 1), p2 = vf::take(i, n + 1);
    lc.subj.resize(n);
    for (unsigned j = 0; j < n; ++j) lc.subj[j] = "pqr"[j % 3];
    // position n means "not placed"; an occurrence that does not fit is cut at the end (a partial, non-matching tail)
    for (unsigned p : {p1, p2})
        for (size_t j = 0; j < lc.sep.size() && p + j < n; ++j) lc.subj[p + j] = lc.sep[j];
    return lc;
}

static void build(vf::Plan &plan, const vf::Opts &o)
{
    refs::selftest();
    const bool T = o.thorough();
    plan.rule =
        "case = one (subject, arguments) tuple, all distinct; non-trivial = the expected result is a non-empty proper part of "
        "the subject, or an argument lies outside [0,size] so that clamping decides the result (substr/left/right); the "
        "separator occurs in the subject (before/after); something is trimmed but not everything (trim)";
    plan.assumptions = {
        "substr/left/right do not inspect contents: one string of pairwise distinct bytes per length stands for all strings of that length",
        "start/count values are a boundary alphabet (every integer within 2*size+2 of 0, 2^63 and SIZE_MAX, plus 2^31/2^32 neighbours), not all 2^64 values",
        "C-string separators/charsets denote the bytes up to their first NUL (DESIGN.md section 10)",
        "an empty separator may be read as 'does not occur' or 'occurs at the edge': (before,after) must be (whole,empty) or (empty,whole)",
        "over-reads of the subject are observed through wrong result bytes (fresh heap blocks are 0xCD-filled) and ASan in the thorough tier; C-string arguments end at a PROT_NONE page"};

    // VF_REDUCED: the ASan+UBSan build of the quick tier runs the stages whose subjects live on the heap (reads past the
    // subject's block, which the plain build cannot see)
#ifdef VF_REDUCED
    const bool reduced = true;
#else
    const bool reduced = false;
#endif
    // ---- substr
    const unsigned maxlen = reduced ? 20 : T ? 80 : 40;
    struct Tables {
        std::vector<std::vector<int64_t>> starts;
        std::vector<std::vector<uint64_t>> counts;
        Segments sub, lr;
    };
    auto tb = std::make_shared<Tables>();
    for (unsigned n = 0; n <= maxlen; ++n) {
        tb->starts.push_back(starts_for(n));
        tb->counts.push_back(counts_for(n));
        tb->sub.add((uint64_t)tb->starts[n].size() * tb->counts[n].size());
        tb->lr.add(tb->counts[n].size());
    }
    auto sub_decode = [tb](uint64_t idx, size_t &n, int64_t &start, uint64_t &count) {
        uint64_t i;
        n = tb->sub.locate(idx, i);
        count = tb->counts[n][vf::take(i, tb->counts[n].size())];
        start = tb->starts[n][i];
    };
    plan.stage(strf("substr:len0..%u x boundary(start) x boundary(count)", maxlen), tb->sub.total(),
               [sub_decode](uint64_t idx, Ctx &c) {
                   size_t n;
                   int64_t start;
                   uint64_t count;
                   sub_decode(idx, n, start, count);
                   std::string subj = distinct_bytes(n);
                   ST::string s = mkst(subj);
                   std::string want = refs::substr(subj, start, count);
                   Res r = run(n, [&] { return s.substr((ST_ssize_t)start, (size_t)count); });
                   judge(c, SUBSTR, r, want, subj, [&] { return "substr:" + substr_class(n, start, count); },
                         [&] { return strf("substr(%lld, %llu)", (long long)start, (unsigned long long)count); });
                   // the same call on a temporary and on a moved-from-able object (an rvalue-qualified overload must slice alike)
                   Res rr1 = run(n, [&] { return ST::string(s).substr((ST_ssize_t)start, (size_t)count); });
                   judge(c, SUBSTR, rr1, want, subj, [&] { return "substr(on a temporary):" + substr_class(n, start, count); },
                         [&] { return strf("ST::string(s).substr(%lld, %llu)", (long long)start, (unsigned long long)count); });
                   if (count == UINT64_MAX) {
                       Res rr2 = run(n, [&] { ST::string t(s); return std::move(t).substr((ST_ssize_t)start); });
                       judge(c, SUBSTR, rr2, want, subj, [&] { return "substr(1-arg, on an rvalue):" + substr_class(n, start, count); },
                             [&] { return strf("std::move(t).substr(%lld)", (long long)start); });
                   }
                   if (count == UINT64_MAX) {  // the one-argument form
                       Res r1 = run(n, [&] { return s.substr((ST_ssize_t)start); });
                       judge(c, SUBSTR, r1, want, subj, [&] { return "substr(1-arg):" + substr_class(n, start, count); },
                             [&] { return strf("substr(%lld)", (long long)start); });
                   }
                   if ((!want.empty() && want.size() != n) || start < 0 || (refs::wide)start + (refs::wide)count > (refs::wide)n) c.nontrivial();
               },
               [sub_decode](uint64_t idx) {
                   size_t n;
                   int64_t start;
                   uint64_t count;
                   sub_decode(idx, n, start, count);
                   return strf("len=%zu bytes=%s substr(start=%lld, count=%llu)", n, vf::hex_str(distinct_bytes(n), 8).c_str(),
                               (long long)start, (unsigned long long)count);
               });

    // ---- left / right
    plan.stage(strf("left,right:len0..%u x boundary(n)", maxlen), tb->lr.total(),
               [tb](uint64_t idx, Ctx &c) {
                   uint64_t i;
                   size_t n = tb->lr.locate(idx, i);
                   uint64_t k = tb->counts[n][i];
                   std::string subj = distinct_bytes(n);
                   ST::string s = mkst(subj);
                   Res rl = run(n, [&] { return s.left((size_t)k); });
                   judge(c, LEFT, rl, refs::left(subj, k), subj, [&] { return strf("left:%s", n_class(n, k, false)); },
                         [&] { return strf("left(%llu)", (unsigned long long)k); });
                   Res rl2 = run(n, [&] { return ST::string(s).left((size_t)k); });
                   judge(c, LEFT, rl2, refs::left(subj, k), subj, [&] { return strf("left(on a temporary):%s", n_class(n, k, false)); },
                         [&] { return strf("ST::string(s).left(%llu)", (unsigned long long)k); });
                   Res rr3 = run(n, [&] { return ST::string(s).right((size_t)k); });
                   judge(c, RIGHT, rr3, refs::right(subj, k), subj, [&] { return strf("right(on a temporary):%s", n_class(n, k, true)); },
                         [&] { return strf("ST::string(s).right(%llu)", (unsigned long long)k); });
                   Res rr = run(n, [&] { return s.right((size_t)k); });
                   judge(c, RIGHT, rr, refs::right(subj, k), subj, [&] { return strf("right:%s", n_class(n, k, true)); },
                         [&] { return strf("right(%llu)", (unsigned long long)k); });
                   if (k > n || (k > 0 && k < n)) c.nontrivial();
               },
               [tb](uint64_t idx) {
                   uint64_t i;
                   size_t n = tb->lr.locate(idx, i);
                   return strf("len=%zu bytes=%s left/right(n=%llu)", n, vf::hex_str(distinct_bytes(n), 8).c_str(),
                               (unsigned long long)tb->counts[n][i]);
               });

    // ---- trim
    const std::string TA(" \t\nx\0", 5);
    const unsigned TL = reduced ? 3 : T ? 8 : 6;
    plan.stage(strf("trim*:{SP,TAB,LF,x,NUL}^<=%u x 6 charsets", TL), vf::seq_count(TA.size(), TL) * NCHARSETS,
               [TA, TL](uint64_t idx, Ctx &c) {
                   int csi = (int)vf::take(idx, NCHARSETS);
                   check_trim(c, seq_string(idx, TA, TL), csi);
               },
               [TA, TL](uint64_t idx) {
                   int csi = (int)vf::take(idx, NCHARSETS);
                   return strf("s=%s charset=%s", vf::vis(seq_string(idx, TA, TL)).c_str(),
                               CHARSETS[csi] ? vf::vis(CHARSETS[csi], strlen(CHARSETS[csi])).c_str() : "<default>");
               });
    plan.stage("trim*:padded-subjects(pad 0..33 each side) x 6 charsets", (uint64_t)11 * 11 * 8 * 4 * NCHARSETS,
               [](uint64_t idx, Ctx &c) {
                   int csi = (int)vf::take(idx, NCHARSETS);
                   check_trim(c, padded_subject(idx), csi);
               },
               [](uint64_t idx) {
                   int csi = (int)vf::take(idx, NCHARSETS);
                   return strf("s=%s charset=%s", vf::vis(padded_subject(idx)).c_str(),
                               CHARSETS[csi] ? vf::vis(CHARSETS[csi], strlen(CHARSETS[csi])).c_str() : "<default>");
               });

    // ---- trim with bytes >= 0x80 in the subject and in the set: a byte is in the set only if it is equal to a member
    {
        const std::string HA(" x\xA0\x89\xC3\xA9\x8A", 7);
        const unsigned HL = reduced ? 3 : T ? 6 : 5;
        plan.stage(strf("trim*:{SP,x,A0,89,C3,A9,8A}^<=%u x 9 charsets (three of them with bytes >= 0x80)", HL), vf::seq_count(HA.size(), HL) * NCHARSETS_ALL,
                   [HA, HL](uint64_t idx, Ctx &c) {
                       int csi = (int)vf::take(idx, NCHARSETS_ALL);
                       check_trim(c, seq_string(idx, HA, HL), csi);
                   },
                   [HA, HL](uint64_t idx) {
                       int csi = (int)vf::take(idx, NCHARSETS_ALL);
                       return strf("s=%s charset=%s", vf::vis(seq_string(idx, HA, HL)).c_str(),
                                   CHARSETS[csi] ? vf::vis(CHARSETS[csi], strlen(CHARSETS[csi])).c_str() : "<default>");
                   });
    }

    // ---- before / after
    const std::string SA("abA:\0", 5);
    const unsigned SL = reduced ? 3 : T ? 7 : 6;
    const uint64_t nsep = vf::seq_count(SA.size(), 3);
    plan.stage(strf("before/after:{a,b,A,':',NUL}^<=%u x sep^<=3 x 4 forms x cs/ci", SL), vf::seq_count(SA.size(), SL) * nsep,
               [SA, SL, nsep](uint64_t idx, Ctx &c) {
                   std::string sep = seq_string(vf::take(idx, nsep), SA, 3);
                   check_sides(c, seq_string(idx, SA, SL), sep);
               },
               [SA, SL, nsep](uint64_t idx) {
                   std::string sep = seq_string(vf::take(idx, nsep), SA, 3);
                   return strf("s=%s sep=%s", vf::vis(seq_string(idx, SA, SL)).c_str(), vf::vis(sep).c_str());
               });
    auto lseg = std::make_shared<Segments>();
    for (unsigned n : LONG_N) lseg->add((uint64_t)4 * (n + 1) * (n + 1));
    plan.stage("before/after:len13..34, separator at every pair of positions", lseg->total(),
               [lseg](uint64_t idx, Ctx &c) {
                   LongCase lc = long_case(*lseg, idx);
                   check_sides(c, lc.subj, lc.sep);
               },
               [lseg](uint64_t idx) {
                   LongCase lc = long_case(*lseg, idx);
                   return strf("s=%s sep=%s", vf::vis(lc.subj).c_str(), vf::vis(lc.sep).c_str());
               });
    const std::string FA("@`AaZz[{\xC1\xE1", 10);
    const uint64_t nfsep = vf::seq_count(FA.size(), 2);
    plan.stage("before/after:case-fold boundary {@,`,A,a,Z,z,[,{,C1,E1}^<=3 x sep^<=2", vf::seq_count(FA.size(), 3) * nfsep,
               [FA, nfsep](uint64_t idx, Ctx &c) {
                   std::string sep = seq_string(vf::take(idx, nfsep), FA, 2);
                   check_sides(c, seq_string(idx, FA, 3), sep);
               },
               [FA, nfsep](uint64_t idx) {
                   std::string sep = seq_string(vf::take(idx, nfsep), FA, 2);
                   return strf("s=%s sep=%s", vf::vis(seq_string(idx, FA, 3)).c_str(), vf::vis(sep).c_str());
               });
    // ---- long separators with a near-miss in the text (see longpat.h), every length across 8 / 16 / 32 / 64
    {
        auto cases = std::make_shared<std::vector<lp::LN>>(lp::cases(T));
        auto &st = plan.stage(strf("before/after:long separators: lengths %s, one byte of the occurrence flipped in bit 5 / incremented at every position, "
                                   "10 byte classes, 3 contexts", lp::lens_text(T)),
                              cases->size(),
                              [cases](uint64_t i, Ctx &c) {
                                  std::string text, sep;
                                  lp::make((*cases)[i], text, sep);
                                  check_sides(c, text, sep);
                                  c.nontrivial();
                              },
                              [cases](uint64_t i) {
                                  std::string text, sep;
                                  lp::make((*cases)[i], text, sep);
                                  return strf("s=%s sep=%s", vf::vis(text).c_str(), vf::vis(sep).c_str());
                              });
        st.case_timeout_s = 10;
    }
    {
        auto cases = std::make_shared<std::vector<lp::LN>>(lp::cases_very_long());
        auto &st = plan.stage("before/after:very long separators: lengths {255,256,257,258,300,1030}, one byte perturbed at positions next to the ends, the middle and 254..257",
                              cases->size(),
                              [cases](uint64_t i, Ctx &c) {
                                  std::string text, sep;
                                  lp::make((*cases)[i], text, sep);
                                  check_sides(c, text, sep);
                                  c.nontrivial();
                              },
                              [cases](uint64_t i) {
                                  std::string text, sep;
                                  lp::make((*cases)[i], text, sep);
                                  return strf("s=%s sep=%s", vf::vis(text.substr(0, 60)).c_str(), vf::vis(sep.substr(0, 60)).c_str());
                              });
        st.case_timeout_s = 20;
    }
    {
        auto cases = std::make_shared<std::vector<lp::LB>>(lp::cases_long_subject(T));
        auto &st = plan.stage(strf("before/after:long subjects (4,097 .. %s bytes) with the separator at every offset around 256 / 1,024 / 4,096 from either end, with and without an "
                                   "earlier occurrence", T ? "65,600" : "8,200"),
                              cases->size(),
                              [cases](uint64_t i, Ctx &c) {
                                  std::string text, sep;
                                  lp::make((*cases)[i], text, sep);
                                  check_sides(c, text, sep);
                                  c.nontrivial();
                              },
                              [cases](uint64_t i) {
                                  const lp::LB &q = (*cases)[i];
                                  return strf("subject of %u bytes, separator #%u at offset %u%s", q.L, q.sep, q.off, q.early ? " and at offset 10" : "");
                              });
        st.case_timeout_s = 30;
    }
    // ---- separators / character sets that point into the subject's own storage: same result as for a separate copy
    if (!reduced) {
        const std::string AA("abA:\0", 5);
        auto subj_of = [AA](uint64_t i) {
            static const char *const LONGS[3] = {"key::value::more::key::value", "aaaaaaaaaaaaaaaaaaab:aaab", "  padded value, padded  "};
            uint64_t ns = vf::seq_count(AA.size(), 4);
            return i < ns ? seq_string(i, AA, 4) : std::string(LONGS[i - ns]);
        };
        plan.stage("aliased separator: every suffix of the subject's own c_str() as separator / character set ({a,b,A,':',NUL}^<=4 and three long subjects)",
                   vf::seq_count(AA.size(), 4) + 3,
                   [subj_of](uint64_t i, Ctx &c) {
                       std::string subj = subj_of(i);
                       ST::string s = mkst(subj);
                       auto bytes = [](const ST::string &x) { return std::string(x.c_str(), x.size()); };
                       vf::Outcome o = vf::guard([&] {
                           for (size_t off = 0; off <= subj.size(); ++off) {
                               const char *own = s.c_str() + off;
                               std::string copy(own);  // the C string that pointer denotes
                               for (int ci = 0; ci < 2; ++ci) {
                                   ST::case_sensitivity_t cs = ci ? ST::case_insensitive : ST::case_sensitive;
                                   std::string a[4] = {bytes(s.before_first(own, cs)), bytes(s.after_first(own, cs)), bytes(s.before_last(own, cs)), bytes(s.after_last(own, cs))};
                                   std::string b[4] = {bytes(s.before_first(copy.c_str(), cs)), bytes(s.after_first(copy.c_str(), cs)), bytes(s.before_last(copy.c_str(), cs)),
                                                       bytes(s.after_last(copy.c_str(), cs))};
                                   VF_COUNT("validated");
                                   for (int k = 0; k < 4; ++k)
                                       if (a[k] != b[k])
                                           c.fail(strf("%s(const char*):separator-inside-the-subject:differs-from-a-copy", OPN[BF + k]),
                                                  strf("s=%s separator = own c_str()+%zu: %s, with a copy %s", vf::vis(subj).c_str(), off, vf::vis(a[k]).c_str(), vf::vis(b[k]).c_str()));
                                   std::string a8 = bytes(s.after_first((const char8_t *)own, cs)), b8 = bytes(s.after_first((const char8_t *)copy.c_str(), cs));
                                   if (a8 != b8) c.fail("after_first(const char8_t*):separator-inside-the-subject:differs-from-a-copy", strf("s=%s +%zu", vf::vis(subj).c_str(), off));
                               }
                               std::string t1 = bytes(s.trim(own)), t2 = bytes(s.trim(copy.c_str())), l1 = bytes(s.trim_left(own)), l2 = bytes(s.trim_left(copy.c_str())),
                                           r1 = bytes(s.trim_right(own)), r2 = bytes(s.trim_right(copy.c_str()));
                               VF_COUNT("validated");
                               if (t1 != t2 || l1 != l2 || r1 != r2)
                                   c.fail("trim*(own c_str()+k):charset-inside-the-subject:differs-from-a-copy", strf("s=%s charset = own c_str()+%zu", vf::vis(subj).c_str(), off));
                           }
                           ST::string copy = mkst(subj);
                           VF_COUNT("validated");
                           if (bytes(s.before_first(s)) != bytes(s.before_first(copy)) || bytes(s.after_first(s)) != bytes(s.after_first(copy)) ||
                               bytes(s.before_last(s)) != bytes(s.before_last(copy)) || bytes(s.after_last(s)) != bytes(s.after_last(copy)))
                               c.fail("before/after(ST::string):separator-is-the-subject:differs-from-a-copy", strf("s=%s", vf::vis(subj).c_str()));
                       });
                       if (!o.ok()) c.fail(strf("aliased-separator:%s", vf::outkind_name(o.kind)), o.str());
                       if (subj.size() > 1) c.nontrivial();
                   },
                   [subj_of](uint64_t i) { return strf("s=%s", vf::vis(subj_of(i)).c_str()); });
    }
    // ---- a subject of more than 2^31 bytes (positions and sizes that no longer fit an int / a 32-bit integer)
    if (!reduced) {
        auto &st = plan.stage("huge subject: 2^31+64 bytes (lazily mapped), slices and separators beyond position 2^31", 1,
                              [](uint64_t, Ctx &c) {
                                  const size_t H = size_t(1) << 31, N = H + 64;
                                  vf::Outcome o = vf::guard([&] {
                                      hugestr::Scope scope;
                                      ST::string s = hugestr::make(N, [&](char *d) {
                                          d[5] = ':';
                                          d[H - 1] = 'X';
                                          d[H] = 'Y';
                                          memcpy(d + N - 10, "ab:cd:efgh", 10);
                                      });
                                      auto expect = [&](const char *call, const ST::string &got, const std::string &want) {
                                          VF_COUNT("validated");
                                          if (std::string(got.c_str(), got.size()) != want)
                                              c.fail(strf("huge-subject:%s:value", call),
                                                     strf("on a string of 2^31+64 bytes %s returned %zu bytes %s, expected %s", call, got.size(),
                                                          vf::vis(std::string(got.c_str(), got.size() < 40 ? got.size() : 40)).c_str(), vf::vis(want).c_str()));
                                      };
                                      VF_COUNT("validated");
                                      if (s.size() != N) c.fail("huge-subject:size", strf("size() is %zu", s.size()));
                                      expect("substr(N-4, 4)", s.substr((ST_ssize_t)(N - 4), 4), "efgh");
                                      expect("substr(N-4)", s.substr((ST_ssize_t)(N - 4)), "efgh");
                                      expect("substr(-4)", s.substr(-4), "efgh");
                                      expect("substr(-4, 2)", s.substr(-4, 2), "ef");
                                      expect("substr(2^31-1, 2)", s.substr((ST_ssize_t)(H - 1), 2), "XY");
                                      expect("substr(2^31, 1)", s.substr((ST_ssize_t)H, 1), "Y");
                                      expect("substr(N, 5)", s.substr((ST_ssize_t)N, 5), "");
                                      expect("substr(N-2, SIZE_MAX)", s.substr((ST_ssize_t)(N - 2), ~size_t(0)), "gh");
                                      expect("right(4)", s.right(4), "efgh");
                                      expect("right(10)", s.right(10), "ab:cd:efgh");
                                      expect("left(6)", s.left(6), std::string("\0\0\0\0\0:", 6));
                                      expect("after_last(':')", s.after_last(':'), "efgh");
                                      expect("after_last(\":\")", s.after_last(":"), "efgh");
                                      expect("after_last(ST::string(\"d:\"))", s.after_last(ST_LITERAL("d:")), "efgh");
                                      expect("after_last(\"CD:\", case_insensitive)", s.after_last("CD:", ST::case_insensitive), "efgh");
                                      expect("before_first(':')", s.before_first(':'), std::string(5, '\0'));
                                      expect("before_first(\":\")", s.before_first(":"), std::string(5, '\0'));
                                      expect("after_first('Y')", s.after_first('Y'), std::string(53, '\0') + "ab:cd:efgh");
                                      expect("after_first(\"XY\")", s.after_first("XY"), std::string(53, '\0') + "ab:cd:efgh");
                                      expect("after_first(\"xy\", case_insensitive)", s.after_first("xy", ST::case_insensitive), std::string(53, '\0') + "ab:cd:efgh");
                                      expect("after_last('Q') [absent]", s.after_last('Q').left(3), std::string(3, '\0'));
                                      expect("before_first('Q') [absent] right(4)", s.before_first('Q').right(4), "efgh");
                                      // slices that are large themselves (256 MiB is where the converters stop; slices have no such limit)
                                      auto big = [&](const char *call, const ST::string &got, size_t want_size, char first, char last) {
                                          VF_COUNT("validated");
                                          if (got.size() != want_size || got.c_str()[0] != first || got.c_str()[want_size - 1] != last || got.c_str()[want_size] != 0)
                                              c.fail(strf("huge-subject:%s:value", call), strf("%s returned %zu bytes (expected %zu) or wrong bytes at the ends", call, got.size(), want_size));
                                      };
                                      const size_t Q = size_t(1) << 28;  // 256 MiB
                                      big("right(2^28)", s.right(Q), Q, '\0', 'h');
                                      big("right(2^28 + 1)", s.right(Q + 1), Q + 1, '\0', 'h');
                                      big("substr(5, 2^28)", s.substr(5, Q), Q, ':', '\0');
                                      big("left(2^28 + 6)", s.left(Q + 6), Q + 6, '\0', '\0');
                                  });
                                  if (!o.ok()) c.fail(strf("huge-subject:%s", vf::outkind_name(o.kind)), o.str());
                                  if (vf::live_huge()) c.fail("huge-subject:leak", strf("%zu large blocks still live", vf::live_huge()));
                                  vf::huge_reset();
                                  c.nontrivial();
                              },
                              [](uint64_t) { return std::string("string of 2^31+64 bytes"); });
        st.case_timeout_s = 300;
    }
    vf_early::add_stage(plan);
}

VF_MAIN("C08", build)
