// C17 - all output sinks emit the same bytes for the same format call; stream insertion and
// extraction of ST::string.
//
// Format part: a full cartesian product  literal x field x literal [x field x literal ...] x
// argument list.  ST::format is called first; only calls it accepts are compared (everything
// else is C10's business).  Its bytes R are the reference for
//   ST::format(validation, ...), the _stfmt literal, a user-defined format_writer,
//   ST::printf(FILE*) (open_memstream), ST::printf() to stdout (fd 1 redirected to a memfd),
//   ST::writef(std::ostringstream)                         -> byte-identical to R
//   ST::writef(basic_ostringstream<wchar_t|char16_t|char32_t>) -> reference UTF-32/16 transcoding of R
//   ST::format_latin_1                                     -> reference Latin-1 -> UTF-8 of R
// Stream part: operator<< into the four stream types, operator>> from the four stream types
// against std::basic_string extraction on an identical stream.
#define VF_MAIN_TU
#include "early.h"
#include "verif.h"
#include "alloc.h"
#include "crc.h"
#include "oracle_crc.h"
#include <sys/stat.h>
#include <sys/mman.h>
#include <unistd.h>
#include <complex>
#include <filesystem>
#include "st_format.h"
#include "st_stdio.h"
#include "st_iostream.h"
#include "early_battery.h"

using vf::Ctx;
using vf::strf;

static_assert(sizeof(wchar_t) == 4, "this harness reads wchar_t streams as UTF-32");

// ------------------------------------------------------------------ reference transcoders (boring on purpose)
namespace ref17 {
static void enc8(uint32_t cp, std::string &o)
{
    if (cp < 0x80) o += (char)cp;
    else if (cp < 0x800) {
        o += (char)(0xC0 + cp / 64);
        o += (char)(0x80 + cp % 64);
    } else if (cp < 0x10000) {
        o += (char)(0xE0 + cp / 4096);
        o += (char)(0x80 + cp / 64 % 64);
        o += (char)(0x80 + cp % 64);
    } else {
        o += (char)(0xF0 + cp / 262144);
        o += (char)(0x80 + cp / 4096 % 64);
        o += (char)(0x80 + cp / 64 % 64);
        o += (char)(0x80 + cp % 64);
    }
}
// strict UTF-8 (Unicode table 3-7): no overlong forms, no surrogates, nothing above U+10FFFF
static bool dec8(const std::string &s, std::u32string &out)
{
    out.clear();
    size_t i = 0, n = s.size();
    while (i < n) {
        unsigned b = (unsigned char)s[i];
        uint32_t cp, min;
        unsigned need;
        if (b < 0x80) cp = b, need = 0, min = 0;
        else if (b >= 0xC2 && b <= 0xDF) cp = b - 0xC0, need = 1, min = 0x80;
        else if (b >= 0xE0 && b <= 0xEF) cp = b - 0xE0, need = 2, min = 0x800;
        else if (b >= 0xF0 && b <= 0xF4) cp = b - 0xF0, need = 3, min = 0x10000;
        else return false;
        if (n - i <= need) return false;
        for (unsigned k = 1; k <= need; ++k) {
            unsigned cb = (unsigned char)s[i + k];
            if (cb < 0x80 || cb > 0xBF) return false;
            cp = cp * 64 + (cb - 0x80);
        }
        if (cp < min || (cp >= 0xD800 && cp <= 0xDFFF) || cp > 0x10FFFF) return false;
        out += (char32_t)cp;
        i += need + 1;
    }
    return true;
}
static std::u16string to16(const std::u32string &s)
{
    std::u16string o;
    for (char32_t cp : s) {
        if (cp < 0x10000) o += (char16_t)cp;
        else {
            uint32_t v = cp - 0x10000;
            o += (char16_t)(0xD800 + v / 1024);
            o += (char16_t)(0xDC00 + v % 1024);
        }
    }
    return o;
}
static std::string latin1_to_utf8(const std::string &s)
{
    std::string o;
    for (unsigned char b : s) enc8(b, o);
    return o;
}
static std::string enc8s(const std::u32string &s)
{
    std::string o;
    for (char32_t cp : s) enc8(cp, o);
    return o;
}
}  // namespace ref17

static void selftest()
{
    // encoder / decoder / UTF-16 against CPython over all 1,112,064 scalar values
    std::string all8;
    std::u32string all32;
    for (uint32_t cp = 0; cp < 0x110000; ++cp) {
        if (cp >= 0xD800 && cp < 0xE000) continue;
        ref17::enc8(cp, all8);
        all32 += (char32_t)cp;
    }
    vf::Crc32 c8, c16, cl;
    c8.add(all8.data(), all8.size());
    std::u32string back;
    bool ok = ref17::dec8(all8, back) && back == all32;
    std::u16string u16 = ref17::to16(all32);
    for (char16_t u : u16) {
        unsigned char le[2] = {(unsigned char)(u & 0xFF), (unsigned char)(u >> 8)};
        c16.add(le, 2);
    }
    std::string l1;
    for (unsigned b = 0; b < 256; ++b) l1 += (char)b;
    std::string l8 = ref17::latin1_to_utf8(l1);
    cl.add(l8.data(), l8.size());
    std::u32string tmp;
    static const char *bad[] = {"\x80", "\xC3", "\xC0\x80", "\xC1\xBF", "\xE0\x80\x80", "\xE0\x9F\xBF", "\xED\xA0\x80", "\xF0\x8F\xBF\xBF",
                                "\xF4\x90\x80\x80", "\xF5\x80\x80\x80", "\xFF", "\xE2\x82", "a\xA9", "\xC3\x41"};
    for (const char *b : bad)
        if (ref17::dec8(b, tmp)) ok = false;
    if (!ok || c8.value() != vf_ref_crc::all_scalars_utf8 || c16.value() != vf_ref_crc::all_scalars_utf16le ||
        cl.value() != vf_ref_crc::latin1_to_utf8) {
        fprintf(stderr, "selftest: C17 reference transcoders disagree with CPython (ok=%d crc %08x %08x %08x)\n", (int)ok, c8.value(),
                c16.value(), cl.value());
        exit(2);
    }
}

// ------------------------------------------------------------------ stdout capture (fd 1 -> memfd)
struct StdoutCapture {
    int mfd = -1, saved = -1;
    pid_t owner = 0;
    void init()
    {
        if (mfd >= 0 && owner == getpid()) return;
        owner = getpid();
        mfd = memfd_create("c17-stdout", 0);
        if (mfd < 0) {
            char path[] = "/var/tmp/c17-stdout-XXXXXX";
            mfd = mkstemp(path);
            if (mfd >= 0) unlink(path);
        }
        saved = dup(1);
        if (mfd < 0 || saved < 0) {
            fprintf(stderr, "c17: cannot set up stdout capture: %s\n", strerror(errno));
            _exit(2);
        }
    }
    void begin()
    {
        init();
        fflush(stdout);
        if (ftruncate(mfd, 0) != 0 || lseek(mfd, 0, SEEK_SET) != 0 || dup2(mfd, 1) < 0) {
            fprintf(stderr, "c17: stdout redirect failed: %s\n", strerror(errno));
            _exit(2);
        }
    }
    std::string end()
    {
        fflush(stdout);
        off_t n = lseek(mfd, 0, SEEK_CUR);
        dup2(saved, 1);
        std::string s((size_t)(n > 0 ? n : 0), '\0');
        size_t got = 0;
        while (got < s.size()) {
            ssize_t r = pread(mfd, &s[got], s.size() - got, (off_t)got);
            if (r <= 0) break;
            got += (size_t)r;
        }
        s.resize(got);
        return s;
    }
};
static StdoutCapture g_cap;

// ------------------------------------------------------------------ a user-defined sink that records the chunking
struct Chunk {
    bool is_char;
    std::string data;  // append: the bytes; append_char: the single byte
    size_t count;
};
class recorder : public ST::format_writer
{
public:
    explicit recorder(const char *f) : ST::format_writer(f) {}
    recorder &append(const char *data, size_t size) override
    {
        chunks.push_back(Chunk{false, std::string(data, size), 1});
        all.append(data, size);
        return *this;
    }
    recorder &append_char(char ch, size_t count = 1) override
    {
        chunks.push_back(Chunk{true, std::string(1, ch), count});
        all.append(count, ch);
        return *this;
    }
    std::vector<Chunk> chunks;
    std::string all;
};

// What a std::basic_ostringstream<C> holds after the given units were written to it.  This is the
// identity except for libstdc++'s char16_t streams, whose char_traits<char16_t>::to_int_type maps
// the unit 0xFFFF (== eof()) to 0xFFFD: a char16_t stream cannot hold U+FFFF whoever writes it,
// so "exactly its contents" is measured against what the stream does with a std::basic_string.
template <class C>
static std::basic_string<C> through_stream(const std::basic_string<C> &units)
{
    std::basic_ostringstream<C> os;
    os << units;
    return os.str();
}

// ------------------------------------------------------------------ results of one format call through every sink
enum { S_FORMAT, S_FORMAT_V, S_UDL, S_RECORDER, S_FILE, S_STDOUT, S_OSTREAM, S_WSTREAM, S_U16STREAM, S_U32STREAM, S_LATIN1,
       S_FORMAT_SUBST, S_FORMAT_ASSUME, S_FILE_ERRFLAG, S_OSTREAM_STATE, S_WSTREAM_STATE, S_COUNT };
static const char *SINK[S_COUNT] = {"format",          "format(validation)",  "_stfmt",           "custom-format_writer",
                                    "printf(FILE*)",   "printf(stdout)",      "writef<char>",     "writef<wchar_t>",
                                    "writef<char16_t>", "writef<char32_t>",   "format_latin_1",
                                    "format(substitute_invalid)", "format(assume_valid)", "printf(FILE* with a stale error indicator)",
                                    "writef<char>(stream with pending width/fill/flags)", "writef<wchar_t>(stream with pending width/fill/flags)"};
struct Results {
    vf::Outcome o[S_COUNT];
    std::string bytes[S_COUNT];  // narrow results
    std::u32string w32[2];       // wchar_t, char32_t
    std::u32string w32_state;    // wchar_t stream that carried formatting state
    std::u16string w16;
    int state[4] = {0, 0, 0, 0};  // rdstate of the four ostreams
    std::vector<Chunk> chunks;
};

static vf::GuardArena g_fmt;

template <class... A>
static void run_sinks(const std::string &fmt_text, Results &r, const A &...a)
{
    // the format string lives in an exact-size NUL-terminated block ending at a PROT_NONE page
    const char *f = g_fmt.place(fmt_text.c_str(), fmt_text.size() + 1);
    r.o[S_FORMAT] = vf::guard([&] {
        ST::string s = ST::format(f, a...);
        r.bytes[S_FORMAT].assign(s.c_str(), s.size());
    });
    VF_COUNT("ops");
    if (!r.o[S_FORMAT].ok()) {
        // not accepted by ST::format: nothing to compare - except that a unicode_error is only legitimate when the bytes the
        // call produces are not valid UTF-8; the narrow stream sink (which does not validate) shows what they are
        if (r.o[S_FORMAT].kind == vf::EX_UNICODE) {
            std::ostringstream os;
            r.o[S_OSTREAM] = vf::guard([&] { ST::writef(os, f, a...); });
            r.bytes[S_OSTREAM] = os.str();
            r.o[S_FORMAT_SUBST] = vf::guard([&] {
                ST::string s = ST::format(ST::substitute_invalid, f, a...);
                r.bytes[S_FORMAT_SUBST].assign(s.c_str(), s.size());
            });
            r.o[S_FORMAT_ASSUME] = vf::guard([&] {
                ST::string s = ST::format(ST::assume_valid, f, a...);
                r.bytes[S_FORMAT_ASSUME].assign(s.c_str(), s.size());
            });
        }
        return;
    }
    r.o[S_FORMAT_SUBST] = vf::guard([&] {
        ST::string s = ST::format(ST::substitute_invalid, f, a...);
        r.bytes[S_FORMAT_SUBST].assign(s.c_str(), s.size());
    });
    r.o[S_FORMAT_ASSUME] = vf::guard([&] {
        ST::string s = ST::format(ST::assume_valid, f, a...);
        r.bytes[S_FORMAT_ASSUME].assign(s.c_str(), s.size());
    });
    {
        // a FILE* whose error indicator is set from an earlier, unrelated operation (a read attempt on a write-only stream)
        // (a write-only FILE over a memfd, one per process; a memstream does not latch the error)
        static FILE *ef = nullptr;
        static int efd = -1;
        static pid_t owner = 0;
        if (owner != getpid()) {
            efd = memfd_create("c17-errflag", 0);
            ef = efd >= 0 ? fdopen(efd, "w") : nullptr;
            if (!ef) {
                perror("c17: memfd");
                _exit(2);
            }
            owner = getpid();
        }
        fflush(ef);
        if (ftruncate(efd, 0) != 0 || fseek(ef, 0, SEEK_SET) != 0) _exit(2);
        if (!ferror(ef)) (void)fgetc(ef);
        if (!ferror(ef)) {
            fprintf(stderr, "c17: could not set the error indicator\n");
            _exit(2);
        }
        r.o[S_FILE_ERRFLAG] = vf::guard([&] { ST::printf(ef, f, a...); });
        fflush(ef);
        off_t len = lseek(efd, 0, SEEK_END);
        std::string back((size_t)(len > 0 ? len : 0), '\0');
        if (len > 0 && pread(efd, back.data(), (size_t)len, 0) != len) _exit(2);
        r.bytes[S_FILE_ERRFLAG] = back;
    }
    {
        // streams that carry formatting state from earlier use: writef writes its bytes, not formatted fields
        std::ostringstream os;
        os.width(7);
        os.fill('.');
        os.setf(std::ios::left | std::ios::hex | std::ios::showbase | std::ios::uppercase | std::ios::showpos);
        os.precision(2);
        r.o[S_OSTREAM_STATE] = vf::guard([&] { ST::writef(os, f, a...); });
        r.bytes[S_OSTREAM_STATE] = os.str();
        std::wostringstream wos;
        wos.width(5);
        wos.fill(L'#');
        wos.setf(std::ios::right | std::ios::oct | std::ios::showbase);
        r.o[S_WSTREAM_STATE] = vf::guard([&] { ST::writef(wos, f, a...); });
        for (wchar_t ch : wos.str()) r.w32_state += (char32_t)ch;
    }
    r.o[S_FORMAT_V] = vf::guard([&] {
        ST::string s = ST::format(ST::check_validity, f, a...);
        r.bytes[S_FORMAT_V].assign(s.c_str(), s.size());
    });
    r.o[S_UDL] = vf::guard([&] {
        ST::string s = ST::literals::operator""_stfmt(f, fmt_text.size())(a...);
        r.bytes[S_UDL].assign(s.c_str(), s.size());
    });
    r.o[S_RECORDER] = vf::guard([&] {
        recorder rec(f);
        try {
            ST::apply_format(rec, a...);
        } catch (...) {
            r.chunks = rec.chunks;
            throw;
        }
        r.bytes[S_RECORDER] = rec.all;
        r.chunks = std::move(rec.chunks);
    });
    {
        char *mbuf = nullptr;
        size_t msize = 0;
        FILE *mf = open_memstream(&mbuf, &msize);
        if (!mf) {
            fprintf(stderr, "c17: open_memstream failed\n");
            _exit(2);
        }
        r.o[S_FILE] = vf::guard([&] { ST::printf(mf, f, a...); });
        fclose(mf);
        r.bytes[S_FILE].assign(mbuf, msize);
        free(mbuf);
    }
    {
        g_cap.begin();
        r.o[S_STDOUT] = vf::guard([&] { ST::printf(f, a...); });
        r.bytes[S_STDOUT] = g_cap.end();
    }
    {
        std::ostringstream os;
        r.o[S_OSTREAM] = vf::guard([&] { ST::writef(os, f, a...); });
        r.bytes[S_OSTREAM] = os.str();
        r.state[0] = (int)os.rdstate();
    }
    {
        std::basic_ostringstream<wchar_t> os;
        r.o[S_WSTREAM] = vf::guard([&] { ST::writef(os, f, a...); });
        std::wstring w = os.str();
        for (wchar_t ch : w) r.w32[0] += (char32_t)ch;
        r.state[1] = (int)os.rdstate();
    }
    {
        std::basic_ostringstream<char16_t> os;
        r.o[S_U16STREAM] = vf::guard([&] { ST::writef(os, f, a...); });
        r.w16 = os.str();
        r.state[2] = (int)os.rdstate();
    }
    {
        std::basic_ostringstream<char32_t> os;
        r.o[S_U32STREAM] = vf::guard([&] { ST::writef(os, f, a...); });
        r.w32[1] = os.str();
        r.state[3] = (int)os.rdstate();
    }
    r.o[S_LATIN1] = vf::guard([&] {
        ST::string s = ST::format_latin_1(f, a...);
        r.bytes[S_LATIN1].assign(s.c_str(), s.size());
    });
    VF_ADD("ops", S_COUNT - 1);
}

static std::string u32_str(const std::u32string &s) { return vf::hex_units(s.data(), s.size(), 24); }
static std::string u16_str(const std::u16string &s) { return vf::hex_units(s.data(), s.size(), 24); }

static void fail(Ctx &c, const std::string &sig, const std::string &detail)
{
    c.fail(sig, detail);
    if (c.replay) fflush(stdout);
}

// compare everything against the bytes ST::format produced
static void compare(Ctx &c, const std::string &fmt, const Results &r)
{
    if (!r.o[S_FORMAT].ok()) {
        vf::count_dyn(std::string("out:format-rejected:") + vf::outkind_name(r.o[S_FORMAT].kind));
        if (r.o[S_FORMAT].kind == vf::EX_UNICODE && r.o[S_OSTREAM].ok()) {
            // the lenient modes: assume_valid hands the bytes over as they are, substitute_invalid repairs them like the
            // string constructor does in that mode (C02 decides what that repair is)
            const std::string &raw = r.bytes[S_OSTREAM];
            VF_ADD("validated", 2);
            if (!r.o[S_FORMAT_ASSUME].ok() || r.bytes[S_FORMAT_ASSUME] != raw)
                fail(c, "format(assume_valid):differs-from-the-bytes-the-call-produces",
                     strf("bytes %s: format(assume_valid) %s", vf::vis(raw.substr(0, 60)).c_str(),
                          r.o[S_FORMAT_ASSUME].ok() ? vf::vis(r.bytes[S_FORMAT_ASSUME].substr(0, 60)).c_str() : r.o[S_FORMAT_ASSUME].str().c_str()));
            std::string repaired;
            vf::Outcome ro = vf::guard([&] {
                ST::string rs(raw.data(), raw.size(), ST::substitute_invalid);
                repaired.assign(rs.c_str(), rs.size());
            });
            if (ro.ok() && (!r.o[S_FORMAT_SUBST].ok() || r.bytes[S_FORMAT_SUBST] != repaired))
                fail(c, "format(substitute_invalid):differs-from-the-repaired-bytes",
                     strf("bytes %s: format(substitute_invalid) %s, ST::string(bytes, substitute_invalid) is %s", vf::vis(raw.substr(0, 60)).c_str(),
                          r.o[S_FORMAT_SUBST].ok() ? vf::vis(r.bytes[S_FORMAT_SUBST].substr(0, 60)).c_str() : r.o[S_FORMAT_SUBST].str().c_str(),
                          vf::vis(repaired.substr(0, 60)).c_str()));
        }
        std::u32string tmp32;
        if (r.o[S_FORMAT].kind == vf::EX_UNICODE && r.o[S_OSTREAM].ok() && ref17::dec8(r.bytes[S_OSTREAM], tmp32)) {
            VF_COUNT("validated");
            fail(c, "format:throws-unicode_error-although-the-output-is-valid-UTF-8",
                 strf("ST::format threw %s, but writef to a narrow stream wrote the valid UTF-8 text %s (%zu bytes) for the same call",
                      r.o[S_FORMAT].str().c_str(), vf::vis(r.bytes[S_OSTREAM].substr(0, 60)).c_str(), r.bytes[S_OSTREAM].size()));
        }
        return;
    }
    const std::string &R = r.bytes[S_FORMAT];
    // classify the call by how the driver chunked the output (names the root cause in signatures)
    bool padded = false, hi_char = false, split = false, nonascii = false;
    std::u32string tmp;
    for (const Chunk &ch : r.chunks) {
        if (ch.is_char) {
            if (ch.count) padded = true;
            if (ch.count && (unsigned char)ch.data[0] >= 0x80) hi_char = true;
        } else if (!ref17::dec8(ch.data, tmp))
            split = true;
    }
    for (unsigned char b : R) nonascii |= b >= 0x80;
    const char *cls = split ? "chunk-splits-character" : hi_char ? "append_char-byte>=0x80" : padded ? "padded" : nonascii ? "non-ascii" : "ascii";
    if (padded || nonascii) c.nontrivial();
    vf::count_dyn(std::string("out:format-accepted:") + cls);

    // narrow sinks: byte-identical
    static const int NARROW[] = {S_FORMAT_V, S_UDL, S_RECORDER, S_FILE, S_STDOUT, S_OSTREAM, S_FORMAT_SUBST, S_FORMAT_ASSUME, S_FILE_ERRFLAG, S_OSTREAM_STATE};
    for (int s : NARROW) {
        VF_COUNT("validated");
        if (!r.o[s].ok())
            fail(c, strf("%s:throws-%s:%s", SINK[s], vf::outkind_name(r.o[s].kind), cls),
                 strf("ST::format returned %s but %s threw %s", vf::vis(R).c_str(), SINK[s], r.o[s].str().c_str()));
        else if (r.bytes[s] != R)
            fail(c, strf("%s:differs:%s", SINK[s], cls),
                 strf("ST::format %s (%zu bytes), %s wrote %s (%zu bytes)", vf::vis(R).c_str(), R.size(), SINK[s], vf::vis(r.bytes[s]).c_str(),
                      r.bytes[s].size()));
    }
    VF_COUNT("validated");
    if (r.o[S_OSTREAM].ok() && r.state[0] != 0) fail(c, strf("writef<char>:stream-state:%s", cls), strf("rdstate=%d after writef", r.state[0]));

    // Latin-1 reading of the same bytes
    VF_COUNT("validated");
    std::string wantl = ref17::latin1_to_utf8(R);
    if (!r.o[S_LATIN1].ok())
        fail(c, strf("format_latin_1:throws-%s:%s", vf::outkind_name(r.o[S_LATIN1].kind), cls), r.o[S_LATIN1].str());
    else if (r.bytes[S_LATIN1] != wantl)
        fail(c, strf("format_latin_1:differs:%s", cls),
             strf("bytes %s read as Latin-1 give %s, got %s", vf::vis(R).c_str(), vf::vis(wantl).c_str(), vf::vis(r.bytes[S_LATIN1]).c_str()));

    // wide sinks: transcoding of R.  R is valid for ST::format; when it is not *strictly*
    // well-formed (a form the library tolerates by design) the transcoding is C02's subject
    // and only the absence of crashes is observed here.
    std::u32string want32;
    if (!ref17::dec8(R, want32)) {
        vf::count_dyn("out:wide:skipped(tolerated-form)");
        return;
    }
    std::u16string want16 = through_stream(ref17::to16(want32));
    // failures explained by per-chunk transcoding / put(char_T(ch)) share one signature for
    // the three wide stream types (one template); anything else names the stream type
    const bool known_class = hi_char || split;
    for (int k = 0; k < 3; ++k) {
        const int s = S_WSTREAM + k;
        const char *nm = known_class ? "writef<wide-stream>" : SINK[s];
        VF_COUNT("validated");
        if (!r.o[s].ok()) {
            fail(c, strf("%s:throws-%s:%s", nm, vf::outkind_name(r.o[s].kind), cls),
                 strf("ST::format accepted the call and returned %s, but %s threw %s", vf::vis(R).c_str(), SINK[s], r.o[s].str().c_str()));
            vf::count_dyn(std::string("out:wide:throws-") + vf::outkind_name(r.o[s].kind));
            continue;
        }
        bool same = k == 1 ? r.w16 == want16 : r.w32[k == 0 ? 0 : 1] == want32;
        if (!same)
            fail(c, strf("%s:differs:%s", nm, cls),
                 strf("ST::format %s => expected units [%s], %s wrote [%s]", vf::vis(R).c_str(),
                      k == 1 ? u16_str(want16).c_str() : u32_str(want32).c_str(), SINK[s],
                      k == 1 ? u16_str(r.w16).c_str() : u32_str(r.w32[k == 0 ? 0 : 1]).c_str()));
        else if (r.state[1 + k] != 0)
            fail(c, strf("%s:stream-state:%s", nm, cls), strf("rdstate=%d after writef", r.state[1 + k]));
        vf::count_dyn(same ? "out:wide:equal" : "out:wide:differs");
    }
    if (!known_class) {
        VF_COUNT("validated");
        if (!r.o[S_WSTREAM_STATE].ok() || r.w32_state != want32)
            fail(c, strf("%s:differs:%s", SINK[S_WSTREAM_STATE], cls),
                 strf("ST::format %s => expected units [%s], a wchar_t stream with pending width 5 / fill '#' / oct got [%s]%s", vf::vis(R).c_str(),
                      u32_str(want32).c_str(), u32_str(r.w32_state).c_str(), r.o[S_WSTREAM_STATE].ok() ? "" : (" ; " + r.o[S_WSTREAM_STATE].str()).c_str()));
    }
    (void)fmt;
}

template <class... A>
static void run_case(Ctx &c, const std::string &fmt, const A &...a)
{
    Results r;
    run_sinks(fmt, r, a...);
    compare(c, fmt, r);
}

// ------------------------------------------------------------------ argument lists
#define U1F600 "\xF0\x9F\x98\x80"
static const char *ARG1_DESC[] = {
    "int 0", "int 42", "int -7", "unsigned 255", "long long -1234567890123", "unsigned long long 2^64-1", "int 0x20AC", "int 0x1F600",
    "int 0xE9", "char 'x'", "char NUL", "wchar_t U+20AC", "char32_t U+1F600", "char16_t U+00E9", "double 1.5", "double -0.000123",
    "float 2.5", "bool true", "bool false", "const char* \"\\u00e9\"", "const char* \"\\u20ac\"", "const char* U+1F600",
    "const char* \"a\\u00e9\\u20acb\"", "const char* \"\"", "const char* \"\\xA9\" (lone continuation byte)", "const char* \"abc\"",
    "ST::string \"\\u00e9\\u20ac\"", "std::string \"\\u20ac\"+U+1F600", "const wchar_t* L\"\\u00e9\\u20ac\"",
    "const char16_t* u\"\\u20ac\"+U+1F600", "const char32_t* U+1F600+\"\\u00e9\"", "std::string_view \"\\u00e9a\"", "const char8_t* u8\"\\u00e9\\u20ac\"",
    "char8_t 0xC3", "std::complex<double>(1.5,-2.25)", "std::complex<float>(-0.5,3)", "std::filesystem::path(\"d\u00e9/f\")",
    "std::wstring L\"\u00e9\u20ac\"", "std::u16string_view u\"\u20ac\"", "std::u32string U+1F600", "std::u8string_view u8\"\u00e9\"", "long -5", "unsigned long 7",
    "short -3", "unsigned char 200", "signed char -100"};
enum { NARG1 = sizeof ARG1_DESC / sizeof *ARG1_DESC };

static void dispatch1(unsigned ai, Ctx &c, const std::string &f)
{
    switch (ai) {
    case 0: return run_case(c, f, 0);
    case 1: return run_case(c, f, 42);
    case 2: return run_case(c, f, -7);
    case 3: return run_case(c, f, 255u);
    case 4: return run_case(c, f, -1234567890123LL);
    case 5: return run_case(c, f, ~0ULL);
    case 6: return run_case(c, f, 0x20AC);
    case 7: return run_case(c, f, 0x1F600);
    case 8: return run_case(c, f, 0xE9);
    case 9: return run_case(c, f, 'x');
    case 10: return run_case(c, f, '\0');
    case 11: return run_case(c, f, (wchar_t)0x20AC);
    case 12: return run_case(c, f, (char32_t)0x1F600);
    case 13: return run_case(c, f, (char16_t)0xE9);
    case 14: return run_case(c, f, 1.5);
    case 15: return run_case(c, f, -0.000123);
    case 16: return run_case(c, f, 2.5f);
    case 17: return run_case(c, f, true);
    case 18: return run_case(c, f, false);
    case 19: return run_case(c, f, (const char *)"\xC3\xA9");
    case 20: return run_case(c, f, (const char *)"\xE2\x82\xAC");
    case 21: return run_case(c, f, (const char *)U1F600);
    case 22: return run_case(c, f, (const char *)"a\xC3\xA9\xE2\x82\xAC" "b");
    case 23: return run_case(c, f, (const char *)"");
    case 24: return run_case(c, f, (const char *)"\xA9");
    case 25: return run_case(c, f, (const char *)"abc");
    case 26: return run_case(c, f, ST::string::from_validated("\xC3\xA9\xE2\x82\xAC", 5));
    case 27: return run_case(c, f, std::string("\xE2\x82\xAC" U1F600));
    case 28: return run_case(c, f, (const wchar_t *)L"\u00e9\u20ac");
    case 29: return run_case(c, f, (const char16_t *)u"\u20ac\U0001F600");
    case 30: return run_case(c, f, (const char32_t *)U"\U0001F600\u00e9");
    case 31: return run_case(c, f, std::string_view("\xC3\xA9" "a"));
    case 32: return run_case(c, f, (const char8_t *)u8"\u00e9\u20ac");
    case 33: return run_case(c, f, (char8_t)0xC3);
    case 34: return run_case(c, f, std::complex<double>(1.5, -2.25));
    case 35: return run_case(c, f, std::complex<float>(-0.5f, 3.0f));
    case 36: return run_case(c, f, std::filesystem::path(std::u8string(u8"d\u00e9/f")));
    case 37: return run_case(c, f, std::wstring(L"\u00e9\u20ac"));
    case 38: return run_case(c, f, std::u16string_view(u"\u20ac"));
    case 39: return run_case(c, f, std::u32string(U"\U0001F600"));
    case 40: return run_case(c, f, std::u8string_view(u8"\u00e9"));
    case 41: return run_case(c, f, -5L);
    case 42: return run_case(c, f, 7UL);
    case 43: return run_case(c, f, (short)-3);
    case 44: return run_case(c, f, (unsigned char)200);
    case 45: return run_case(c, f, (signed char)-100);
    }
}

static const char *ARG2_DESC[] = {
    "(const char* \"\\u00e9\", const char* \"\\u20ac\")",
    "(const char* \"\\xC3\", const char* \"\\xA9\")  [one character split over two arguments]",
    "(const char* \"\", const char* \"\\xA9\")",
    "(const char* \"\\xE2\\x82\", const char* \"\\xAC\")",
    "(ST::string \"a\\u20acb\", int 42)",
    "(int -7, ST::string U+1F600)",
    "(const wchar_t* L\"\\u00e9\\u20ac\", char 'x')",
    "(double 1.5, bool true)",
    "(char32_t U+1F600, char16_t U+00E9)",
    "(std::string \"\\u00e9\\u00e9\", long long -7)",
    "(const char16_t* u\"\\u20acx\", const char32_t* U+1F600)",
    "(char8_t 0xC3, char8_t 0xA9)  [UTF-8 code units of U+00E9]",
    "(char8_t 0xE2, const char* \"\\x82\\xAC\")",
    "(bool false, unsigned 255)"};
enum { NARG2 = sizeof ARG2_DESC / sizeof *ARG2_DESC };

static void dispatch2(unsigned ai, Ctx &c, const std::string &f)
{
    switch (ai) {
    case 0: return run_case(c, f, (const char *)"\xC3\xA9", (const char *)"\xE2\x82\xAC");
    case 1: return run_case(c, f, (const char *)"\xC3", (const char *)"\xA9");
    case 2: return run_case(c, f, (const char *)"", (const char *)"\xA9");
    case 3: return run_case(c, f, (const char *)"\xE2\x82", (const char *)"\xAC");
    case 4: return run_case(c, f, ST::string::from_validated("a\xE2\x82\xAC" "b", 5), 42);
    case 5: return run_case(c, f, -7, ST::string::from_validated(U1F600, 4));
    case 6: return run_case(c, f, (const wchar_t *)L"\u00e9\u20ac", 'x');
    case 7: return run_case(c, f, 1.5, true);
    case 8: return run_case(c, f, (char32_t)0x1F600, (char16_t)0xE9);
    case 9: return run_case(c, f, std::string("\xC3\xA9\xC3\xA9"), -7LL);
    case 10: return run_case(c, f, (const char16_t *)u"\u20acx", (const char32_t *)U"\U0001F600");
    case 11: return run_case(c, f, (char8_t)0xC3, (char8_t)0xA9);
    case 12: return run_case(c, f, (char8_t)0xE2, (const char *)"\x82\xAC");
    case 13: return run_case(c, f, false, 255u);
    }
}

// ------------------------------------------------------------------ format-string spaces
struct Space1 {
    std::vector<std::string> align, pad, width, prec, cls, l0, l1;
    uint64_t fields() const { return (uint64_t)align.size() * pad.size() * width.size() * prec.size() * cls.size(); }
    uint64_t count() const { return fields() * l0.size() * l1.size() * NARG1; }
    std::string fmt(uint64_t &i) const
    {
        const std::string &c = cls[vf::take(i, cls.size())];
        const std::string &p = prec[vf::take(i, prec.size())];
        const std::string &w = width[vf::take(i, width.size())];
        const std::string &pd = pad[vf::take(i, pad.size())];
        const std::string &al = align[vf::take(i, align.size())];
        const std::string &a = l0[vf::take(i, l0.size())];
        const std::string &b = l1[vf::take(i, l1.size())];
        return a + "{" + al + pd + w + p + c + "}" + b;
    }
};
static Space1 space1(bool thorough)
{
    Space1 s;
    s.align = {"", "<", ">"};
    s.pad = {"", "_*", "0", "_\xC3", "_\xA9", "_\xE2"};
    s.prec = {"", ".0", ".1", ".2", ".3", ".4", ".5", ".6", ".7"};
    if (thorough) {
        s.width = {"", "1", "2", "3", "6", "9"};
        s.cls = {"", "x", "#X", "+", "c", "f", "e", "#o", "b", "+d"};
        s.l0 = {"", "a", "\xC3\xA9", "\xC3", "{{", "\xE2"};
        s.l1 = {"", "z", "\xA9", "\x82\xAC", "\xAC", "}}", "\xE2\x82\xAC", "\x98\x80"};
    } else {
        s.width = {"", "1", "2", "6"};
        s.cls = {"", "x", "c", "f", "+", "#o"};
        s.l0 = {"", "\xC3\xA9", "\xC3"};
        s.l1 = {"", "\xA9", "\x82\xAC", "}}z"};
    }
    return s;
}

static const std::vector<std::string> F2 = {"",       "{}",     "{&1}",        "{&2}", "{.1}", "{.2}",  "{>3}",
                                            "{<4}",   "{_\xC3>2}", "{c}",      "{x}",  "{05}", "{&2.1}"};
static const std::vector<std::string> L2 = {"", "a", "\xA9", "\xC3\xA9{{", "}}", "\x82\xAC"};

static std::string fmt2(uint64_t &i, unsigned nfields)
{
    std::string s = L2[vf::take(i, L2.size())];
    for (unsigned k = 0; k < nfields; ++k) {
        s += F2[vf::take(i, F2.size())];
        s += L2[vf::take(i, L2.size())];
    }
    return s;
}

// ------------------------------------------------------------------ stream insertion / extraction
static const uint32_t B[] = {0, 1, 0x41, 0x7F, 0x80, 0xFF, 0x100, 0x7FF, 0x800, 0xFFF, 0x1000, 0xD7FF, 0xE000, 0xFFFD, 0xFFFF, 0x10000, 0x10FFFF};
enum { NB = sizeof B / sizeof *B };

template <class C>
static const char *cname()
{
    return std::is_same<C, char>::value ? "char" : std::is_same<C, wchar_t>::value ? "wchar_t" : std::is_same<C, char16_t>::value ? "char16_t" : "char32_t";
}
template <class C>
static std::basic_string<C> units_of(const std::u32string &s)
{
    std::basic_string<C> o;
    if constexpr (sizeof(C) == 1) {
        std::string b = ref17::enc8s(s);
        o.assign(b.begin(), b.end());
    } else if constexpr (sizeof(C) == 2) {
        std::u16string b = ref17::to16(s);
        o.assign(b.begin(), b.end());
    } else {
        for (char32_t cp : s) o += (C)cp;
    }
    return o;
}
static const char *size_class(const std::u32string &s)
{
    bool multi = false;
    for (char32_t cp : s) multi |= cp >= 0x80;
    return s.empty() ? "empty" : multi ? "multi-unit" : "ascii";
}

template <class C>
static void check_insert(Ctx &c, const std::u32string &text)
{
    std::string u8 = ref17::enc8s(text);
    std::basic_string<C> want = through_stream(units_of<C>(text));
    std::basic_string<C> got, got2;
    int st = 0;
    vf::Outcome o = vf::guard([&] {
        ST::string s = ST::string::from_validated(u8.data(), u8.size());
        std::basic_ostringstream<C> os;
        os << s;
        got = os.str();
        st = (int)os.rdstate();
        // after other output, and twice: the contents are appended exactly
        std::basic_ostringstream<C> os2;
        os2.put((C)'[');
        os2 << s << s;
        os2.put((C)']');
        got2 = os2.str();
    });
    VF_ADD("ops", 3);
    VF_COUNT("validated");
    if (!o.ok())
        return fail(c, strf("ostream<%s><<string:throws-%s:%s", cname<C>(), vf::outkind_name(o.kind), size_class(text)), o.str());
    if (got != want || st != 0)
        fail(c, strf("ostream<%s><<string:differs:%s", cname<C>(), size_class(text)),
             strf("wrote [%s] (rdstate %d), contents are [%s]", vf::hex_units(got.data(), got.size(), 24).c_str(), st,
                  vf::hex_units(want.data(), want.size(), 24).c_str()));
    // the same sequence of operations with the std::basic_string of the reference units
    std::basic_string<C> want2;
    {
        std::basic_string<C> raw = units_of<C>(text);
        std::basic_ostringstream<C> ref;
        ref.put((C)'[');
        ref << raw << raw;
        ref.put((C)']');
        want2 = ref.str();
    }
    if (got2 != want2)
        fail(c, strf("ostream<%s><<string<<string:differs:%s", cname<C>(), size_class(text)),
             strf("wrote [%s]", vf::hex_units(got2.data(), got2.size(), 32).c_str()));
    // with a field width pending on the stream (every width from 0 to past the longer of the two lengths, three adjustments, a
    // fill character): what a std::basic_string of the same units writes - the width counts units of the stream, once
    if constexpr (std::is_same<C, char>::value || std::is_same<C, wchar_t>::value) {
        std::basic_string<C> raw = units_of<C>(text);
        size_t wmax = (u8.size() > raw.size() ? u8.size() : raw.size()) + 2;
        for (size_t w = 0; w <= wmax; ++w)
            for (int adj = 0; adj < 3; ++adj) {
                std::ios_base::fmtflags fl = adj == 0 ? std::ios_base::left : adj == 1 ? std::ios_base::right : std::ios_base::internal;
                std::basic_string<C> g, r;
                long gw = -1, rw = -1;
                vf::Outcome ow = vf::guard([&] {
                    ST::string s = ST::string::from_validated(u8.data(), u8.size());
                    std::basic_ostringstream<C> os, ref;
                    os.width((std::streamsize)w);
                    os.fill((C)'*');
                    os.setf(fl, std::ios_base::adjustfield);
                    os << s;
                    gw = (long)os.width();
                    os << s;
                    g = os.str();
                    ref.width((std::streamsize)w);
                    ref.fill((C)'*');
                    ref.setf(fl, std::ios_base::adjustfield);
                    ref << raw;
                    rw = (long)ref.width();
                    ref << raw;
                    r = ref.str();
                });
                VF_ADD("ops", 2);
                VF_COUNT("validated");
                if (!ow.ok()) return fail(c, strf("ostream<%s><<string(width pending):throws-%s:%s", cname<C>(), vf::outkind_name(ow.kind), size_class(text)), ow.str());
                if (g != r || gw != rw)
                    return fail(c, strf("ostream<%s><<string(width pending):differs:%s", cname<C>(), size_class(text)),
                                strf("width %zu, adjustment #%d: wrote [%s] (width afterwards %ld), a std::basic_string of the same units writes [%s] (%ld)", w, adj,
                                     vf::hex_units(g.data(), g.size(), 32).c_str(), gw, vf::hex_units(r.data(), r.size(), 32).c_str(), rw));
            }
    }
}

static void check_insert_all(Ctx &c, const std::u32string &text)
{
    check_insert<char>(c, text);
    check_insert<wchar_t>(c, text);
    check_insert<char16_t>(c, text);
    check_insert<char32_t>(c, text);
    bool multi = false;
    for (char32_t cp : text) multi |= cp >= 0x80;
    if (multi) c.nontrivial();
    vf::count_dyn(std::string("out:insert:") + size_class(text));
}

// Extraction: the same stream contents are consumed token by token by std::basic_string and
// by ST::string; after each step token, stream state and read position must agree.  A token that
// is not valid under the default validation (check_validity) must raise ST::unicode_error.
struct StepObs {
    int kind;  // 0 ok, 1 unicode_error, 2 other exception
    std::string what;
    int state;
    long pos;
};
template <class C>
static bool token_valid(const std::basic_string<C> &t, std::string &utf8)
{
    utf8.clear();
    if constexpr (sizeof(C) == 1) {
        std::u32string tmp;
        std::string b(t.begin(), t.end());
        utf8 = b;
        return ref17::dec8(b, tmp);
    } else if constexpr (sizeof(C) == 2) {
        for (size_t i = 0; i < t.size(); ++i) {
            uint32_t u = (uint16_t)t[i];
            if (u >= 0xD800 && u <= 0xDBFF && i + 1 < t.size() && (uint16_t)t[i + 1] >= 0xDC00 && (uint16_t)t[i + 1] <= 0xDFFF) {
                ref17::enc8(0x10000 + (u - 0xD800) * 1024 + ((uint16_t)t[i + 1] - 0xDC00), utf8);
                ++i;
            } else if (u >= 0xD800 && u <= 0xDFFF)
                return false;
            else
                ref17::enc8(u, utf8);
        }
        return true;
    } else {
        for (C ch : t) {
            uint32_t u = (uint32_t)ch;
            if (u > 0x10FFFF || (u >= 0xD800 && u <= 0xDFFF)) return false;
            ref17::enc8(u, utf8);
        }
        return true;
    }
}

template <class C>
static void check_extract(Ctx &c, const std::basic_string<C> &content)
{
    std::basic_istringstream<C> is_std(content), is_st(content);
    bool any_token = false, any_invalid = false;
    for (int step = 0; step < 8; ++step) {
        std::basic_string<C> tok;
        StepObs a{0, "", 0, 0}, b{0, "", 0, 0};
        try {
            is_std >> tok;
        } catch (const std::exception &e) {
            a.kind = 2;
            a.what = typeid(e).name();
        }
        a.state = (int)is_std.rdstate();
        bool got_token = a.kind == 0 && !is_std.fail();
        ST::string target = ST::string::from_validated("prev", 4);
        vf::Outcome o = vf::guard([&] { is_st >> target; });
        VF_COUNT("ops");
        VF_COUNT("validated");
        b.state = (int)is_st.rdstate();
        std::string want8;
        bool valid = token_valid<C>(tok, want8);
        const char *tc = !got_token ? "no-token" : !valid ? "invalid-token" : want8.size() >= 16 ? "long-token" : "token";
        vf::count_dyn(strf("out:extract<%s>:%s", cname<C>(), tc));
        if (got_token) {
            any_token = true;
            if (!valid) {
                any_invalid = true;
                if (o.ok())
                    fail(c, strf("istream<%s>>>string:invalid-token-accepted", cname<C>()),
                         strf("token [%s] is not valid but was stored as %s", vf::hex_units(tok.data(), tok.size(), 24).c_str(),
                              vf::vis(std::string(target.c_str(), target.size())).c_str()));
                else if (o.kind != vf::EX_UNICODE)
                    fail(c, strf("istream<%s>>>string:invalid-token:%s", cname<C>(), vf::outkind_name(o.kind)), o.str());
            } else {
                if (!o.ok())
                    fail(c, strf("istream<%s>>>string:throws-%s:%s", cname<C>(), vf::outkind_name(o.kind), tc),
                         strf("token [%s]: %s", vf::hex_units(tok.data(), tok.size(), 24).c_str(), o.str().c_str()));
                else if (std::string(target.c_str(), target.size()) != want8)
                    fail(c, strf("istream<%s>>>string:token-differs:%s", cname<C>(), tc),
                         strf("std::basic_string extracted [%s], ST::string holds %s", vf::hex_units(tok.data(), tok.size(), 24).c_str(),
                              vf::vis(std::string(target.c_str(), target.size())).c_str()));
            }
        } else {
            // no token: std::basic_string extraction failed; the ST::string extraction must fail
            // the same way (same exception class or none).  The target's value is not compared.
            bool st_threw_other = !o.ok();
            if ((a.kind == 2) != st_threw_other)
                fail(c, strf("istream<%s>>>string:failure-differs", cname<C>()),
                     strf("std::basic_string: %s, ST::string: %s", a.kind ? a.what.c_str() : "no exception", o.str().c_str()));
        }
        if (a.state != b.state)
            fail(c, strf("istream<%s>>>string:stream-state-differs:%s", cname<C>(), tc),
                 strf("rdstate %d after std::basic_string extraction, %d after ST::string extraction", a.state, b.state));
        if (!got_token) break;
        // the unconsumed remainder must be the same (compare read positions)
        a.pos = (long)is_std.tellg();
        b.pos = (long)is_st.tellg();
        if (a.pos != b.pos)
            fail(c, strf("istream<%s>>>string:position-differs", cname<C>()), strf("tellg %ld vs %ld", a.pos, b.pos));
    }
    if (any_token && (any_invalid || content.size() >= 3)) c.nontrivial();
}

// the same with std::noskipws and ONE target object re-used for every step: when the stream was good but the next character is
// white space (or nothing is left), both extractions store the empty token - a target that keeps an earlier token is wrong
template <class C>
static void check_extract_noskipws(Ctx &c, const std::basic_string<C> &content)
{
    std::basic_istringstream<C> is_std(content), is_st(content);
    is_std >> std::noskipws;
    is_st >> std::noskipws;
    std::basic_string<C> tok;
    ST::string target;
    for (int step = 0; step < 6; ++step) {
        bool was_good = is_std.good() && is_st.good();
        bool threw = false;
        try {
            is_std >> tok;
        } catch (const std::exception &) {
            threw = true;
        }
        vf::Outcome o = vf::guard([&] { is_st >> target; });
        VF_COUNT("ops");
        VF_COUNT("validated");
        if (!was_good || threw) break;
        std::string want8;
        bool valid = token_valid<C>(tok, want8);
        if (!valid) break;  // invalid tokens are the other stage's matter
        if (!o.ok()) {
            fail(c, strf("istream<%s>>>string(noskipws, reused target):throws-%s", cname<C>(), vf::outkind_name(o.kind)), o.str());
            break;
        }
        if (std::string(target.c_str(), target.size()) != want8)
            fail(c, strf("istream<%s>>>string(noskipws, reused target):token-differs:%s", cname<C>(), tok.empty() ? "empty-token" : "token"),
                 strf("step %d: std::basic_string holds [%s], the ST::string holds %s", step, vf::hex_units(tok.data(), tok.size(), 24).c_str(),
                      vf::vis(std::string(target.c_str(), target.size())).c_str()));
        if ((int)is_std.rdstate() != (int)is_st.rdstate())
            fail(c, strf("istream<%s>>>string(noskipws, reused target):stream-state-differs", cname<C>()), strf("rdstate %d vs %d", (int)is_std.rdstate(), (int)is_st.rdstate()));
        if (is_std.fail()) {
            // skip one character on both streams and go on (field-by-field reading)
            is_std.clear();
            is_st.clear();
            is_std.get();
            is_st.get();
        }
    }
    if (content.size() >= 2) c.nontrivial();
}

static const unsigned char E8[] = {' ', '\n', 'a', 0xC3, 0xA9, 0xE2, 0xFF, 0x00};
static const uint32_t EW[] = {' ', '\n', 'a', 0xE9, 0x20AC, 0x1F600, 0x110000, 0};
static const uint16_t E16[] = {' ', 'a', 0xE9, 0xD83D, 0xDE00};

template <class C, class U>
static std::basic_string<C> seq_units(uint64_t idx, const U *alpha, unsigned k, unsigned L)
{
    std::vector<unsigned> v;
    vf::seq_decode(idx, k, L, v);
    std::basic_string<C> s;
    for (unsigned x : v) s += (C)alpha[x];
    return s;
}
static std::u32string seq_B(uint64_t idx, unsigned L)
{
    std::vector<unsigned> v;
    vf::seq_decode(idx, NB, L, v);
    std::u32string s;
    for (unsigned x : v) s += (char32_t)B[x];
    return s;
}
static std::u32string long_text(uint64_t i)
{
    unsigned len = vf::take(i, 41), start = vf::take(i, NB);
    std::u32string s;
    for (unsigned k = 0; k < len; ++k) {
        uint32_t cp = B[(start + k * 5) % NB];
        s += (char32_t)(cp ? cp : 0x42);
    }
    return s;
}

static std::string show(const std::string &fmt, const char *args) { return strf("format %s  args %s", vf::vis(fmt).c_str(), args); }


// ----------------------------------------------------------------------------- build-time default validation (round 10)
// Built with -DST_DEFAULT_VALIDATION=ST::substitute_invalid (variant "plain+default=substitute_invalid"): ST::format repairs
// ill-formed bytes under the configured default, and a wide stream must receive the transcoding of those repaired bytes.  The
// ill-formed text is one whole argument between ASCII literals, so repairing the complete output and repairing it piece by piece
// are the same thing; narrow sinks (which write the bytes as they are) are not part of this stage.
#ifdef VF_C17_DEFAULT_SUBST
static const char *const DM_BAD[] = {"\xFF", "\x80", "\xC3", "\xE2\x82", "\xF0\x9F\x98", "a\xA9", "\xC3\x41", "\xF8\x88\x80\x80\x80",
                                     "\xC3\xA9\xFF", "\xFF\xE2\x82\xAC", "ok", "\xC3\xA9"};
enum { DM_NBAD = sizeof DM_BAD / sizeof *DM_BAD, DM_NFMT = 4, DM_NARG = 3 };
static const char *const DM_FMT[DM_NFMT] = {"{}", "a{}b", "<{}> {}", "{}{}"};
template <class C, class F>
static void dm_wide(Ctx &c, const char *nm, const std::string &R, const std::basic_string<C> &want, const char *fmt, const char *bad,
                    int argkind, F &&call)
{
    std::basic_ostringstream<C> os;
    vf::Outcome o = vf::guard([&] { call(os); });
    VF_COUNT("validated");
    VF_COUNT("ops");
    if (!o.ok())
        fail(c, strf("%s:default=substitute_invalid:throws-%s", nm, vf::outkind_name(o.kind)),
             strf("format %s with the ill-formed argument %s (kind %d): ST::format returned %s, %s threw %s", vf::vis(fmt).c_str(),
                  vf::vis(bad).c_str(), argkind, vf::vis(R).c_str(), nm, o.str().c_str()));
    else if (os.str() != want)
        fail(c, strf("%s:default=substitute_invalid:differs", nm),
             strf("format %s with the ill-formed argument %s (kind %d): ST::format returned %s, %s wrote %zu units where the transcoding has %zu",
                  vf::vis(fmt).c_str(), vf::vis(bad).c_str(), argkind, vf::vis(R).c_str(), nm, os.str().size(), want.size()));
    else if (os.rdstate() != 0)
        fail(c, strf("%s:default=substitute_invalid:stream-state", nm), strf("rdstate=%d", (int)os.rdstate()));
}
template <class A>
static void dm_run(Ctx &c, const char *fmt, const char *bad, int argkind, const A &arg)
{
    std::string R;
    vf::Outcome fo = vf::guard([&] {
        ST::string s = ST::format(fmt, arg, 7);
        R.assign(s.c_str(), s.size());
    });
    VF_COUNT("ops");
    if (!fo.ok()) {
        VF_COUNT("validated");
        fail(c, strf("format:default=substitute_invalid:throws-%s", vf::outkind_name(fo.kind)),
             strf("format %s with %s (kind %d): %s", vf::vis(fmt).c_str(), vf::vis(bad).c_str(), argkind, fo.str().c_str()));
        return;
    }
    std::u32string want32;
    if (!ref17::dec8(R, want32)) {
        vf::count_dyn("out:default-mode:skipped(tolerated-form)");
        return;
    }
    for (const char *q = bad; *q; ++q)
        if ((unsigned char)*q >= 0x80) c.nontrivial();
    std::wstring wantw;
    for (char32_t ch : want32) wantw += (wchar_t)ch;
    std::u16string want16 = through_stream(ref17::to16(want32));
    dm_wide<wchar_t>(c, "writef<wchar_t>", R, wantw, fmt, bad, argkind, [&](std::wostream &os) { ST::writef(os, fmt, arg, 7); });
    dm_wide<char16_t>(c, "writef<char16_t>", R, want16, fmt, bad, argkind,
                      [&](std::basic_ostream<char16_t> &os) { ST::writef(os, fmt, arg, 7); });
    dm_wide<char32_t>(c, "writef<char32_t>", R, want32, fmt, bad, argkind,
                      [&](std::basic_ostream<char32_t> &os) { ST::writef(os, fmt, arg, 7); });
}
static void dm_case(Ctx &c, uint64_t i)
{
    unsigned k = (unsigned)vf::take(i, DM_NBAD), f = (unsigned)vf::take(i, DM_NFMT), a = (unsigned)vf::take(i, DM_NARG);
    const char *bad = DM_BAD[k];
    const char *fmt = DM_FMT[f];
    switch (a) {
    case 0: return dm_run(c, fmt, bad, 0, bad);                                              // const char *
    case 1: return dm_run(c, fmt, bad, 1, ST::string::from_validated(bad, strlen(bad)));    // a string holding the bytes as they are
    default: return dm_run(c, fmt, bad, 2, std::string(bad));                                // std::string
    }
}
#endif

static void build(vf::Plan &plan, const vf::Opts &o)
{
    selftest();
    if (o.replay) setvbuf(stdout, nullptr, _IONBF, 0);
#ifdef VF_C17_DEFAULT_SUBST
    plan.rule = "cases = (ill-formed or well-formed text, format string, argument type); non-trivial = the argument holds a byte >= 0x80";
    plan.assumptions = {"build with ST_DEFAULT_VALIDATION=ST::substitute_invalid; only the wide-stream clause is compared (the transcoding of ST::format's bytes); the ill-formed text is one whole argument between ASCII literals"};
    plan.stage(strf("default=substitute_invalid: %u texts x %u format strings x %u argument types, ST::format vs writef to 3 wide stream types", (unsigned)DM_NBAD, (unsigned)DM_NFMT, (unsigned)DM_NARG),
               (uint64_t)DM_NBAD * DM_NFMT * DM_NARG, [](uint64_t i, Ctx &c) { dm_case(c, i); },
               [](uint64_t i) {
                   unsigned k = (unsigned)vf::take(i, DM_NBAD), f = (unsigned)vf::take(i, DM_NFMT), a = (unsigned)vf::take(i, DM_NARG);
                   return strf("format %s  text %s  argument kind %u (0 const char*, 1 ST::string holding the bytes, 2 std::string)", vf::vis(DM_FMT[f]).c_str(), vf::vis(DM_BAD[k]).c_str(), a);
               });
    (void)o;
    return;
#endif
    plan.rule = "format stages: cases = (format string, argument list) pairs; non-trivial = ST::format accepted the call and the output contains padding or a non-ASCII byte.  stream stages: non-trivial = text with a multi-unit character (insertion) / contents with a token that is invalid or at least 3 units of content (extraction)";
    plan.assumptions = {
        "ST::format's bytes are the reference; calls it rejects are not compared (C10)",
        "wide sinks are compared only when ST::format's bytes are strictly well-formed UTF-8; outputs containing forms the library tolerates by design (overlong, encoded surrogates) are only run for safety (C02 owns their transcoding)",
        "reference transcoders validated against CPython over all 1,112,064 scalar values / all 256 Latin-1 bytes (CRC)",
        "stream insertion/extraction with the stream's default formatting state (width 0, skipws) in the classic locale; after a failed extraction (no token) the target's value is not compared",
        "char16_t / char32_t extraction: libstdc++ has no ctype facet for them, std::basic_string extraction fails; the identical failure (state, no exception) is what is compared"};

    // The sanitizer build of the thorough tier (5-10x slower per case) runs the quick bounds; the
    // larger bounds of the thorough tier are run by the plain build.
#ifdef VF_ASAN
    const bool th = false;
#else
    const bool th = o.thorough();
#endif
    {
        Space1 sp = space1(th);
        auto mkfmt = [sp](uint64_t i, unsigned &ai) {
            ai = (unsigned)vf::take(i, NARG1);
            return sp.fmt(i);
        };
        plan.stage(strf("format:literal x single-field-product(%" PRIu64 " fields) x literal x %u arguments", sp.fields(), (unsigned)NARG1), sp.count(),
                   [mkfmt](uint64_t i, Ctx &c) {
                       unsigned ai;
                       std::string f = mkfmt(i, ai);
                       dispatch1(ai, c, f);
                   },
                   [mkfmt](uint64_t i) {
                       unsigned ai;
                       std::string f = mkfmt(i, ai);
                       return show(f, ARG1_DESC[ai]);
                   });
    }
    {
        const unsigned nf = th ? 3 : 2;
        uint64_t n = NARG2 * L2.size();
        for (unsigned k = 0; k < nf; ++k) n *= F2.size() * L2.size();
        auto mkfmt = [nf](uint64_t i, unsigned &ai) {
            ai = (unsigned)vf::take(i, NARG2);
            return fmt2(i, nf);
        };
        plan.stage(strf("format:(literal field){0..%u} literal over %zu fields x %zu literals x %u argument lists", nf, F2.size() - 1, L2.size(),
                        (unsigned)NARG2),
                   n,
                   [mkfmt](uint64_t i, Ctx &c) {
                       unsigned ai;
                       std::string f = mkfmt(i, ai);
                       dispatch2(ai, c, f);
                   },
                   [mkfmt](uint64_t i) {
                       unsigned ai;
                       std::string f = mkfmt(i, ai);
                       return show(f, ARG2_DESC[ai]);
                   });
    }
    {
        // width sweep: every field width 1..WMAX (pad runs of every length, through every sink's own padding loop /
        // block writer) x alignment x pad kind x leading literal x arguments of every kind
        static const char *WALIGN[3] = {"", "<", ">"};
        static const char *WPAD[3] = {"", "_*", "0"};
        static const char *WLIT[2] = {"", "ab"};
        static const unsigned WARGS[8] = {1, 2, 4, 14, 17, 20, 25, 26};  // int 42, int -7, long long, double, bool, "\u20ac", "abc", ST::string
        const unsigned WMAX = th ? 1100 : 330;
        auto mk = [WMAX](uint64_t i, unsigned &ai) {
            ai = WARGS[vf::take(i, 8)];
            std::string f = WLIT[vf::take(i, 2)];
            f += "{";
            f += WALIGN[vf::take(i, 3)];
            f += WPAD[vf::take(i, 3)];
            f += std::to_string(1 + (unsigned)vf::take(i, WMAX));
            f += "}";
            return f;
        };
        plan.stage(strf("format:width sweep 1..%u x 3 alignments x 3 pad kinds x {\"\",\"ab\"} x 8 arguments, all sinks", WMAX),
                   (uint64_t)8 * 2 * 3 * 3 * WMAX,
                   [mk](uint64_t i, Ctx &c) {
                       unsigned ai;
                       std::string f = mk(i, ai);
                       dispatch1(ai, c, f);
                   },
                   [mk](uint64_t i) {
                       unsigned ai;
                       std::string f = mk(i, ai);
                       return show(f, ARG1_DESC[ai]);
                   });
    }
    {
        // calls without arguments: the format string is all there is (escapes still have to be reduced, a lone brace still
        // has to be refused - by every sink alike)
        static const std::vector<std::string> Z = {"a", "{{", "}}", "\xC3\xA9", "{", "}", " ", "{}"};
        const unsigned ZL = th ? 6 : 5;
        plan.stage(strf("format: no arguments, strings over {a,{{,}},e-acute,{,},space,{}}^<=%u, all sinks", ZL), vf::seq_count(Z.size(), ZL),
                   [ZL](uint64_t i, Ctx &c) {
                       std::vector<unsigned> d;
                       vf::seq_decode(i, Z.size(), ZL, d);
                       std::string f;
                       for (unsigned k : d) f += Z[k];
                       run_case(c, f);
                   },
                   [ZL](uint64_t i) {
                       std::vector<unsigned> d;
                       vf::seq_decode(i, Z.size(), ZL, d);
                       std::string f;
                       for (unsigned k : d) f += Z[k];
                       return show(f, "(none)");
                   });
    }
    {
        // long output: one multi-byte character at every byte offset of a long ASCII run (crossing every power-of-two
        // block size a sink might work in), as a string argument, as a literal of the format string, and as an
        // ST::string inserted into the four stream types
        const unsigned PMAX = th ? 17000 : 4200;
        auto mk = [](uint64_t i, unsigned &how) {
            how = (unsigned)vf::take(i, 2);
            unsigned kind = (unsigned)vf::take(i, 3);
            size_t pos = (size_t)i;
            static const char *const CH[3] = {"\xC3\xA9", "\xE2\x82\xAC", "\xF0\x9F\x98\x80"};
            std::string t(pos, 'a');
            for (size_t k = 0; k < pos; k += 61) t[k] = (char)('b' + (k / 61) % 20);
            t += CH[kind];
            t += "z";
            return t;
        };
        plan.stage(strf("format:long text, a 2-/3-/4-byte character at every offset 0..%u, as argument and as literal, all sinks", PMAX),
                   (uint64_t)2 * 3 * (PMAX + 1),
                   [mk](uint64_t i, Ctx &c) {
                       unsigned how;
                       std::string t = mk(i, how);
                       if (how == 0) run_case(c, "{}", t);
                       else run_case(c, t);
                       c.nontrivial();
                   },
                   [mk](uint64_t i) {
                       unsigned how;
                       std::string t = mk(i, how);
                       return strf("%s: %zu ASCII bytes, then %s, then 'z'", how == 0 ? "format {} with a std::string argument" : "format string made of the literal",
                                   t.size() - 1 - (t.size() > 1 ? 0 : 0), "one multi-byte character");
                   });
        // one piece of tens of KiB with the multi-byte character straddling every multiple of 16 KiB up to 128 KiB (and 256 KiB in the
        // thorough tier): a sink that works through a piece in blocks must not cut a character
        {
            const unsigned KMAX = th ? 16 : 8;
            plan.stage(strf("format:very long text, a 2-/3-/4-byte character starting 3..0 bytes before and 1 byte after every multiple of 16 KiB up to %u KiB, as argument and as literal, all sinks", KMAX * 16),
                       (uint64_t)2 * 3 * KMAX * 5,
                       [](uint64_t i, Ctx &c) {
                           unsigned how = (unsigned)vf::take(i, 2), kind = (unsigned)vf::take(i, 3), d = (unsigned)vf::take(i, 5);
                           size_t pos = ((size_t)i + 1) * 16384 + d - 3;
                           static const char *const CH[3] = {"\xC3\xA9", "\xE2\x82\xAC", "\xF0\x9F\x98\x80"};
                           std::string t(pos, 'a');
                           for (size_t k = 0; k < pos; k += 61) t[k] = (char)('b' + (k / 61) % 20);
                           t += CH[kind];
                           t += "zz";
                           if (how == 0) run_case(c, "{}", t);
                           else run_case(c, t);
                           c.nontrivial();
                       },
                       [](uint64_t i) {
                           unsigned how = (unsigned)vf::take(i, 2), kind = (unsigned)vf::take(i, 3), d = (unsigned)vf::take(i, 5);
                           return strf("%s: %zu ASCII bytes, then a %u-byte character", how == 0 ? "argument" : "literal", ((size_t)i + 1) * 16384 + d - 3, kind + 2);
                       })
                .case_timeout_s = 30;
        }
        // two pieces: a first piece of every length, then a second piece of a few lengths (growth of the assembling
        // buffer is decided by the pair (held, added), not by the total alone)
        const unsigned N1MAX = th ? 4200 : 1100;
        static const unsigned N2[6] = {1, 40, 257, 450, 513, 1030};
        plan.stage(strf("format:two string arguments, first of every length 0..%u, second of {1,40,257,450,513,1030}, as {}{}, as {}{>n2} padding and followed by single-character pieces, all sinks", N1MAX),
                   (uint64_t)3 * 6 * (N1MAX + 1),
                   [](uint64_t i, Ctx &c) {
                       unsigned how = (unsigned)vf::take(i, 3), n2 = N2[vf::take(i, 6)];
                       std::string a((size_t)i, 'A');
                       if (how == 0) run_case(c, "{}{}", a, std::string(n2, 'b'));
                       else if (how == 1) run_case(c, strf("{}{>%u}", n2), a, 7);
                       else if (n2 == 1) run_case(c, "{}{}|{+}|{#o}|{_*2}", a, -5, 6, 8, 9);  // single-character pieces (sign, prefix, one pad) right behind it
                       else return;
                       c.nontrivial();
                   },
                   [](uint64_t i) {
                       unsigned how = (unsigned)vf::take(i, 3), n2 = N2[vf::take(i, 6)];
                       return how == 0   ? strf("format {}{} with strings of %zu and %u bytes", (size_t)i, n2)
                              : how == 1 ? strf("format {}{>%u} with a string of %zu bytes and 7", n2, (size_t)i)
                                         : strf("format {}{}|{+}|{#o}|{_*2} with a string of %zu bytes and -5, 6, 8, 9", (size_t)i);
                   });
        const unsigned IMAX = th ? 4200 : 1100;
        plan.stage(strf("insert:long strings, a 2-/3-/4-byte character at every offset 0..%u, into 4 stream types", IMAX), (uint64_t)3 * (IMAX + 1),
                   [](uint64_t i, Ctx &c) {
                       static const char32_t CH[3] = {0xE9, 0x20AC, 0x1F600};
                       unsigned kind = (unsigned)vf::take(i, 3);
                       std::u32string t((size_t)i, U'a');
                       t += CH[kind];
                       t += U'z';
                       check_insert_all(c, t);
                       c.nontrivial();
                   },
                   [](uint64_t i) {
                       unsigned kind = (unsigned)vf::take(i, 3);
                       return strf("%zu x 'a', then a %u-byte character, then 'z'", (size_t)i, kind + 2);
                   });
    }
    {
        const unsigned L = th ? 4 : 3;
        plan.stage(strf("insert:B^<=%u(17 scalars) into 4 stream types", L), vf::seq_count(NB, L),
                   [L](uint64_t i, Ctx &c) { check_insert_all(c, seq_B(i, L)); },
                   [L](uint64_t i) {
                       std::u32string s = seq_B(i, L);
                       return strf("string of scalars [%s]", u32_str(s).c_str());
                   });
        plan.stage("insert:lengths0..40 x 17 rotations of B (crossing the in-object limits)", 41 * NB,
                   [](uint64_t i, Ctx &c) { check_insert_all(c, long_text(i)); },
                   [](uint64_t i) {
                       std::u32string s = long_text(i);
                       return strf("string of %zu scalars [%s]", s.size(), u32_str(s).c_str());
                   });
    }
    {
        const unsigned L8 = th ? 7 : 6, LW = th ? 6 : 5, L16 = th ? 6 : 4;
        plan.stage(strf("extract<char>:{' ','\\n',a,C3,A9,E2,FF,NUL}^<=%u", L8), vf::seq_count(8, L8),
                   [L8](uint64_t i, Ctx &c) { check_extract<char>(c, seq_units<char>(i, E8, 8, L8)); check_extract_noskipws<char>(c, seq_units<char>(i, E8, 8, L8)); },
                   [L8](uint64_t i) {
                       std::string s = seq_units<char>(i, E8, 8, L8);
                       return strf("stream contents %s", vf::vis(s).c_str());
                   });
        plan.stage(strf("extract<wchar_t>:{' ','\\n',a,E9,20AC,1F600,110000,NUL}^<=%u", LW), vf::seq_count(8, LW),
                   [LW](uint64_t i, Ctx &c) { check_extract<wchar_t>(c, seq_units<wchar_t>(i, EW, 8, LW)); check_extract_noskipws<wchar_t>(c, seq_units<wchar_t>(i, EW, 8, LW)); },
                   [LW](uint64_t i) {
                       std::wstring s = seq_units<wchar_t>(i, EW, 8, LW);
                       return strf("stream contents [%s]", vf::hex_units(s.data(), s.size(), 16).c_str());
                   });
        plan.stage(strf("extract<char16_t>:{' ',a,E9,D83D,DE00}^<=%u", L16), vf::seq_count(5, L16),
                   [L16](uint64_t i, Ctx &c) { check_extract<char16_t>(c, seq_units<char16_t>(i, E16, 5, L16)); },
                   [L16](uint64_t i) {
                       std::u16string s = seq_units<char16_t>(i, E16, 5, L16);
                       return strf("stream contents [%s]", vf::hex_units(s.data(), s.size(), 16).c_str());
                   });
        plan.stage(strf("extract<char32_t>:{' ','\\n',a,E9,20AC,1F600,110000,NUL}^<=%u", L16), vf::seq_count(8, L16),
                   [L16](uint64_t i, Ctx &c) { check_extract<char32_t>(c, seq_units<char32_t>(i, EW, 8, L16)); },
                   [L16](uint64_t i) {
                       std::u32string s = seq_units<char32_t>(i, EW, 8, L16);
                       return strf("stream contents [%s]", vf::hex_units(s.data(), s.size(), 16).c_str());
                   });
    }
    vf_early::add_stage(plan);
}

VF_MAIN("C17", build)
