// C02 - validation modes accept, reject and repair malformed input correctly.
// Arbitrary unit sequences over class-boundary alphabets (plus complete per-position sweeps)
// in each source encoding, through every route reading that encoding, in every mode; the
// oracle is the reference left-to-right decoder of ref_utf.h + the per-mode rule of the
// property.  Built three more times with -DST_DEFAULT_VALIDATION=... (VF_DEFAULT_ONLY): only
// the calls that omit the mode are made there and must behave as the configured mode.
#define UTF_PROP 2
#include "utf_harness.h"
#include <functional>

static void build(vf::Plan &plan, const vf::Opts &o)
{
    selftest();
    plan.rule = "cases = distinct unit sequences; non-trivial = the reference decoder finds at least one malformed unit or one "
                "tolerated form (overlong, encoded surrogate, above U+10FFFF, reversed surrogate pair) in the input";
    plan.assumptions = {"reference decoders encode the property's left-to-right reading (self-tested on the documented examples)",
                        "assume_valid results on malformed input are not compared (unspecified); only accept/reject",
                        "inputs whose tolerated 4-byte form exceeds U+10FFFF are not compared for UTF-16 targets (see C03)",
                        "the decoders look at most 4 units ahead, so sequences up to the bound over an alphabet with both edges of "
                        "every unit class cover every window in every context"};
    RunOpts all, prim, defl, deflprim;
    prim.primary_only = true;
    defl.all_modes = false;
    deflprim.all_modes = false;
    deflprim.primary_only = true;
    // the ASan+UBSan build of the thorough tier runs the quick bounds (~8x slower per case); the plain build the large ones
#ifdef VF_ASAN
    bool T = false;
    (void)o;
#else
    bool T = o.thorough();
#endif
#ifdef VF_DEFAULT_ONLY
    // configuration dimension: calls without a mode argument under the other ST_DEFAULT_VALIDATION settings
    add_seq_stage(plan, strf("default-mode calls: A8^<=%u", T ? 5u : 4u), ref::E8, A8, T ? 5 : 4, false, defl);
    add_seq_stage(plan, strf("default-mode calls: A16^<=%u", T ? 5u : 4u), ref::E16, A16, T ? 5 : 4, false, defl);
    add_seq_stage(plan, strf("default-mode calls: A32^<=%u", T ? 4u : 3u), ref::E32, A32, T ? 4 : 3, false, defl);
    (void)all;
    (void)prim;
    (void)deflprim;
    return;
#else
    (void)defl;
    (void)deflprim;
    // ---- UTF-8
    add_seq_stage(plan, strf("utf8: A8^<=%u all routes", T ? 5u : 4u), ref::E8, A8, T ? 5 : 4, false, all);
    add_seq_stage(plan, strf("utf8: A8^%u primary routes", T ? 6u : 5u), ref::E8, A8, T ? 6 : 5, true, prim);
    if (T) {
        add_seq_stage(plan, "utf8: core^7 primary routes", ref::E8, A8CORE, 7, true, prim);
        add_seq_stage(plan, "utf8: core^8 primary routes", ref::E8, A8CORE, 8, true, prim);
    }
    plan.stage("utf8: all 256^2 byte pairs, primary routes", 65536,
               [=](uint64_t i, Ctx &c) { run_case(c, ref::E8, U32V{(uint32_t)(i / 256), (uint32_t)(i % 256)}, prim); },
               [](uint64_t i) { return show_units(ref::E8, U32V{(uint32_t)(i / 256), (uint32_t)(i % 256)}); });
    {
        static const uint32_t XY[5] = {0x41, 0xC2, 0xE0, 0xF0, 0x80};
        plan.stage("utf8: every byte between x,y in {41,C2,E0,F0,80}, primary routes", 256 * 25,
                   [=](uint64_t i, Ctx &c) {
                       uint32_t b = (uint32_t)vf::take(i, 256), x = XY[vf::take(i, 5)], y = XY[vf::take(i, 5)];
                       run_case(c, ref::E8, U32V{x, b, y}, prim);
                   },
                   [](uint64_t i) {
                       uint32_t b = (uint32_t)vf::take(i, 256), x = XY[vf::take(i, 5)], y = XY[vf::take(i, 5)];
                       return show_units(ref::E8, U32V{x, b, y});
                   });
    }
    if (T)
        plan.stage("utf8: all 256^3 byte triples, primary routes", 1u << 24,
                   [=](uint64_t i, Ctx &c) {
                       run_case(c, ref::E8, U32V{(uint32_t)(i >> 16), (uint32_t)(i >> 8) & 255, (uint32_t)i & 255}, prim);
                   },
                   [](uint64_t i) { return show_units(ref::E8, U32V{(uint32_t)(i >> 16), (uint32_t)(i >> 8) & 255, (uint32_t)i & 255}); });
    // ---- UTF-16
    add_seq_stage(plan, strf("utf16: A16^<=%u all routes", T ? 5u : 4u), ref::E16, A16, T ? 5 : 4, false, all);
    add_seq_stage(plan, strf("utf16: A16^%u primary routes", T ? 6u : 5u), ref::E16, A16, T ? 6 : 5, true, prim);
    plan.stage("utf16: every 16-bit unit in 6 contexts, primary routes", 65536 * 6,
               [=](uint64_t i, Ctx &c) {
                   uint32_t u = (uint32_t)(i % 65536);
                   unsigned k = (unsigned)(i / 65536);
                   U32V s;
                   switch (k) {
                   case 0: s = {u}; break;
                   case 1: s = {u, 0xDC00}; break;
                   case 2: s = {0xD800, u}; break;
                   case 3: s = {u, 0xD800}; break;
                   case 4: s = {0xDC00, u}; break;
                   default: s = {0x41, u, 0x41}; break;
                   }
                   run_case(c, ref::E16, s, prim);
               },
               [](uint64_t i) { return strf("unit %04X in context %u", (unsigned)(i % 65536), (unsigned)(i / 65536)); });
    if (T)
        plan.stage("utf16: all 2048^2 surrogate pairs, primary routes", 2048 * 2048,
                   [=](uint64_t i, Ctx &c) { run_case(c, ref::E16, U32V{0xD800 + (uint32_t)(i / 2048), 0xD800 + (uint32_t)(i % 2048)}, prim); },
                   [](uint64_t i) { return show_units(ref::E16, U32V{0xD800 + (uint32_t)(i / 2048), 0xD800 + (uint32_t)(i % 2048)}); });
    // ---- UTF-32 / wchar_t
    add_seq_stage(plan, strf("utf32: A32^<=%u all routes", T ? 5u : 4u), ref::E32, A32, T ? 5 : 4, false, all);
    plan.stage("utf32: every value 10FF00..110100 alone and between 'A's, all routes", 0x201 * 2,
               [=](uint64_t i, Ctx &c) {
                   uint32_t v = 0x10FF00 + (uint32_t)(i % 0x201);
                   run_case(c, ref::E32, (i / 0x201) ? U32V{0x41, v, 0x41} : U32V{v}, all);
               },
               [](uint64_t i) { return strf("value %X %s", 0x10FF00 + (unsigned)(i % 0x201), (i / 0x201) ? "between 41s" : "alone"); });
    plan.stage("utf32: every value with exactly one bit set above bit 20, and all-ones patterns", 64,
               [=](uint64_t i, Ctx &c) {
                   uint32_t v = i < 32 ? (1u << i) : (0xFFFFFFFFu >> (i - 32));
                   run_case(c, ref::E32, U32V{v}, all);
                   run_case(c, ref::E32, U32V{0x20AC, v}, all);
               },
               [](uint64_t i) { return strf("value %X", i < 32 ? (1u << i) : (0xFFFFFFFFu >> (i - 32))); });
    add_position_sweep(plan, T ? 300 : 70, all);
    add_position_sweep(plan, T ? 80 : 40, all, 7);
    // ---- fill(n, byte): the result is a string like any other - bytes below 0x80 give n copies, a byte >= 0x80 repeated is not UTF-8
    // and is rejected under check_validity (the default here)
    plan.stage("ST::string::fill(n, byte) for every byte value x n in {0, 1, 2, 15, 16, 40}", 256 * 6,
               [](uint64_t i, Ctx &c) {
                   static const size_t NS[6] = {0, 1, 2, 15, 16, 40};
                   unsigned b = (unsigned)vf::take(i, 256);
                   size_t n = NS[i];
                   std::string got;
                   vf::Outcome o = vf::guard([&] {
                       ST::string r = ST::string::fill(n, (char)b);
                       got.assign(r.c_str(), r.size());
                   });
                   VF_COUNT("validated");
                   bool must_throw = b >= 0x80 && n > 0;
                   if (must_throw && o.kind != vf::EX_UNICODE)
                       c.fail("c02:fill(n, byte>=0x80):check_validity:accepted-invalid", strf("fill(%zu, 0x%02X) %s", n, b, o.ok() ? "returned a string that is not UTF-8" : o.str().c_str()));
                   else if (!must_throw && (!o.ok() || got != std::string(n, (char)b)))
                       c.fail("c02:fill(n, ascii):wrong-result", strf("fill(%zu, 0x%02X): %s", n, b, o.ok() ? vf::hex_str(got, 24).c_str() : o.str().c_str()));
                   if (n) c.nontrivial();
               },
               [](uint64_t i) { return strf("fill case %llu", (unsigned long long)i); });
    // ---- strings that legitimately hold malformed bytes (through from_validated / assume_valid, or a left()/substr() cut inside
    // a character): operations on them validate their *argument*, in its mode, and nothing else - not the string itself, not the
    // concatenation, and not "the same bytes as before"
    {
        static const std::vector<std::string> HELD = {"\xE2\x82", "\xC3", "ab\xFF", "\x80", "\xF0\x9F\x98", "ok", "",
                                                      std::string(20, 'h') + "\xE2\x82", std::string("\xC3") + std::string(20, 'h')};
        static const std::vector<std::string> ARGS = {"x", "\xAC", "\xA9", "\x98\x80", "\xE2\x82", "\xFF", "plain argument text that is long", "",
                                                      std::string(20, 'a') + "\xAC"};
        plan.stage("strings holding malformed bytes x arguments (valid, continuation bytes that would complete the string, malformed): copy / assign / "
                   "set / + / += validate the argument alone",
                   HELD.size() * ARGS.size(),
                   [](uint64_t i, Ctx &c) {
                       const std::string &h = HELD[i / ARGS.size()], &a = ARGS[i % ARGS.size()];
                       std::vector<ref::Item> items;
                       ref::dec8((const unsigned char *)a.data(), a.size(), items);
                       bool a_bad = false;
                       for (auto &it : items) a_bad = a_bad || !it.good;
                       const bool nul_free = a.find('\0') == std::string::npos;
                       auto S = [&] { return ST::string::from_validated(h.data(), h.size()); };
                       auto bytes = [](const ST::string &x) { return std::string(x.c_str(), x.size()); };
                       auto expect_value = [&](const char *what, const std::function<ST::string()> &f, const std::string &want) {
                           VF_COUNT("validated");
                           std::string got;
                           vf::Outcome o = vf::guard([&] { got = bytes(f()); });
                           if (!o.ok())
                               c.fail(strf("c02:held-malformed:%s:%s", what, vf::outkind_name(o.kind)),
                                      strf("string holding %s, argument %s: %s failed (%s) although nothing it is given needs validation or the argument is "
                                           "well-formed", vf::hex_str(h, 24).c_str(), vf::hex_str(a, 24).c_str(), what, o.str().c_str()));
                           else if (got != want)
                               c.fail(strf("c02:held-malformed:%s:wrong-value", what),
                                      strf("string holding %s, argument %s: %s gives %s", vf::hex_str(h, 24).c_str(), vf::hex_str(a, 24).c_str(), what, vf::hex_str(got, 40).c_str()));
                       };
                       auto expect_throw = [&](const char *what, const std::function<void()> &f) {
                           VF_COUNT("validated");
                           vf::Outcome o = vf::guard([&] { f(); });
                           if (o.kind != vf::EX_UNICODE)
                               c.fail(strf("c02:held-malformed:%s:accepted-invalid-argument", what),
                                      strf("string holding %s, malformed argument %s: %s %s", vf::hex_str(h, 24).c_str(), vf::hex_str(a, 24).c_str(), what,
                                           o.ok() ? "did not throw" : o.str().c_str()));
                       };
                       // value semantics never validate
                       expect_value("copy-ctor", [&] { ST::string s = S(); ST::string t(s); return t; }, h);
                       expect_value("copy-assign", [&] { ST::string s = S(), t = ST_LITERAL("previous value, long enough for the heap"); t = s; return t; }, h);
                       expect_value("copy-assign(short target)", [&] { ST::string s = S(), t; t = s; return t; }, h);
                       expect_value("move-assign", [&] { ST::string s = S(), t; t = std::move(s); return t; }, h);
                       expect_value("set(const string&)", [&] { ST::string s = S(), t; t.set(s); return t; }, h);
                       expect_value("s + s", [&] { ST::string s = S(); return s + s; }, h + h);
                       expect_value("s += s2", [&] { ST::string s = S(), t = S(); t += s; return t; }, h + h);
                       if (!a_bad) {
                           if (nul_free) {
                               expect_value("s + cstr", [&] { return S() + a.c_str(); }, h + a);
                               expect_value("cstr + s", [&] { return a.c_str() + S(); }, a + h);
                               expect_value("s += cstr", [&] { ST::string s = S(); s += a.c_str(); return s; }, h + a);
                               expect_value("s + char8_t cstr", [&] { return S() + (const char8_t *)a.c_str(); }, h + a);
                           }
                           expect_value("s + ST::string(arg)", [&] { return S() + ST::string(a.data(), a.size()); }, h + a);
                       } else {
                           if (nul_free) {
                               expect_throw("s + cstr", [&] { (void)(S() + a.c_str()); });
                               expect_throw("cstr + s", [&] { (void)(a.c_str() + S()); });
                               expect_throw("s += cstr", [&] { ST::string s = S(); s += a.c_str(); });
                               expect_throw("s + char8_t cstr", [&] { (void)(S() + (const char8_t *)a.c_str()); });
                           }
                       }
                       // being given the bytes it already holds is not a reason to skip validation
                       {
                           std::vector<ref::Item> hi;
                           ref::dec8((const unsigned char *)h.data(), h.size(), hi);
                           bool h_bad = false;
                           for (auto &it : hi) h_bad = h_bad || !it.good;
                           const ST::char_buffer same(h.data(), h.size());
                           if (h_bad && i % ARGS.size() == 0) {
                               expect_throw("set(const char_buffer& holding the same bytes, check_validity)", [&] { ST::string s = S(); s.set(same, ST::check_validity); });
                               expect_throw("set(ptr,n of the same bytes, check_validity)", [&] { ST::string s = S(); s.set(h.data(), h.size(), ST::check_validity); });
                               expect_throw("= std::string of the same bytes (default mode)", [&] { ST::string s = S(); s = h; });
                               VF_COUNT("validated");
                               std::string got;
                               vf::Outcome o = vf::guard([&] { ST::string s = S(); s.set(same, ST::substitute_invalid); got = bytes(s); });
                               std::vector<ref::Item> gi;
                               ref::dec8((const unsigned char *)got.data(), got.size(), gi);
                               bool g_bad = false;
                               for (auto &it : gi) g_bad = g_bad || !it.good;
                               if (!o.ok() || g_bad || got.find("\xEF\xBF\xBD") == std::string::npos)
                                   c.fail("c02:held-malformed:set(const char_buffer& holding the same bytes, substitute_invalid):not-repaired",
                                          strf("string holding %s: result %s", vf::hex_str(h, 24).c_str(), o.ok() ? vf::hex_str(got, 40).c_str() : o.str().c_str()));
                           }
                       }
                       c.nontrivial();
                   },
                   [](uint64_t i) { return strf("held %s argument %s", vf::hex_str(HELD[i / ARGS.size()], 24).c_str(), vf::hex_str(ARGS[i % ARGS.size()], 24).c_str()); });
    }
#endif
    vf_early::add_stage(plan);
}

VF_MAIN("C02", build)
