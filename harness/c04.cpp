// C04 - ST::string has value semantics: reads never mutate, results never alias.
// (the exploration machinery lives in common/strsys.h; see its header comment)
//   * every state: every const member / free function is called on every live string; the
//     source's bytes, size and data pointer must be unchanged, the returned object must own
//     storage disjoint from every live string, and scribbling over / reassigning / destroying
//     the returned object must leave every string unchanged;
//   * every mutator transition: BEFORE the mutator runs, one result of every const operation is
//     taken from every live string and held; AFTER it, each held result must still own live
//     storage and hold exactly the value it had, the target must hold the model value and no
//     other string may change.
#define VF_MAIN_TU
#include "strsys.h"

static void build(std::vector<hx::Job> &jobs, const vf::Opts &o, std::string &rule, std::vector<std::string> &assumptions)
{
    build_const_ops();
    rule = "states = canonical concrete states of two ST::string objects (bytes, heap contents, ownership facts), deduplicated; "
           "non-trivial = both strings alive and at least one heap-backed";
    assumptions = {strf("%zu result-producing const operations and ~90 scalar reads are applied in every state; each mutator transition "
                        "holds one result of each of 36 representative const operations (one per way a result comes into being) across the mutator", g_ops.size()),
                   "value correctness of the const operations themselves is the business of C06-C09/C11; here results are compared with "
                   "their own earlier value (independence) and mutator targets with a std::string model",
                   "view() returns a non-owning std::string_view by definition and is exercised as a read only",
                   "history depth is bounded (see job notes); appends are enabled while the result stays <= 90 bytes",
                   "bytes of the in-object array that data()[0..size] does not expose are excluded from the canonical state and from the "
                   "unchanged-checks: the library leaves them uninitialised when copying a long string, they are never observable"};
    // quick: depth 4 from all six initial sizes.  thorough: the same under ASan+UBSan, and in the plain build additionally
    // depth 5 from the two initial sizes on either side of the in-object limit (depth 5 from all six does not finish within
    // the tier's time budget: ~10x the states of depth 4, each with the full battery)
    hx::Limits lim;
    lim.max_depth = 4;
    for (size_t n : SIZES) jobs.push_back(hx::make_job<StrSys>([n]() { return new StrSys(n); }, lim));
#ifndef VF_ASAN
    if (o.thorough()) {
        hx::Limits deep;
        deep.max_depth = 5;
        for (size_t n : {size_t(15), size_t(16)})
            jobs.push_back(hx::make_job<StrSys>([n]() {
                StrSys *s = new StrSys(n);
                s->nm += ", history depth 5";
                return s;
            }, deep));
    }
#endif
}

int main(int argc, char **argv) { return hx::main_driver(argc, argv, "C04", build); }
