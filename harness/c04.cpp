// C04 - ST::string has value semantics: reads never mutate, results never alias.
// (the exploration machinery lives in common/strsys.h; see its header comment)
//   * every state: every const member / free function is called on every live string; the
//     source's bytes, size and data pointer must be unchanged, the returned object must own
//     storage disjoint from every live string, and scribbling over / reassigning / destroying
//     the returned object must leave every string unchanged;
//   * every mutator transition: BEFORE the mutator runs, one result of every const operation is
//     taken from every live string and held; AFTER it, each held result must still own live
//     storage and hold exactly the value it had, the target must hold the model value and no
//     other string may change.
#define VF_MAIN_TU
#include "strsys.h"

// Results of assignment expressions are the object assigned to: what is done with (s = t), (s += t), s.set(...) chains is done to s.
struct ExprSys {
    uint64_t n_checks = 0;
    const char *name() const { return "identity of assignment / append results, chained use"; }
    size_t op_count() const { return 0; }
    bool enabled(size_t) const { return false; }
    std::string op_name(size_t) const { return ""; }
    void reset() {}
    void apply(size_t, bool, hx::Fails &) {}
    std::string key() const { return "expr"; }
    bool nontrivial() const { return true; }
    void on_new_state(hx::Fails &f)
    {
        static const char *const V[4] = {"ab", "a value that is long enough for the heap", "0123456789abcdef", ""};
        auto bytes = [](const S &x) { return std::string(x.c_str(), x.size()); };
        for (int i = 0; i < 4; ++i)
            for (int j = 0; j < 4; ++j) {
                vf::Outcome oc = vf::guard([&] {
                    auto chk = [&](const char *what, const void *r, const S &a, const std::string &want) {
                        ++n_checks;
                        if (r != (const void *)&a) f.push_back(hx::Fail{strf("c04:%s:result-is-not-the-target", what), strf("the result of %s does not denote the string it was applied to", what)});
                        else if (bytes(a) != want) f.push_back(hx::Fail{strf("c04:%s:target-wrong-value", what), strf("after %s the string holds %s", what, vf::vis(bytes(a)).c_str())});
                    };
                    const std::string vi = V[i], vj = V[j];
                    S b = S::from_validated(vj.data(), vj.size()), c = ST_LITERAL("third value, also long enough for the heap");
                    { S a = S::from_validated(vi.data(), vi.size()); auto &&r = (a = b); chk("copy assignment", &r, a, vj); }
                    { S a = S::from_validated(vi.data(), vi.size()); S m = b; auto &&r = (a = std::move(m)); chk("move assignment", &r, a, vj); }
                    { S a = S::from_validated(vi.data(), vi.size()); auto &&r = (a = vj.c_str()); chk("= const char*", &r, a, vj); }
                    { S a = S::from_validated(vi.data(), vi.size()); auto &&r = (a = vj); chk("= std::string", &r, a, vj); }
                    { S a = S::from_validated(vi.data(), vi.size()); auto &&r = (a = ST::char_buffer(vj.data(), vj.size())); chk("= char_buffer&&", &r, a, vj); }
                    { S a = S::from_validated(vi.data(), vi.size()); auto &&r = (a += b); chk("+= string", &r, a, vi + vj); }
                    { S a = S::from_validated(vi.data(), vi.size()); auto &&r = (a += vj.c_str()); chk("+= const char*", &r, a, vi + vj); }
                    { S a = S::from_validated(vi.data(), vi.size()); auto &&r = (a += 'x'); chk("+= char", &r, a, vi + "x"); }
                    { S a = S::from_validated(vi.data(), vi.size()); auto &&r = (a += U'\u20ac'); chk("+= char32_t", &r, a, vi + "\xE2\x82\xAC"); }
                    { S a = S::from_validated(vi.data(), vi.size()); (a = b) = c; chk("(a = b) = c", &a, a, bytes(c)); }
                    { S a = S::from_validated(vi.data(), vi.size()); S m = b; (a = std::move(m)) = c; chk("(a = std::move(b)) = c", &a, a, bytes(c)); }
                    { S a = S::from_validated(vi.data(), vi.size()); (a += b) += c; chk("(a += b) += c", &a, a, vi + vj + bytes(c)); }
                    { S a = S::from_validated(vi.data(), vi.size()); (a = b).clear(); chk("(a = b).clear()", &a, a, ""); }
                    // arguments handed over as non-const lvalues are sources, not sinks: they keep their value
                    {
                        auto keeps = [&](const char *what, const S &a, const ST::char_buffer &arg) {
                            ++n_checks;
                            if (std::string(arg.data(), arg.size()) != vj)
                                f.push_back(hx::Fail{strf("c04:%s:lvalue-argument-changed", what), strf("after %s the argument holds %s", what, vf::vis(std::string(arg.data(), arg.size())).c_str())});
                            else if (bytes(a) != vj) f.push_back(hx::Fail{strf("c04:%s:target-wrong-value", what), strf("after %s the string holds %s", what, vf::vis(bytes(a)).c_str())});
                        };
                        { S a = S::from_validated(vi.data(), vi.size()); ST::char_buffer buf(vj.data(), vj.size()); a.set_validated(buf); keeps("set_validated(char_buffer lvalue)", a, buf); }
                        { S a = S::from_validated(vi.data(), vi.size()); ST::char_buffer buf(vj.data(), vj.size()); a.set(buf); keeps("set(char_buffer lvalue)", a, buf); }
                        { S a = S::from_validated(vi.data(), vi.size()); ST::char_buffer buf(vj.data(), vj.size()); a = buf; keeps("= char_buffer lvalue", a, buf); }
                        { ST::char_buffer buf(vj.data(), vj.size()); S a = S::from_validated(buf); keeps("from_validated(char_buffer lvalue)", a, buf); }
                        { ST::char_buffer buf(vj.data(), vj.size()); S a(buf); keeps("string(char_buffer lvalue)", a, buf); }
                        { S a = S::from_validated(vi.data(), vi.size()); S src = S::from_validated(vj.data(), vj.size()); a.set(src); keeps("set(string lvalue)", a, src.m_buffer); }
                        { ST::char_buffer buf(vj.data(), vj.size()); ST::string_stream ss; ss << S::from_validated(buf); ++n_checks;
                          if (std::string(buf.data(), buf.size()) != vj) f.push_back(hx::Fail{"c04:from_validated(lvalue) in an expression:lvalue-argument-changed", "buffer lost its value"}); }
                    }
                });
                if (!oc.ok()) f.push_back(hx::Fail{strf("c04:assignment-results:%s", vf::outkind_name(oc.kind)), oc.str()});
            }
        hx::note_phase("reads");
    }
    void samples(std::vector<std::string> &out) const { out.push_back(strf("assignment expressions: %llu checks", (unsigned long long)n_checks)); }
    void counters(std::map<std::string, uint64_t> &c) const { c["assignment-expression-checks"] += n_checks; }
};

static void build(std::vector<hx::Job> &jobs, const vf::Opts &o, std::string &rule, std::vector<std::string> &assumptions)
{
    build_const_ops();
    rule = "states = canonical concrete states of two ST::string objects (bytes, heap contents, ownership facts), deduplicated; "
           "non-trivial = both strings alive and at least one heap-backed";
    assumptions = {strf("%zu result-producing const operations and ~90 scalar reads are applied in every state; each mutator transition "
                        "holds one result of each of 36 representative const operations (one per way a result comes into being) across the mutator", g_ops.size()),
                   "value correctness of the const operations themselves is the business of C06-C09/C11; here results are compared with "
                   "their own earlier value (independence) and mutator targets with a std::string model",
                   "view() returns a non-owning std::string_view by definition and is exercised as a read only",
                   "history depth is bounded (see job notes); appends are enabled while the result stays <= 90 bytes",
                   "bytes of the in-object array that data()[0..size] does not expose are excluded from the canonical state and from the "
                   "unchanged-checks: the library leaves them uninitialised when copying a long string, they are never observable"};
    // quick: depth 4 from all six initial sizes.  thorough: the same under ASan+UBSan, and in the plain build additionally
    // depth 5 from the two initial sizes on either side of the in-object limit (depth 5 from all six does not finish within
    // the tier's time budget: ~10x the states of depth 4, each with the full battery)
    hx::Limits lim;
    lim.max_depth = 4;
    for (size_t n : SIZES) jobs.push_back(hx::make_job<StrSys>([n]() { return new StrSys(n); }, lim));
    {
        hx::Limits l1;
        l1.max_depth = 0;
        jobs.push_back(hx::make_job<ExprSys>([]() { return new ExprSys(); }, l1));
    }
#ifndef VF_ASAN
    if (o.thorough()) {
        hx::Limits deep;
        deep.max_depth = 5;
        for (size_t n : {size_t(15), size_t(16)})
            jobs.push_back(hx::make_job<StrSys>([n]() {
                StrSys *s = new StrSys(n);
                s->nm += ", history depth 5";
                return s;
            }, deep));
    }
#endif
}

int main(int argc, char **argv) { return hx::main_driver(argc, argv, "C04", build); }
