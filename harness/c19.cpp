// C19 - allocation failure propagates cleanly and leaves every object destructible.
// Exhaustive single-fault enumeration on top of the explicit-state exploration of common/strsys.h:
//   * every mutator transition is explored once without a fault and once per allocation index
//     k = 0..K-1 ("the k-th allocation made by library code during this call throws
//     std::bad_alloc"); when the fault fires, std::bad_alloc must reach the harness, every live
//     string must be valid and exclusively owning, the target must hold its previous value or be
//     empty, the other string must be bitwise unchanged, nothing may leak or be freed twice; the
//     post-fault state is a state like any other and is explored further (read, assign, destroy);
//   * in every state, every result-producing const operation (slicing, replace, split, tokenize,
//     conversions, concatenation, format, stream) is first run to count its allocations and then
//     once per allocation index with that allocation failing;
//   * a standalone job does the same for buffers of char / char32_t, string_stream growth, the
//     hex/base64 codecs and the free conversion functions, from short and long pre-states.
#define VF_MAIN_TU
#include "strsys.h"
#include <thread>
#include "st_stdio.h"
#include "st_codecs.h"

enum { K_FAULTS = 8 };  // fault indices explored per mutator; no mutator makes that many allocations (checked)

struct FaultSys : StrSys {
    std::string nm2;
    uint64_t n_fired = 0, n_const_faults = 0, n_const_ops = 0;
    long max_allocs_mutator = 0, max_allocs_const = 0;
    std::map<std::string, std::pair<long, uint64_t>> alloc_points;  // op family -> (max allocations, faults injected)

    FaultSys(size_t init) : StrSys(init)
    {
        light = true;
        prop_tag = "c19";
        nm2 = vf::strf("allocation faults, s0 starts with %zu bytes", init);
    }
    const char *name() const { return nm2.c_str(); }
    size_t op_count() const { return ops.size() * (K_FAULTS + 1); }
    bool enabled(size_t id) const { return StrSys::enabled(id / (K_FAULTS + 1)); }
    std::string op_name(size_t id) const
    {
        size_t k = id % (K_FAULTS + 1);
        std::string b = StrSys::op_name(id / (K_FAULTS + 1));
        return k == K_FAULTS ? b : b + vf::strf(" [allocation #%zu fails]", k);
    }
    static std::string family(const std::string &opn)
    {
        // "s0 = s1" and "s1 = s0" are one operation; strip slot numbers and value sizes
        std::string o;
        for (size_t i = 0; i < opn.size(); ++i) {
            if (opn[i] == 's' && i + 1 < opn.size() && (opn[i + 1] == '0' || opn[i + 1] == '1') && (i == 0 || !isalnum((unsigned char)opn[i - 1]))) {
                o += "s";
                ++i;
            } else if (opn[i] == '[') {
                size_t e = opn.find(']', i);
                if (e == std::string::npos) break;
                if (opn.compare(i, 6, "[alloc") == 0) break;
                o += "[n]";
                i = e;
            } else
                o += opn[i];
        }
        while (!o.empty() && o.back() == ' ') o.pop_back();
        return o;
    }

    void apply(size_t id, bool checked, Fails &f)
    {
        size_t base = id / (K_FAULTS + 1), k = id % (K_FAULTS + 1);
        g_fault_k = k == K_FAULTS ? -1 : (long)k;
        g_fault_fired = false;
        g_lib_allocs = 0;
        StrSys::apply(base, checked, f);
        g_fault_k = -1;
        if (g_fault_fired) ++n_fired;
        if (k == K_FAULTS) {
            max_allocs_mutator = std::max(max_allocs_mutator, g_lib_allocs);
            if (checked) {
                auto &ap = alloc_points[family(StrSys::op_name(base))];
                ap.first = std::max(ap.first, g_lib_allocs);
                if (g_lib_allocs > K_FAULTS)
                    f.push_back(Fail{"c19:harness:fault-index-space-too-small",
                                     vf::strf("%s made %ld allocations but only %d fault indices are explored", StrSys::op_name(base).c_str(), g_lib_allocs, (int)K_FAULTS)});
            }
        } else if (checked && g_fault_fired)
            alloc_points[family(StrSys::op_name(base))].second++;
    }

    bool on_mutator_exception(const MOp &o, const vf::Outcome &oc, const Snap *before, const char *tag, const std::string &opn, Fails &f) override
    {
        (void)tag;
        std::string fam = family(opn);
        auto fail = [&](const std::string &what, const std::string &detail) {
            f.push_back(Fail{vf::strf("c19:%s:%s", fam.c_str(), what.c_str()), opn + vf::strf(" [allocation #%ld fails]: ", g_fault_k) + detail});
        };
        if (!g_fault_fired) return false;  // a genuine failure without an injected fault: let the base class report it
        if (oc.kind != vf::EX_BAD_ALLOC) fail(vf::strf("fault-surfaced-as-%s", vf::outkind_name(oc.kind)), oc.str());
        if (vf::events_total()) fail("heap-event", vf::g_alloc.first_event);
        for (int s = 0; s < 2; ++s) {
            if (!slots[s].alive) continue;
            std::string bad = validity(s);
            if (!bad.empty()) {
                fail(vf::strf("%s-left-invalid", s == o.i ? "target" : "other-string"), vf::strf("s%d: %s", s, bad.c_str()));
                continue;
            }
            if (s == o.i) {
                std::string now = content(s);
                if (now != model_before[s] && !now.empty())
                    fail("target-neither-previous-nor-empty",
                         vf::strf("s%d held %s and now holds %s", s, vf::vis(model_before[s]).c_str(), vf::vis(now).c_str()));
                model[s] = now;  // previous or empty: both allowed
            } else if (!same(before[s], s))
                fail("other-string-changed", vf::strf("s%d changed during the failed call", s));
        }
        if (f.empty() && vf::live_tracked() != owned_blocks())
            fail("leak-or-lost-block", vf::strf("%zu blocks live, %zu owned after the failed call", vf::live_tracked(), owned_blocks()));
        return true;
    }

    void on_new_state(Fails &f) override
    {
        static const S other_const = S::from_validated("ab", 2);
        for (int s = 0; s < 2; ++s) {
            if (!slots[s].alive) continue;
            const S &a = *slots[s].obj();
            const S &b = slots[1 - s].alive ? *slots[1 - s].obj() : other_const;
            Snap before[2] = {snap(0), snap(1)};
            // reference results of the whole battery before any fault is injected in this state: a failed call must not
            // influence what later calls return (state left behind in a static or thread-local table, a half-reset cache)
            std::vector<std::string> reference(g_ops.size());
            for (size_t oi = 0; oi < g_ops.size(); ++oi) {
                Held *h = nullptr;
                vf::Outcome oc = vf::guard([&] { h = g_ops[oi].make(a, b); });
                reference[oi] = oc.ok() && h ? "=" + h->bytes() : std::string("!") + vf::outkind_name(oc.kind);
                if (h) LIB(delete h);
            }
            size_t op_index = 0;
            for (auto &op : g_ops) {
                const size_t oi = op_index++;
                // std::basic_ostream catches exceptions raised while it grows its own buffer and turns them into badbit: those
                // allocations belong to the standard library, not to string_theory, so these two calls are not fault-injected
                if (op.name.find("ostringstream") != std::string::npos) continue;
                // pass 0: no fault, count the allocations; then one pass per allocation index
                long n = 0;
                for (long k = -1; k < n; ++k) {
                    hx::note_phase(vf::strf("reads:%s%s", op.name.c_str(), k < 0 ? "" : vf::strf(" [allocation #%ld fails]", k).c_str()).c_str());
                    vf::events_reset();
                    g_fault_k = k;
                    g_fault_fired = false;
                    g_lib_allocs = 0;
                    Held *h = nullptr;
                    vf::Outcome oc = vf::guard([&] { h = op.make(a, b); });
                    g_fault_k = -1;
                    if (k < 0) {
                        std::string now = oc.ok() && h ? "=" + h->bytes() : std::string("!") + vf::outkind_name(oc.kind);
                        if (now != reference[oi])
                            f.push_back(Fail{vf::strf("c19:%s:result-differs-after-earlier-failed-calls", op.name.c_str()),
                                             vf::strf("%s on s%d = %s returns something else than before the allocation faults injected into the "
                                                      "preceding operations of this state", op.name.c_str(), s, vf::vis(model[s]).c_str())});
                        n = g_lib_allocs;
                        max_allocs_const = std::max(max_allocs_const, n);
                        ++n_const_ops;
                        auto &ap = alloc_points[op.name];
                        ap.first = std::max(ap.first, n);
                        if (n > 64) n = 64;
                        // a call that fails anyway (e.g. a precision cutting a character: unicode_error) is not fault-injected: the only
                        // further allocation is std::runtime_error's message, which belongs to the standard library
                        if (!oc.ok()) n = 0;
                    } else if (g_fault_fired) {
                        ++n_const_faults;
                        alloc_points[op.name].second++;
                    }
                    auto fail = [&](const std::string &what, const std::string &detail) {
                        f.push_back(Fail{vf::strf("c19:%s:%s", op.name.c_str(), what.c_str()),
                                         vf::strf("%s on s%d = %s%s: %s", op.name.c_str(), s, vf::vis(model[s]).c_str(),
                                                  k < 0 ? "" : vf::strf(" [allocation #%ld fails]", k).c_str(), detail.c_str())});
                    };
                    if (h) LIB(delete h);
                    if (k >= 0 && g_fault_fired) {
                        if (oc.ok()) fail("fault-swallowed", "the call returned normally although one of its allocations failed");
                        else if (oc.kind != vf::EX_BAD_ALLOC) fail(vf::strf("fault-surfaced-as-%s", vf::outkind_name(oc.kind)), oc.str());
                    } else if (!oc.ok() && oc.kind != vf::EX_UNICODE)
                        fail(vf::outkind_name(oc.kind), oc.str());
                    if (vf::events_total()) fail("heap-event", vf::g_alloc.first_event);
                    for (int t = 0; t < 2; ++t)
                        if (!same(before[t], t)) fail("const-operation-changed-a-string", vf::strf("s%d changed", t));
                    if (vf::live_tracked() != owned_blocks())
                        fail("leak", vf::strf("%zu blocks live, %zu owned", vf::live_tracked(), owned_blocks()));
                    if (!f.empty()) return;
                }
            }
        }
        // the scalar-valued const members and functors (searching, comparing, hashing, parsing, iteration): none of them is
        // expected to allocate; if one does, that allocation is failed like any other
        for (int s = 0; s < 2; ++s) {
            if (!slots[s].alive) continue;
            const S &a = *slots[s].obj();
            const S &b = slots[1 - s].alive ? *slots[1 - s].obj() : other_const;
            long n = 0;
            for (long k = -1; k < n; ++k) {
                hx::note_phase(vf::strf("reads:scalar reads (find/compare/hash/hash_i/to_int/...)%s", k < 0 ? "" : vf::strf(" [allocation #%ld fails]", k).c_str()).c_str());
                vf::events_reset();
                g_fault_k = k;
                g_fault_fired = false;
                g_lib_allocs = 0;
                vf::Outcome oc = vf::guard([&] { LIB((void)scalar_reads(a, b)); });
                g_fault_k = -1;
                if (k < 0) n = std::min<long>(g_lib_allocs, 16);
                if (k >= 0 && g_fault_fired && oc.kind != vf::EX_BAD_ALLOC)
                    f.push_back(Fail{"c19:scalar-reads:fault-not-reported-as-bad_alloc", oc.str()});
                else if (k < 0 && !oc.ok())
                    f.push_back(Fail{vf::strf("c19:scalar-reads:%s", vf::outkind_name(oc.kind)), oc.str()});
                if (vf::live_tracked() != owned_blocks()) f.push_back(Fail{"c19:scalar-reads:leak", "blocks left behind by scalar reads"});
                if (!f.empty()) return;
            }
        }
        hx::note_phase("reads");
        if (sample_list.size() < 4 && nontrivial()) sample_list.push_back(vf::strf("s0=%s s1=%s", vf::vis(model[0]).c_str(), vf::vis(model[1]).c_str()));
    }
    void samples(std::vector<std::string> &out) const
    {
        out = sample_list;
        std::string s = "allocation points (operation: max allocations / faults injected):";
        for (auto &kv : alloc_points)
            if (kv.second.first) s += vf::strf(" %s: %ld/%llu;", kv.first.c_str(), kv.second.first, (unsigned long long)kv.second.second);
        out.push_back(s.substr(0, 6000));
    }
    void counters(std::map<std::string, uint64_t> &c) const
    {
        c["faults-fired-in-mutators"] += n_fired;
        c["faults-fired-in-const-operations"] += n_const_faults;
        c["const-operations-measured"] += n_const_ops;
        c["checked-transitions"] += n_checked;
        c["max-allocations-in-one-mutator"] = std::max<uint64_t>(c["max-allocations-in-one-mutator"], (uint64_t)max_allocs_mutator);
        c["max-allocations-in-one-const-operation"] = std::max<uint64_t>(c["max-allocations-in-one-const-operation"], (uint64_t)max_allocs_const);
    }
};

// ------------------------------------------------------------------------------------------------ standalone battery
// A scenario builds its own objects (outside LIB: not subject to faults), performs ONE library call under fault k and
// reports problems; it must leave nothing tracked alive when it returns.
// scenario set-up runs without a fault (only the one guarded call is subject to it)
#define SETUP(stmt)           \
    do {                      \
        long _k = g_fault_k;  \
        g_fault_k = -1;       \
        LIB(stmt);            \
        g_fault_k = _k;       \
    } while (0)
struct Scenario {
    std::string name;
    // returns a problem description or ""; `threw` tells whether the guarded call ended in an exception
    std::function<std::string(vf::Outcome &oc)> run;
};
static std::vector<Scenario> g_scn;

template <class T>
static std::string buf_problem(const ST::buffer<T> &b, const std::basic_string<T> &prev, const char *who)
{
    enum { LLT = ST::buffer<T>::local_length };
    const void *p = b.m_chars;
    if (b.m_size < (size_t)LLT) {
        if (p != (const void *)b.m_data) return vf::strf("%s: size %zu is in-object but data() points elsewhere", who, b.m_size);
    } else {
        const vf::Block *blk = vf::find_block(p);
        if (!blk) return vf::strf("%s: size %zu needs a heap block but data() is not one", who, b.m_size);
        if (!blk->live) return vf::strf("%s: data() points to a freed heap block", who);
        if (blk->ptr != p || blk->size < (b.m_size + 1) * sizeof(T)) return vf::strf("%s: heap block does not fit size %zu", who, b.m_size);
    }
    if (b.m_chars[b.m_size] != 0) return vf::strf("%s: no terminator", who);
    std::basic_string<T> now(b.m_chars, b.m_size);
    if (now != prev && !now.empty()) return vf::strf("%s: holds neither its previous value nor an empty one (size %zu)", who, now.size());
    return "";
}

template <class T>
static void buffer_scenarios(const char *tn)
{
    typedef ST::buffer<T> B;
    typedef std::basic_string<T> Str;
    enum { LLT = B::local_length };
    auto val = [](size_t n, unsigned w) {
        Str s(n, T());
        for (size_t i = 0; i < n; ++i) s[i] = (T)('a' + (i * 7 + w * 3 + n) % 26);
        return s;
    };
    for (size_t pre : {size_t(0), size_t(3), size_t(LLT), size_t(3 * LLT)})
        for (size_t n : {size_t(LLT - 1), size_t(LLT), size_t(4 * LLT)}) {
            std::string tag = vf::strf("buffer<%s>[%zu]", tn, pre);
            g_scn.push_back(Scenario{tag + vf::strf(".allocate(%zu)", n), [=](vf::Outcome &oc) {
                                         Str pv = val(pre, 0);
                                         B t;
                                         SETUP(t = B(pv.data(), pv.size()));
                                         bool armed = g_fault_k >= 0;
                                         (void)armed;
                                         oc = vf::guard([&] { LIB(t.allocate(n)); });
                                         std::string pr = oc.ok() ? "" : buf_problem(t, pv, "target");
                                         if (pr.empty()) oc.ok() ? (void)0 : (void)0;
                                         // usable afterwards: assign, read, destroy
                                         if (pr.empty()) {
                                             vf::Outcome o2 = vf::guard([&] { long k = g_fault_k; g_fault_k = -1; LIB(t = B(pv.data(), pv.size())); g_fault_k = k; });
                                             if (!o2.ok()) pr = "target could not be assigned to after the failure: " + o2.str();
                                         }
                                         LIB(t.~B(); new (&t) B());
                                         return pr;
                                     }});
            g_scn.push_back(Scenario{tag + vf::strf(".allocate(%zu,'z')", n), [=](vf::Outcome &oc) {
                                         Str pv = val(pre, 0);
                                         B t;
                                         SETUP(t = B(pv.data(), pv.size()));
                                         oc = vf::guard([&] { LIB(t.allocate(n, (T)'z')); });
                                         std::string pr = oc.ok() ? "" : buf_problem(t, pv, "target");
                                         LIB(t.~B(); new (&t) B());
                                         return pr;
                                     }});
            g_scn.push_back(Scenario{tag + vf::strf(" = buffer[%zu] (copy)", n), [=](vf::Outcome &oc) {
                                         Str pv = val(pre, 0), sv = val(n, 1);
                                         B t, src;
                                         SETUP(t = B(pv.data(), pv.size()); src = B(sv.data(), sv.size()));
                                         oc = vf::guard([&] { LIB(t = static_cast<const B &>(src)); });
                                         std::string pr = oc.ok() ? "" : buf_problem(t, pv, "target");
                                         if (pr.empty() && !oc.ok()) pr = buf_problem(src, sv, "source");
                                         if (pr.empty() && !oc.ok() && Str(src.data(), src.size()) != sv) pr = "source changed";
                                         LIB(t.~B(); new (&t) B(); src.~B(); new (&src) B());
                                         return pr;
                                     }});
        }
    for (size_t n : {size_t(LLT), size_t(4 * LLT)}) {
        g_scn.push_back(Scenario{vf::strf("new buffer<%s>(ptr,%zu)", tn, n), [=](vf::Outcome &oc) {
                                     Str sv = val(n, 1);
                                     oc = vf::guard([&] { LIB(B x(sv.data(), sv.size()); (void)x); });
                                     return std::string();
                                 }});
        g_scn.push_back(Scenario{vf::strf("new buffer<%s>(%zu,'f')", tn, n), [=](vf::Outcome &oc) {
                                     oc = vf::guard([&] { LIB(B x(n, (T)'f'); (void)x); });
                                     return std::string();
                                 }});
        g_scn.push_back(Scenario{vf::strf("new buffer<%s>(copy of [%zu])", tn, n), [=](vf::Outcome &oc) {
                                     Str sv = val(n, 1);
                                     B src;
                                     SETUP(src = B(sv.data(), sv.size()));
                                     oc = vf::guard([&] { LIB(B x(static_cast<const B &>(src)); (void)x); });
                                     std::string pr = oc.ok() ? "" : buf_problem(src, sv, "source");
                                     LIB(src.~B(); new (&src) B());
                                     return pr;
                                 }});
    }
}

static std::string stream_problem(const ST::string_stream &ss, const std::string &prev)
{
    if (ss.m_alloc == 0 || ss.m_size > ss.m_alloc) return "stream capacity/size fields inconsistent";
    if (ss.m_alloc > ST_STACK_STRING_SIZE) {
        const vf::Block *blk = vf::find_block(ss.m_chars);
        if (!blk || !blk->live || blk->ptr != (void *)ss.m_chars || blk->size < ss.m_alloc) return "stream does not own a live heap block of its capacity";
    } else if (ss.m_chars != ss.m_stack)
        return "stream with in-object capacity points elsewhere";
    std::string now(ss.raw_buffer(), ss.size());
    if (now != prev && !now.empty()) return vf::strf("stream holds neither its previous content nor nothing (size %zu, was %zu)", now.size(), prev.size());
    return "";
}

static void other_scenarios()
{
    // pre-state: grown to `pre` bytes, then cut back (0 none, 1 truncate(0), 2 truncate(10), 3 erase everything, 4 erase(pre-1))
    for (size_t pre : {size_t(0), size_t(200), size_t(256), size_t(300), size_t(1000)})
      for (int cut = 0; cut < 5; ++cut)
        for (size_t add : {size_t(57), size_t(300), size_t(5000)}) {
            g_scn.push_back(Scenario{vf::strf("string_stream[grown to %zu, cut mode %d].append(%zu bytes)", pre, cut, add), [=](vf::Outcome &oc) {
                                         std::string pv(pre, 'p'), av(add, 'a');
                                         ST::string_stream ss;
                                         SETUP(ss.append(pv.data(), pv.size()));
                                         if (cut == 1) { ss.truncate(0); pv.clear(); }
                                         if (cut == 2) { ss.truncate(10); pv.resize(std::min<size_t>(10, pv.size())); }
                                         if (cut == 3) { ss.erase(pre); pv.clear(); }
                                         if (cut == 4 && pre > 0) { ss.erase(pre - 1); pv.resize(1); }
                                         oc = vf::guard([&] { LIB(ss.append(av.data(), av.size())); });
                                         std::string pr = oc.ok() ? "" : stream_problem(ss, pv);
                                         if (pr.empty() && !oc.ok()) {
                                             vf::Outcome o2 = vf::guard([&] { long k = g_fault_k; g_fault_k = -1; LIB(ss.append("x", 1)); g_fault_k = k; });
                                             if (!o2.ok()) pr = "stream could not be appended to after the failure";
                                         }
                                         LIB(ss.~string_stream(); new (&ss) ST::string_stream());
                                         return pr;
                                     }});
        }
    for (size_t pre : {size_t(0), size_t(250), size_t(600)}) {
        g_scn.push_back(Scenario{vf::strf("string_stream[%zu] << std::wstring(40)", pre), [=](vf::Outcome &oc) {
                                     std::string pv(pre, 'p');
                                     std::wstring w(40, L'€');
                                     ST::string_stream ss;
                                     SETUP(ss.append(pv.data(), pv.size()));
                                     oc = vf::guard([&] { LIB(ss << w); });
                                     std::string pr = oc.ok() ? "" : stream_problem(ss, pv);
                                     LIB(ss.~string_stream(); new (&ss) ST::string_stream());
                                     return pr;
                                 }});
        g_scn.push_back(Scenario{vf::strf("string_stream[%zu].to_string()", pre), [=](vf::Outcome &oc) {
                                     std::string pv(pre, 'p');
                                     ST::string_stream ss;
                                     SETUP(ss.append(pv.data(), pv.size()));
                                     oc = vf::guard([&] { LIB(S x = ss.to_string(); (void)x); });
                                     std::string pr = stream_problem(ss, pv);
                                     if (pr.empty() && std::string(ss.raw_buffer(), ss.size()) != pv) pr = "stream content changed by to_string()";
                                     LIB(ss.~string_stream(); new (&ss) ST::string_stream());
                                     return pr;
                                 }});
    }
    static const std::string data40(40, '\x5A'), hex80 = std::string(80, 'a'), b64 = "QUJDREVGR0hJSktMTU5PUFFSU1RVVldYWVo=";
    static const std::string u8long = "h\xC3\xA9llo \xE2\x82\xAC \xF0\x9F\x98\x80 and a tail that is long enough for the heap";
#define SCN(NAME, STMT) g_scn.push_back(Scenario{NAME, [](vf::Outcome &oc) { oc = vf::guard([&] { LIB(STMT); }); return std::string(); }})
    SCN("hex_encode(40 bytes)", S x = ST::hex_encode(data40.data(), data40.size()); (void)x);
    SCN("hex_decode(80 digits)", ST::char_buffer x = ST::hex_decode(S::from_validated(hex80.data(), hex80.size())); (void)x);
    SCN("base64_encode(40 bytes)", S x = ST::base64_encode(data40.data(), data40.size()); (void)x);
    SCN("base64_decode(36 chars)", ST::char_buffer x = ST::base64_decode(S::from_validated(b64.data(), b64.size())); (void)x);
    SCN("hex_decode(80 digits, caller buffer)", char out[64]; if (ST::hex_decode(S::from_validated(hex80.data(), hex80.size()), out, sizeof out) != 40) throw std::runtime_error("wrong length"));
    SCN("hex_decode(80 digits, size query)", if (ST::hex_decode(S::from_validated(hex80.data(), hex80.size()), nullptr, 0) != 40) throw std::runtime_error("wrong length"));
    SCN("base64_decode(36 chars, caller buffer)", char out[64]; if (ST::base64_decode(S::from_validated(b64.data(), b64.size()), out, sizeof out) != 26) throw std::runtime_error("wrong length"));
    SCN("base64_decode(36 chars, size query)", if (ST::base64_decode(S::from_validated(b64.data(), b64.size()), nullptr, 0) != 26) throw std::runtime_error("wrong length"));
    SCN("hex_encode(char_buffer of 40)", S x = ST::hex_encode(ST::char_buffer(data40.data(), data40.size())); (void)x);
    SCN("base64_encode(char_buffer of 40)", S x = ST::base64_encode(ST::char_buffer(data40.data(), data40.size())); (void)x);
    SCN("utf8_to_utf16(long)", auto x = ST::utf8_to_utf16(u8long.data(), u8long.size()); (void)x);
    SCN("utf8_to_utf32(long)", auto x = ST::utf8_to_utf32(u8long.data(), u8long.size()); (void)x);
    SCN("utf8_to_wchar(long)", auto x = ST::utf8_to_wchar(u8long.data(), u8long.size()); (void)x);
    SCN("utf8_to_latin_1(long)", auto x = ST::utf8_to_latin_1(u8long.data(), u8long.size()); (void)x);
    SCN("latin_1_to_utf8(long)", auto x = ST::latin_1_to_utf8(u8long.data(), u8long.size()); (void)x);
    SCN("latin_1_to_utf16(long)", auto x = ST::latin_1_to_utf16(u8long.data(), u8long.size()); (void)x);
    SCN("latin_1_to_utf32(long)", auto x = ST::latin_1_to_utf32(u8long.data(), u8long.size()); (void)x);
    SCN("utf16 round trip (long)", auto x = ST::utf16_to_utf8(ST::utf8_to_utf16(u8long.data(), u8long.size())); (void)x);
    SCN("utf32 round trip (long)", auto x = ST::utf32_to_utf8(ST::utf8_to_utf32(u8long.data(), u8long.size())); (void)x);
    SCN("utf16 -> utf32 -> utf16 (long)", auto x = ST::utf32_to_utf16(ST::utf16_to_utf32(ST::utf8_to_utf16(u8long.data(), u8long.size()))); (void)x);
    SCN("S(const char*, long)", S x(u8long.c_str()); (void)x);
    SCN("S(const char*, long, substitute_invalid)", S x(u8long.data(), u8long.size(), ST::substitute_invalid); (void)x);
    SCN("S::from_latin_1(long)", S x = S::from_latin_1(u8long.data(), u8long.size()); (void)x);
    SCN("S::from_int(LLONG_MIN, 2)", S x = S::from_int(LLONG_MIN, 2); (void)x);
    SCN("S::from_double(1e300,'f')", S x = S::from_double(1e300, 'f'); (void)x);
    SCN("S::fill(60,'x')", S x = S::fill(60, 'x'); (void)x);
    SCN("format({} {} {}, long, 42, 1e100 fixed)", S x = ST::format("{} {} {f}", u8long.c_str(), 42, 1e100); (void)x);
    SCN("format({>300}, 7)", S x = ST::format("{>300}", 7); (void)x);
    SCN("format_latin_1({}, long)", S x = ST::format_latin_1("{}", "a tail that is long enough for the heap \xE9"); (void)x);
    // long floating-point renderings (>= 64 characters take the formatter's heap fallback) while the output stream grows
    SCN("format({.300f}, 1.5)", S x = ST::format("{.300f}", 1.5); (void)x);
    SCN("format({.70f}{>250}, 1.5, 7)", S x = ST::format("{.70f}{>250}", 1.5, 7); (void)x);
    SCN("format({>250}{.100e}, 7, 1.0)", S x = ST::format("{>250}{.100e}", 7, 1.0); (void)x);
    SCN("format({f}{f}, 1e100, 1e200)", S x = ST::format("{f}{f}", 1e100, 1e200); (void)x);
    SCN("format({}{.90f}, long, 2.5f)", S x = ST::format("{}{.90f}", u8long.c_str(), 2.5f); (void)x);
    SCN("format_latin_1({.300f}, 1.5)", S x = ST::format_latin_1("{.300f}", 1.5); (void)x);
    SCN("format({}{}{}, wide, u16, u32 text)", S x = ST::format("{}{}{}", L"wide text that is long enough", u"utf-16 text that is long enough", U"utf-32 text that is long enough"); (void)x);
    SCN("format({x}{o}{b}, big numbers)", S x = ST::format("{>100x}{>100o}{>100b}", 0xFFFFFFFFFFFFFFFFull, -1LL, 12345); (void)x);
    SCN("(stream << 1e300 << -1 << text).to_string()", ST::string_stream ss; ss.append_char('p', 250); ss << 1e300 << -1LL << u8long.c_str(); S x = ss.to_string(); (void)x);
    // assignment-like calls under substitute_invalid with input that really needs repair: the repair allocates after the
    // raw bytes have been received; the target must keep its previous value (or be empty), never the unrepaired bytes
    for (size_t tpre : {size_t(8), size_t(40)})
        for (int in = 0; in < 3; ++in)
            for (int how = 0; how < 7; ++how) {
                static const char *HOW[7] = {"t.set(cstr)", "t.set(ptr,n)", "t.set(char_buffer&&)", "t.set(std::string)", "t.set(string_view)", "t = S(ptr,n,subst)", "t = S::from_utf8"};
                static const char *INN[3] = {"14 bytes, one bad", "41 bytes, one bad", "16 bytes, bad lead at the end"};
                g_scn.push_back(Scenario{vf::strf("string[%zu].%s under substitute_invalid with %s", tpre, HOW[how], INN[in]), [=](vf::Outcome &oc) {
                                             std::string prev(tpre, 'v');
                                             std::string bad = in == 0 ? std::string("abcdefghijklm\xFF") : in == 1 ? std::string(20, 'a') + "\xFF" + std::string(20, 'b') : std::string(15, 'q') + "\xE2";
                                             S t;
                                             SETUP(t = S::from_validated(prev.data(), prev.size()));
                                             oc = vf::guard([&] {
                                                 switch (how) {
                                                 case 0: LIB(t.set(bad.c_str(), ST_AUTO_SIZE, ST::substitute_invalid)); break;
                                                 case 1: LIB(t.set(bad.data(), bad.size(), ST::substitute_invalid)); break;
                                                 case 2: LIB(ST::char_buffer cb(bad.data(), bad.size()); t.set(std::move(cb), ST::substitute_invalid)); break;
                                                 case 3: LIB(t.set(bad, ST::substitute_invalid)); break;
                                                 case 4: LIB(t.set(std::string_view(bad), ST::substitute_invalid)); break;
                                                 case 5: LIB(t = S(bad.data(), bad.size(), ST::substitute_invalid)); break;
                                                 default: LIB(t = S::from_utf8(bad.data(), bad.size(), ST::substitute_invalid)); break;
                                                 }
                                             });
                                             std::string pr = oc.ok() ? "" : buf_problem<char>(t.m_buffer, prev, "target");
                                             if (pr.empty() && oc.ok() && std::string(t.c_str(), t.size()).find('\xFF') != std::string::npos) pr = "result still holds the invalid byte";
                                             LIB(t.~S(); new (&t) S());
                                             return pr;
                                         }});
            }
    // the same with long input (the repair works in internal scratch storage that changes with the size: 85 / 86 bytes for
    // three-fold growth past a 256-byte stack area, 300, 1,100) and through the other entry points that repair
    for (int in = 0; in < 6; ++in)
        for (int how = 0; how < 9; ++how) {
            static const char *HOW[9] = {"t.set(ptr,n)", "t.set(char_buffer&&)", "t.set(std::string)", "t = S(ptr,n,subst)", "t = S::from_utf8", "stream.to_string(true, subst)",
                                         "t = format(subst, {}, text)", "t = S(char8_t ptr,n,subst)", "t.set(const char_buffer&)"};
            static const char *INN[6] = {"85 bytes, bad first", "86 bytes, bad first", "86 bytes, bad last", "300 bytes, bad in the middle", "1100 bytes, bad lead at the end", "90 bytes, all bad"};
            g_scn.push_back(Scenario{vf::strf("%s under substitute_invalid with %s", HOW[how], INN[in]), [=](vf::Outcome &oc) {
                                         std::string prev(40, 'v');
                                         std::string bad = in == 0   ? "\xFF" + std::string(84, 'a')
                                                           : in == 1 ? "\xFF" + std::string(85, 'a')
                                                           : in == 2 ? std::string(85, 'a') + "\xC3"
                                                           : in == 3 ? std::string(150, 'a') + "\x80" + std::string(149, 'b')
                                                           : in == 4 ? std::string(1099, 'q') + "\xE2"
                                                                     : std::string(90, '\xFE');
                                         S t;
                                         SETUP(t = S::from_validated(prev.data(), prev.size()));
                                         ST::string_stream ss;
                                         if (how == 5) SETUP(ss.append(bad.data(), bad.size()));
                                         oc = vf::guard([&] {
                                             switch (how) {
                                             case 0: LIB(t.set(bad.data(), bad.size(), ST::substitute_invalid)); break;
                                             case 1: LIB(ST::char_buffer cb(bad.data(), bad.size()); t.set(std::move(cb), ST::substitute_invalid)); break;
                                             case 2: LIB(t.set(bad, ST::substitute_invalid)); break;
                                             case 3: LIB(t = S(bad.data(), bad.size(), ST::substitute_invalid)); break;
                                             case 4: LIB(t = S::from_utf8(bad.data(), bad.size(), ST::substitute_invalid)); break;
                                             case 5: LIB(t = ss.to_string(true, ST::substitute_invalid)); break;
                                             case 6: LIB(t = ST::format(ST::substitute_invalid, "{}", bad.c_str())); break;
                                             case 7: LIB(t = S((const char8_t *)bad.data(), bad.size(), ST::substitute_invalid)); break;
                                             default: LIB(const ST::char_buffer cb(bad.data(), bad.size()); t.set(cb, ST::substitute_invalid)); break;
                                             }
                                         });
                                         std::string pr = oc.ok() ? "" : buf_problem<char>(t.m_buffer, prev, "target");
                                         if (pr.empty() && oc.ok()) {
                                             std::string got(t.c_str(), t.size());
                                             if (got.find('\xFF') != std::string::npos || got.find('\xFE') != std::string::npos || got.find("\xEF\xBF\xBD") == std::string::npos)
                                                 pr = "result is not the repaired text";
                                         }
                                         if (pr.empty() && how == 5 && std::string(ss.raw_buffer(), ss.size()) != bad) pr = "stream content changed by to_string()";
                                         LIB(ss.~string_stream(); new (&ss) ST::string_stream());
                                         LIB(t.~S(); new (&t) S());
                                         return pr;
                                     }});
        }
    // output to a std::basic_ostream whose buffer is a fixed array: the stream machinery allocates nothing, so every allocation
    // inside the call is the library's own (conversion buffers, the formatter's copy of its arguments) and its failure has to
    // come out of the call as std::bad_alloc - not as a stream state, not as a shorter output
    {
        struct Nar : std::streambuf {
            char area[8192];
            Nar() { setp(area, area + sizeof area); }
        };
        struct Wid : std::wstreambuf {
            wchar_t area[8192];
            Wid() { setp(area, area + 8192); }
        };
        for (int what = 0; what < 8; ++what) {
            static const char *WN[8] = {"writef(wostream, 20-char literal + 30-char text + number)", "writef(wostream, {>40} pad + UTF-8 text)", "wostream << S(long)",
                                        "writef(ostream, literal + text + 1e100 fixed)", "ostream << S(long)", "writef(wostream, {} of wide / u16 / u32 text)",
                                        "writef(ostream, {.80f}{>300})", "writef(wostream, twelve chars)"};
            g_scn.push_back(Scenario{vf::strf("fixed-array streambuf: %s", WN[what]), [=](vf::Outcome &oc) {
                                         static Nar nb;
                                         static Wid wb;
                                         static std::ostream nos(&nb);
                                         static std::wostream wos(&wb);
                                         nb.pubseekpos(0);
                                         nos.clear();
                                         wos.clear();
                                         new (&nb) Nar();
                                         new (&wb) Wid();
                                         bool bad = false;
                                         oc = vf::guard([&] {
                                             switch (what) {
                                             case 0: LIB(ST::writef(wos, "a literal of 20 chars {} and {}", "an argument text of thirty chars", 42)); break;
                                             case 1: LIB(ST::writef(wos, "{>40}|{}", 7, "caf\xC3\xA9 \xE2\x82\xAC and a tail of some length")); break;
                                             case 2: LIB(wos << S::from_validated(u8long.data(), u8long.size())); break;
                                             case 3: LIB(ST::writef(nos, "a literal of 20 chars {} and {f}", "an argument text of thirty chars", 1e100)); break;
                                             case 4: LIB(nos << S::from_validated(u8long.data(), u8long.size())); break;
                                             case 5: LIB(ST::writef(wos, "{}{}{}", L"wide text that is long enough", u"utf-16 text that is long enough", U"utf-32 text that is long enough")); break;
                                             case 6: LIB(ST::writef(nos, "{.80f}{>300}", 1.5, 7)); break;
                                             default: LIB(ST::writef(wos, "twelve chars")); break;
                                             }
                                             bad = nos.bad() || wos.bad() || nos.fail() || wos.fail();
                                         });
                                         if (oc.ok() && bad) return std::string("the stream reports failure although nothing but a library allocation could fail");
                                         return std::string();
                                     }});
        }
    }
    // a new-handler that releases memory by clearing the very object whose operation is allocating (a cache-dropping handler): the
    // first attempt of the allocation fails, the handler runs, the retry succeeds - the object must end up with the operation's result
    // and own its storage alone
    {
        static ST::char_buffer *victim_b = nullptr;
        static S *victim_s = nullptr;
        for (int what = 0; what < 6; ++what) {
            static const char *WN[6] = {"buffer[40].allocate(40, 'b')", "buffer[40].allocate(100, 'b')", "buffer[40] = buffer[36] (copy)", "buffer[40].allocate(40) then fill",
                                        "string[40].set(40-byte text)", "string[40] = string[60] (copy)"};
            g_scn.push_back(Scenario{vf::strf("new-handler clears the target: %s", WN[what]), [=](vf::Outcome &oc) {
                                         ST::char_buffer b, src, other;
                                         S t, u;
                                         std::string want;
                                         SETUP(b.allocate(40, 'a'); src.allocate(36, 'x'); t = S::fill(40, 'a'); u = S::fill(60, 'u'));
                                         victim_b = &b;
                                         victim_s = &t;
                                         std::set_new_handler([] {
                                             std::set_new_handler(nullptr);
                                             vf::OpScope sc;
                                             victim_b->clear();
                                             victim_s->clear();
                                         });
                                         oc = vf::guard([&] {
                                             switch (what) {
                                             case 0: LIB(b.allocate(40, 'b')); want = std::string(40, 'b'); break;
                                             case 1: LIB(b.allocate(100, 'b')); want = std::string(100, 'b'); break;
                                             case 2: LIB(b = src); want = std::string(36, 'x'); break;
                                             case 3: LIB(b.allocate(40)); memset(b.data(), 'c', 40); want = std::string(40, 'c'); break;
                                             case 4: LIB(t.set(std::string(40, 'n').c_str())); want = std::string(40, 'n'); break;
                                             default: LIB(t = u); want = std::string(60, 'u'); break;
                                             }
                                         });
                                         std::set_new_handler(nullptr);
                                         std::string pr;
                                         if (oc.ok()) {
                                             // something else of the same size class is allocated next: it must not receive storage the target still uses
                                             SETUP(other.allocate(want.size(), 'z'));
                                             const ST::char_buffer &tb = what < 4 ? b : t.m_buffer;
                                             if (tb.size() != want.size() || std::string(tb.data(), tb.size()) != want || tb.data()[tb.size()] != 0) pr = "the target does not hold the operation's result";
                                             else if (tb.data() == other.data()) pr = "the target shares its storage with a buffer allocated afterwards";
                                         }
                                         LIB(b.~buffer(); new (&b) ST::char_buffer(); src.~buffer(); new (&src) ST::char_buffer(); other.~buffer(); new (&other) ST::char_buffer();
                                             t.~S(); new (&t) S(); u.~S(); new (&u) S());
                                         return pr;
                                     }});
        }
    }
    // appending a stream's own content (source inside the buffer that has to grow), stack- and heap-backed
    for (size_t pre : {size_t(200), size_t(300), size_t(600)})
        for (int how = 0; how < 3; ++how) {
            static const char *HN[3] = {"append(own raw_buffer(), size())", "append(own raw_buffer() + 10, size() - 10)", "<< own raw_buffer() [C string]"};
            g_scn.push_back(Scenario{vf::strf("string_stream[%zu].%s", pre, HN[how]), [=](vf::Outcome &oc) {
                                         std::string pv(pre, 'p');
                                         for (size_t k = 0; k < pre; ++k) pv[k] = (char)('a' + k % 23);
                                         ST::string_stream ss;
                                         SETUP(ss.append(pv.data(), pv.size()));
                                         oc = vf::guard([&] {
                                             if (how == 0) LIB(ss.append(ss.raw_buffer(), ss.size()));
                                             else if (how == 1) LIB(ss.append(ss.raw_buffer() + 10, ss.size() - 10));
                                             else LIB(ss.append(ss.raw_buffer(), pre));
                                         });
                                         std::string pr;
                                         if (!oc.ok()) pr = stream_problem(ss, pv);
                                         else if (std::string(ss.raw_buffer(), ss.size()) != pv + (how == 1 ? pv.substr(10) : pv)) pr = "wrong content after appending the stream to itself";
                                         LIB(ss.~string_stream(); new (&ss) ST::string_stream());
                                         return pr;
                                     }});
        }
    // streams that throw on badbit (exceptions mask): a library allocation that fails during an insertion still comes out as
    // std::bad_alloc - the stream's own reporting must not replace it
    {
        struct NarX : std::streambuf {
            char area[4096];
            NarX() { setp(area, area + sizeof area); }
        };
        struct WidX : std::wstreambuf {
            wchar_t area[4096];
            WidX() { setp(area, area + 4096); }
        };
        for (int what = 0; what < 4; ++what) {
            static const char *WN[4] = {"ostream << S(long)", "wostream << S(long)", "writef(ostream, {}{>300}, text, 7)", "writef(wostream, {} {}, long text, 1.5)"};
            g_scn.push_back(Scenario{vf::strf("fixed-array streambuf, exceptions(badbit | failbit): %s", WN[what]), [=](vf::Outcome &oc) {
                                         static NarX nb;
                                         static WidX wb;
                                         static std::ostream nos(&nb);
                                         static std::wostream wos(&wb);
                                         new (&nb) NarX();
                                         new (&wb) WidX();
                                         nos.exceptions(std::ios_base::goodbit);
                                         wos.exceptions(std::ios_base::goodbit);
                                         nos.clear();
                                         wos.clear();
                                         nos.exceptions(std::ios_base::badbit | std::ios_base::failbit);
                                         wos.exceptions(std::ios_base::badbit | std::ios_base::failbit);
                                         oc = vf::guard([&] {
                                             switch (what) {
                                             case 0: LIB(nos << S::from_validated(u8long.data(), u8long.size())); break;
                                             case 1: LIB(wos << S::from_validated(u8long.data(), u8long.size())); break;
                                             case 2: LIB(ST::writef(nos, "{}{>300}", u8long.c_str(), 7)); break;
                                             default: LIB(ST::writef(wos, "{} {}", u8long.c_str(), 1.5)); break;
                                             }
                                         });
                                         return std::string();
                                     }});
        }
    }
    // insertion of wide / UTF-16 / UTF-32 text of 2-, 3- and 4-byte characters at every fill level below a capacity boundary: the
    // room needed is the UTF-8 size, not the number of units; a failing growth leaves the stream as it was
    for (size_t fill = 256 - 22; fill <= 256; ++fill)
        for (int what = 0; what < 6; ++what) {
            static const char *WN[6] = {"<< U\"5 x e-acute\"", "<< u\"5 x euro\"", "<< L\"4 x U+1F600\"", "<< std::u32string(7 x e-acute)", "<< std::u16string_view(3 x U+1F600)", "<< std::wstring(6 x euro)"};
            g_scn.push_back(Scenario{vf::strf("string_stream[%zu] %s", fill, WN[what]), [=](vf::Outcome &oc) {
                                         std::string pv(fill, 'p');
                                         ST::string_stream ss;
                                         SETUP(ss.append(pv.data(), pv.size()));
                                         std::string add;
                                         oc = vf::guard([&] {
                                             switch (what) {
                                             case 0: add = "\xC3\xA9\xC3\xA9\xC3\xA9\xC3\xA9\xC3\xA9"; LIB(ss << U"\u00e9\u00e9\u00e9\u00e9\u00e9"); break;
                                             case 1: add = "\xE2\x82\xAC\xE2\x82\xAC\xE2\x82\xAC\xE2\x82\xAC\xE2\x82\xAC"; LIB(ss << u"\u20ac\u20ac\u20ac\u20ac\u20ac"); break;
                                             case 2: add = "\xF0\x9F\x98\x80\xF0\x9F\x98\x80\xF0\x9F\x98\x80\xF0\x9F\x98\x80"; LIB(ss << L"\U0001F600\U0001F600\U0001F600\U0001F600"); break;
                                             case 3: add = "\xC3\xA9\xC3\xA9\xC3\xA9\xC3\xA9\xC3\xA9\xC3\xA9\xC3\xA9"; LIB(ss << std::u32string(7, U'\u00e9')); break;
                                             case 4: add = "\xF0\x9F\x98\x80\xF0\x9F\x98\x80\xF0\x9F\x98\x80"; LIB(ss << std::u16string_view(u"\U0001F600\U0001F600\U0001F600")); break;
                                             default: add = "\xE2\x82\xAC\xE2\x82\xAC\xE2\x82\xAC\xE2\x82\xAC\xE2\x82\xAC\xE2\x82\xAC"; LIB(ss << std::wstring(6, L'\u20ac')); break;
                                             }
                                         });
                                         std::string pr;
                                         if (!oc.ok()) pr = stream_problem(ss, pv);
                                         else if (std::string(ss.raw_buffer(), ss.size()) != pv + add) pr = "wrong content after the insertion";
                                         LIB(ss.~string_stream(); new (&ss) ST::string_stream());
                                         return pr;
                                     }});
        }
    // printf / writef with arguments that allocate: after the failure the FILE is not left locked and the stream's formatting state
    // is as before
    for (int what = 0; what < 3; ++what) {
        static const char *WN[3] = {"printf(FILE*, {} {}, long ST::string, long std::string)", "printf(FILE*, {}, wide text)", "printf(FILE*, {>300}{}, 7, long ST::string)"};
        g_scn.push_back(Scenario{WN[what], [=](vf::Outcome &oc) {
                                     FILE *f = tmpfile();
                                     if (!f) return std::string();
                                     S a;
                                     SETUP(a = S::from_validated(u8long.data(), u8long.size()));
                                     oc = vf::guard([&] {
                                         if (what == 0) LIB(ST::printf(f, "{} {}\n", a, std::string(40, 's')));
                                         else if (what == 1) LIB(ST::printf(f, "{}\n", L"wide text that is long enough for the heap \u20ac"));
                                         else LIB(ST::printf(f, "{>300}{}\n", 7, a));
                                     });
                                     bool free_for_others = false;
                                     {
                                         vf::Bypass bp;
                                         std::thread th([&] {
                                             if (ftrylockfile(f) == 0) {
                                                 free_for_others = true;
                                                 funlockfile(f);
                                             }
                                         });
                                         th.join();
                                     }
                                     fclose(f);
                                     LIB(a.~S(); new (&a) S());
                                     return free_for_others ? std::string() : std::string("the FILE is left locked: no other thread can use it");
                                 }});
    }
    // stream insertion with the stream at every fill level just below a capacity boundary (sign / first piece fits, the rest
    // needs the growth that fails)
    for (size_t cap : {size_t(256), size_t(512)})
        for (size_t fill = cap - 14; fill <= cap; ++fill)
            for (int what = 0; what < 5; ++what) {
                static const char *WN[5] = {"<< -12345", "<< -123456789012LL", "<< 1.5e300", "<< \"sixteen chars....\"", "<< 4000000000u"};
                g_scn.push_back(Scenario{vf::strf("string_stream[%zu] %s", fill, WN[what]), [=](vf::Outcome &oc) {
                                             std::string pv(fill, 'p');
                                             ST::string_stream ss;
                                             SETUP(ss.append(pv.data(), pv.size()));
                                             oc = vf::guard([&] {
                                                 switch (what) {
                                                 case 0: LIB(ss << -12345); break;
                                                 case 1: LIB(ss << -123456789012LL); break;
                                                 case 2: LIB(ss << 1.5e300); break;
                                                 case 3: LIB(ss << "sixteen chars...."); break;
                                                 default: LIB(ss << 4000000000u); break;
                                                 }
                                             });
                                             std::string pr;
                                             if (!oc.ok()) {
                                                 pr = stream_problem(ss, pv);
                                                 // a partly appended piece (e.g. a lone sign) is neither the previous content nor nothing
                                             }
                                             LIB(ss.~string_stream(); new (&ss) ST::string_stream());
                                             return pr;
                                         }});
            }
    // extraction of a token long enough for the string's own heap storage: the library's allocation failing must not be
    // turned into a mere stream state
    for (int wide = 0; wide < 2; ++wide)
        g_scn.push_back(Scenario{wide ? "wistringstream >> S (24-unit token)" : "istringstream >> S (24-byte token)", [=](vf::Outcome &oc) {
                                     S x;
                                     bool bad = false;
                                     oc = vf::guard([&] {
                                         if (wide) {
                                             std::wistringstream is(L"0123456789abcdefghijklmn rest");
                                             LIB(is >> x);
                                             bad = is.bad();
                                         } else {
                                             std::istringstream is("0123456789abcdefghijklmn rest");
                                             LIB(is >> x);
                                             bad = is.bad();
                                         }
                                     });
                                     // allocations made by the std::basic_istream machinery itself end up as badbit (standard behaviour)
                                     if (oc.ok() && bad) oc.kind = vf::EX_BAD_ALLOC;
                                     LIB(x.~S(); new (&x) S());
                                     return std::string();
                                 }});
    // a std::basic_ostream turns an exception raised while it grows its own buffer into badbit: count that as "reported"
    g_scn.push_back(Scenario{"std::ostringstream << S(long)", [](vf::Outcome &oc) {
                                 bool bad = false;
                                 oc = vf::guard([&] { LIB(std::ostringstream os; os << S::from_validated(u8long.data(), u8long.size()); bad = os.bad()); });
                                 if (oc.ok() && bad) oc.kind = vf::EX_BAD_ALLOC;
                                 return std::string();
                             }});
    g_scn.push_back(Scenario{"std::wostringstream << S(long)", [](vf::Outcome &oc) {
                                 bool bad = false;
                                 oc = vf::guard([&] { LIB(std::wostringstream os; os << S::from_validated(u8long.data(), u8long.size()); bad = os.bad()); });
                                 if (oc.ok() && bad) oc.kind = vf::EX_BAD_ALLOC;
                                 return std::string();
                             }});
    SCN("istringstream >> S", std::istringstream is(u8long); S x; is >> x);
#undef SCN
}

struct StandaloneSys {
    std::vector<std::string> sample_list;
    uint64_t n_faults = 0, n_runs = 0;
    std::map<std::string, std::pair<long, uint64_t>> alloc_points;
    StandaloneSys() { vf::tracking_begin(); }
    const char *name() const { return "standalone: buffers, streams, codecs, free conversions, format"; }
    size_t op_count() const { return 0; }
    bool enabled(size_t) const { return false; }
    std::string op_name(size_t) const { return ""; }
    void reset()
    {
        vf::tracking_reset();
        vf::events_reset();
    }
    void apply(size_t, bool, Fails &) {}
    std::string key() const { return "standalone"; }
    bool nontrivial() const { return true; }
    void on_new_state(Fails &f)
    {
        for (auto &sc : g_scn) {
            long n = 0;
            for (long k = -1; k < n; ++k) {
                hx::note_phase(vf::strf("reads:%s%s", sc.name.c_str(), k < 0 ? "" : vf::strf(" [allocation #%ld fails]", k).c_str()).c_str());
                vf::tracking_reset();
                vf::events_reset();
                g_fault_k = k;
                g_fault_fired = false;
                g_lib_allocs = 0;
                vf::Outcome oc;
                std::string pr = sc.run(oc);
                g_fault_k = -1;
                ++n_runs;
                auto fail = [&](const std::string &what, const std::string &detail) {
                    f.push_back(Fail{vf::strf("c19:%s:%s", sc.name.c_str(), what.c_str()),
                                     vf::strf("%s%s: %s", sc.name.c_str(), k < 0 ? "" : vf::strf(" [allocation #%ld fails]", k).c_str(), detail.c_str())});
                };
                if (k < 0) {
                    n = std::min<long>(g_lib_allocs, 64);
                    alloc_points[sc.name].first = n;
                    if (!oc.ok()) fail(vf::outkind_name(oc.kind), "the scenario fails even without a fault: " + oc.str());
                } else if (g_fault_fired) {
                    ++n_faults;
                    alloc_points[sc.name].second++;
                    if (oc.ok() && sc.name.compare(0, 11, "new-handler") == 0) {
                        // the handler made room and the retry succeeded: success is the expected outcome
                    } else if (oc.ok()) fail("fault-swallowed", "the call returned normally although one of its allocations failed");
                    else if (oc.kind != vf::EX_BAD_ALLOC) fail(vf::strf("fault-surfaced-as-%s", vf::outkind_name(oc.kind)), oc.str());
                }
                if (!pr.empty()) fail("object-left-broken", pr);
                if (vf::events_total()) fail("heap-event", vf::g_alloc.first_event);
                if (vf::live_tracked() != 0) fail("leak", vf::strf("%zu blocks still live after everything was destroyed", vf::live_tracked()));
            }
        }
        hx::note_phase("reads");
    }
    void samples(std::vector<std::string> &out) const
    {
        std::string s = "allocation points (scenario: allocations / faults injected):";
        for (auto &kv : alloc_points) s += vf::strf(" %s: %ld/%llu;", kv.first.c_str(), kv.second.first, (unsigned long long)kv.second.second);
        out.push_back(s.substr(0, 8000));
    }
    void counters(std::map<std::string, uint64_t> &c) const
    {
        c["standalone-faults-fired"] += n_faults;
        c["standalone-runs"] += n_runs;
    }
};

static void build(std::vector<hx::Job> &jobs, const vf::Opts &o, std::string &rule, std::vector<std::string> &assumptions)
{
    build_const_ops();
    buffer_scenarios<char>("char");
    buffer_scenarios<char32_t>("char32_t");
    buffer_scenarios<char16_t>("char16_t");
    buffer_scenarios<wchar_t>("wchar_t");
    other_scenarios();
    rule = "states = canonical concrete states of two ST::string objects, including every post-fault state; a transition is a mutator "
           "with or without one failing allocation; non-trivial = both strings alive and at least one heap-backed";
    assumptions = {vf::strf("single faults only: exactly one allocation fails per call; indices 0..%d are explored for mutators (the largest number "
                            "of allocations any mutator makes is measured and must not exceed it) and every index for const operations",
                            K_FAULTS - 1),
                   "allocations are those made through operator new / new[] by library code while the call executes (tracking allocator)",
                   "a fault inside a noexcept function terminates the process; that is reported as a crash attributed to the call",
                   "the target of a failed mutator may hold its previous value or be empty (the property allows both)"};
    hx::Limits lim;
    lim.max_depth = o.thorough() ? 4 : 3;
    for (size_t n : SIZES) jobs.push_back(hx::make_job<FaultSys>([n]() { return new FaultSys(n); }, lim));
    hx::Limits l1;
    l1.max_depth = 0;
    jobs.push_back(hx::make_job<StandaloneSys>([]() { return new StandaloneSys(); }, l1));
}

int main(int argc, char **argv) { return hx::main_driver(argc, argv, "C19", build); }
