// C12 - integer -> text -> integer is exact for every value, width and base; parsing arbitrary
// text equals the strtol family; no undefined behaviour (the harness is built with UBSan).
//
// Deciding step: complete enumeration of
//   * all 65,536 short and unsigned short values x all 35 bases x both letter cases,
//   * for int/long/long long and the unsigned counterparts a structured boundary set
//     (see wide_set) x all 35 bases x both cases,
//   * all 256 signed char / unsigned char values through ST::format,
//   * the most negative / extreme values of every signed type through every printer, each call
//     in its own forked child so that a UBSan report is tied to the call that caused it,
//   * the canonical texts of the structured values (and of values just outside every 64-bit type), plain and
//     decorated, and every byte string over an 18-symbol parse alphabet up to length L, x bases x all 20
//     to_* integer overloads against the libc function of the same family.
#define VF_MAIN_TU
#include "early.h"
#include "verif.h"
#include "alloc.h"
#include "ref_num.h"
#include "st_format.h"
#include "early_battery.h"
#include <climits>
#include <memory>
#include <type_traits>

using vf::Ctx;
using vf::strf;

// ---------------------------------------------------------------- type table
template <class T>
struct TI;
#define TI_DEF(T, NM)                          \
    template <>                                \
    struct TI<T> {                             \
        static const char *name() { return NM; } \
    };
TI_DEF(signed char, "signed char")
TI_DEF(unsigned char, "unsigned char")
TI_DEF(short, "short")
TI_DEF(unsigned short, "unsigned short")
TI_DEF(int, "int")
TI_DEF(unsigned int, "unsigned int")
TI_DEF(long, "long")
TI_DEF(unsigned long, "unsigned long")
TI_DEF(long long, "long long")
TI_DEF(unsigned long long, "unsigned long long")

template <class T>
static ST::string lib_from(T v, int base, bool upper)
{
    if constexpr (std::is_signed<T>::value) return ST::string::from_int(v, base, upper);
    else return ST::string::from_uint(v, base, upper);
}

static const char *base_class(int base)
{
    switch (base) {
    case 2: return "base2";
    case 8: return "base8";
    case 10: return "base10";
    case 16: return "base16";
    default: return base < 10 ? "base3-9" : base < 16 ? "base11-15" : "base17-36";
    }
}
template <class T>
static const char *value_class(T v)
{
    if (v == 0) return "zero";
    if (std::is_signed<T>::value && v == std::numeric_limits<T>::min()) return "min";
    if (v == std::numeric_limits<T>::max()) return "max";
    return v < 0 ? "neg" : "pos";
}
static std::string cls(int base, bool upper, const char *vclass)
{
    return strf("%s%s%s", base_class(base), upper ? ":upper" : "", strcmp(vclass, "min") == 0 ? ":min" : "");
}

// ---------------------------------------------------------------- the to_* members and their libc oracles
static const int NOBASE = -12345;  // call the overload with its base argument left to the default (documented: 0, as strtol)
struct Parser {
    const char *name;
    int bits;
    bool is_signed;
    __int128 (*lib)(const ST::string &, int, ST::conversion_result *);
    __int128 (*libc)(const char *, char **, int);
};
#define PARSER(NAME, BITS, SIGNED, TYPE, CFN)                                                                      \
    {                                                                                                              \
        #NAME, BITS, SIGNED,                                                                                       \
            [](const ST::string &s, int b, ST::conversion_result *r) -> __int128 {                                 \
                if (b == NOBASE) return r ? s.NAME(*r) : s.NAME();                                                 \
                return r ? s.NAME(*r, b) : s.NAME(b);                                                              \
            },                                                                                                     \
            [](const char *p, char **e, int b) -> __int128 { return static_cast<TYPE>(CFN(p, e, b)); }            \
    }
static const Parser PARSERS[] = {
    PARSER(to_short, 16, true, short, strtol),
    PARSER(to_int, 32, true, int, strtol),
    PARSER(to_long, 64, true, long, strtol),
    PARSER(to_long_long, 64, true, long long, strtoll),
    PARSER(to_int64, 64, true, int64_t, strtoll),
    PARSER(to_ushort, 16, false, unsigned short, strtoul),
    PARSER(to_uint, 32, false, unsigned int, strtoul),
    PARSER(to_ulong, 64, false, unsigned long, strtoul),
    PARSER(to_ulong_long, 64, false, unsigned long long, strtoull),
    PARSER(to_uint64, 64, false, uint64_t, strtoull),
};
static const int NPARSERS = sizeof(PARSERS) / sizeof(PARSERS[0]);
static_assert(sizeof(long) == 8 && sizeof(int) == 4 && sizeof(short) == 2, "type widths assumed by the parser table");

static std::string i128s(__int128 v) { return ref::int_text_wide(v, 10, false); }

// ---------------------------------------------------------------- printing checks
static void cmp_text(Ctx &c, const char *route, const ST::string &got, const std::string &want, const std::string &k,
                     const std::string &call)
{
    VF_COUNT("validated");
    if (got.size() != want.size() || memcmp(got.c_str(), want.data(), want.size()) != 0)
        c.fail(strf("%s:text:%s:%s", route, ref::diff_class(std::string(got.c_str(), got.size()), want), k.c_str()),
               strf("%s returned %s, canonical digit string is %s", call.c_str(), vf::vis(got.c_str(), got.size()).c_str(),
                    vf::vis(want).c_str()));
    else if (got.c_str()[got.size()] != 0)
        c.fail(strf("%s:terminator:%s", route, k.c_str()), strf("%s result is not NUL-terminated", call.c_str()));
}

// ---------------------------------------------------------------- the public digit engines as objects
// ST::uint_formatter (and float_formatter, see C13 / C18) are public: text() is documented to be NUL-terminated, whatever the storage
// of the object held before (here 0x77 everywhere), and to stay valid for size() characters
template <class F, class V>
static void check_formatter_object(Ctx &c, const char *tname, V v, int base, bool upper, const std::string &want)
{
    alignas(16) unsigned char mem[sizeof(F) + 64];
    memset(mem, 0x77, sizeof mem);
    F *f = new (mem + 16) F();
    f->format(v, base, upper);
    VF_COUNT("ops");
    VF_COUNT("validated");
    std::string got(f->text(), f->size());
    if (got != want) c.fail(strf("%s(object):text", tname), strf("format(%s, %d) gives %s, expected %s", i128s((__int128)v).c_str(), base, vf::vis(got).c_str(), want.c_str()));
    else if (f->text()[f->size()] != 0 || strlen(f->text()) != f->size())
        c.fail(strf("%s(object):text()-not-terminated", tname),
               strf("format(%s, %d): size() is %zu, strlen(text()) is %zu in storage that held 0x77 before", i128s((__int128)v).c_str(), base, f->size(), strlen(f->text())));
    f->~F();
}

// from_int / from_uint in one base and case + parse-back of the canonical text
template <class T>
static void check_from_and_back(Ctx &c, T v, int base, bool upper)
{
    const bool sgn = std::is_signed<T>::value;
    const int bits = (int)sizeof(T) * 8;
    const char *route = sgn ? "from_int" : "from_uint";
    const std::string want = ref::int_text((__int128)v, base, upper);
    const std::string k = cls(base, upper, value_class(v));
    vf::Outcome o = vf::guard([&] {
        ST::string s = lib_from<T>(v, base, upper);
        VF_COUNT("ops");
        cmp_text(c, route, s, want, k, strf("%s(%s %s, %d, %s)", route, TI<T>::name(), i128s(v).c_str(), base, upper ? "true" : "false"));
        if (std::is_same<T, long>::value || std::is_same<T, unsigned long>::value) {
            ST::string s64;
            if constexpr (std::is_signed<T>::value) s64 = ST::string::from_int64((int64_t)v, base, upper);
            else s64 = ST::string::from_uint64((uint64_t)v, base, upper);
            VF_COUNT("ops");
            cmp_text(c, route, s64, want, k, strf("from_%sint64(%s, %d)", sgn ? "" : "u", i128s(v).c_str(), base));
        }
        // the digit engine itself, as an object in dirty storage
        if constexpr (!std::is_signed<T>::value && sizeof(T) >= 4) check_formatter_object<ST::uint_formatter<T>>(c, "uint_formatter", v, base, upper, want);
        // trailing arguments left to their defaults: upper_case = false, base = 10
        if (!upper) {
            ST::string sd;
            if constexpr (std::is_signed<T>::value) sd = ST::string::from_int(v, base);
            else sd = ST::string::from_uint(v, base);
            VF_COUNT("ops");
            cmp_text(c, route, sd, want, k + ":upper_case-omitted", strf("%s(%s %s, %d)", route, TI<T>::name(), i128s(v).c_str(), base));
            if (base == 10) {
                if constexpr (std::is_signed<T>::value) sd = ST::string::from_int(v);
                else sd = ST::string::from_uint(v);
                VF_COUNT("ops");
                cmp_text(c, route, sd, want, k + ":base-omitted", strf("%s(%s %s)", route, TI<T>::name(), i128s(v).c_str()));
                if (std::is_same<T, long>::value || std::is_same<T, unsigned long>::value) {
                    if constexpr (std::is_signed<T>::value) sd = ST::string::from_int64((int64_t)v);
                    else sd = ST::string::from_uint64((uint64_t)v);
                    VF_COUNT("ops");
                    cmp_text(c, route, sd, want, k + ":base-omitted", strf("from_%sint64(%s)", sgn ? "" : "u", i128s(v).c_str()));
                }
            }
        }
        // parse the canonical text back with every member wide enough to hold every value of T
        ST::string text = ST::string::from_validated(want.data(), want.size());
        for (int i = 0; i < NPARSERS; ++i) {
            const Parser &P = PARSERS[i];
            bool wide_enough;
            if (sgn) wide_enough = P.is_signed ? P.bits >= bits : (v >= 0 && P.bits >= bits);
            else wide_enough = P.is_signed ? P.bits > bits : P.bits >= bits;
            if (!wide_enough) continue;
            ST::conversion_result r;
            __int128 got = P.lib(text, base, &r);
            __int128 got2 = P.lib(text, base, nullptr);
            VF_ADD("ops", 2);
            VF_COUNT("validated");
            if (got != (__int128)v || got2 != (__int128)v)
                c.fail(strf("parse-back:%s:value:%s", P.name, k.c_str()),
                       strf("%s(%d) on %s returned %s / %s (without result), printed value was %s", P.name, base, vf::vis(want).c_str(),
                            i128s(got).c_str(), i128s(got2).c_str(), i128s(v).c_str()));
            if (!r.ok() || !r.full_match())
                c.fail(strf("parse-back:%s:flags:%s", P.name, k.c_str()),
                       strf("%s(result, %d) on %s: ok=%d full_match=%d, both must be set", P.name, base, vf::vis(want).c_str(), r.ok(),
                            r.full_match()));
        }
    });
    vf::count_dyn(std::string("out:print:") + vf::outkind_name(o.kind));
    if (!o.ok()) c.fail(strf("%s:%s:%s", route, vf::outkind_name(o.kind), k.c_str()), o.str());
}

struct FmtSpec {
    const char *spec;
    int base;
    bool upper;
};
static const FmtSpec FMTS[] = {{"{}", 10, false}, {"{d}", 10, false}, {"{x}", 16, false}, {"{X}", 16, true}, {"{o}", 8, false}, {"{b}", 2, false}};
static const int NFMTS = 6;

template <class T>
static void check_format_one(Ctx &c, T v, const FmtSpec &f)
{
    const std::string want = ref::int_text((__int128)v, f.base, f.upper);
    const std::string k = cls(f.base, f.upper, value_class(v));
    std::string route = strf("format%s", f.spec);
    vf::Outcome o = vf::guard([&] {
        ST::string s = ST::format(f.spec, v);
        VF_COUNT("ops");
        cmp_text(c, route.c_str(), s, want, k, strf("ST::format(\"%s\", (%s)%s)", f.spec, TI<T>::name(), i128s(v).c_str()));
    });
    vf::count_dyn(std::string("out:format:") + vf::outkind_name(o.kind));
    if (!o.ok()) c.fail(strf("%s:%s:%s", route.c_str(), vf::outkind_name(o.kind), k.c_str()), o.str());
}

template <class T>
static void check_stream(Ctx &c, T v)
{
    const std::string want = ref::int_text((__int128)v, 10, false);
    const std::string k = cls(10, false, value_class(v));
    vf::Outcome o = vf::guard([&] {
        ST::string_stream ss;
        ss << v;
        VF_COUNT("ops");
        ST::string s = ss.to_string();
        cmp_text(c, "string_stream<<", s, want, k, strf("string_stream << (%s)%s", TI<T>::name(), i128s(v).c_str()));
        // appended after existing content, and twice in a row
        ST::string_stream s2;
        s2 << "ab" << v << v;
        VF_COUNT("ops");
        cmp_text(c, "string_stream<<(appended)", s2.to_string(), "ab" + want + want, k,
                 strf("string_stream << \"ab\" << v << v with v=(%s)%s", TI<T>::name(), i128s(v).c_str()));
        // appended when the stream is exactly at / next to a capacity boundary (in-object 256, first heap block 512)
        // every fill level from 21 below to 1 above the first three capacities for values whose text has a distinct
        // length or sign; the boundary levels themselves for every value
        static const std::vector<size_t> FEW = {255, 256, 257, 511, 512}, ALL = [] {
            std::vector<size_t> a;
            for (size_t cap : {size_t(256), size_t(512), size_t(1024)})
                for (size_t f = cap - 21; f <= cap + 1; ++f) a.push_back(f);
            return a;
        }();
        const bool sweep = want.size() >= 19 || v == T(-1) || v == T(7) || v == std::numeric_limits<T>::min() || v == std::numeric_limits<T>::max() ||
                           v == T(-12345) || v == T(100);
        for (size_t pre : sweep ? ALL : FEW) {
            ST::string_stream s3;
            s3.append_char('p', pre);
            s3 << v << "|";
            VF_COUNT("ops");
            cmp_text(c, "string_stream<<(at-capacity-boundary)", s3.to_string(), std::string(pre, 'p') + want + "|", k,
                     strf("string_stream holding %zu bytes << (%s)%s << \"|\"", pre, TI<T>::name(), i128s(v).c_str()));
        }
    });
    vf::count_dyn(std::string("out:stream:") + vf::outkind_name(o.kind));
    if (!o.ok()) c.fail(strf("string_stream<<:%s:%s", vf::outkind_name(o.kind), k.c_str()), o.str());
}

// the most negative value of int / long / long long goes through every printer (from_int in all 35 bases and
// both cases with parse-back, the six format specs, string_stream) in the isolated stage, one call per forked
// child; everything else is checked in place
template <class T>
static bool deferred_min(T v)
{
    return std::is_signed<T>::value && sizeof(T) >= 4 && v == std::numeric_limits<T>::min();
}

// full per-(value, base) check used by the sweeps
template <class T>
static void check_value_base(Ctx &c, T v, int base)
{
    if (deferred_min(v)) {
        VF_COUNT("deferred-to-isolated-stage");
        return;
    }
    check_from_and_back<T>(c, v, base, false);
    check_from_and_back<T>(c, v, base, true);
    for (int i = 0; i < NFMTS; ++i)
        if (FMTS[i].base == base) check_format_one<T>(c, v, FMTS[i]);
    if (base == 10) check_stream<T>(c, v);
    __int128 m = (__int128)v < 0 ? -(__int128)v : (__int128)v;
    if (m >= base) c.nontrivial();
}

// ---------------------------------------------------------------- structured value sets for the wide types
// candidates as mathematical integers; W = width used for the bit patterns
static std::vector<__int128> candidates(int W, __int128 lo, __int128 hi)
{
    std::vector<__int128> cand;
    auto add = [&](__int128 x) {
        cand.push_back(x);
        cand.push_back(-x);
    };
    for (int d = 0; d <= 2; ++d) {
        cand.push_back(lo + d);
        cand.push_back(hi - d);
        add(d);
    }
    const __int128 LIM = ((__int128)1) << 64;
    for (int b = 2; b <= 36; ++b) {
        // +-(m * b^k + d): every digit value m in every digit position k, and its two neighbours
        for (__int128 p = 1; p <= LIM; p *= b)
            for (int m = 1; m < b; ++m)
                for (int d = -1; d <= 1; ++d) add(m * p + d);
        // digit patterns that use every digit value of the base: (b-1)(b-2)...0 and 1 2 ... (b-1) 0 1 ...,
        // and the repeated top digit, truncated to what fits
        __int128 desc = 0, asc = 0, rep = 0;
        for (int i = 0; i < 64; ++i) {
            desc = desc * b + ((b - 1 - i % b) % b);
            asc = asc * b + ((i + 1) % b);
            rep = rep * b + (b - 1);
            if (desc > LIM) break;
            add(desc);
            add(asc);
            add(rep);
        }
    }
    // every value with at most two bits set, its negation and its complement within W bits
    for (int i = 0; i < W; ++i)
        for (int j = i; j < W; ++j) {
            unsigned long long bitsv = (1ull << i) | (1ull << j);
            add((__int128)bitsv);
            unsigned long long mask = W == 64 ? ~0ull : ((1ull << W) - 1);
            unsigned long long comp = ~bitsv & mask;
            cand.push_back((__int128)comp);                                    // as an unsigned W-bit value
            cand.push_back((__int128)comp - (((__int128)1) << W));            // the same bits as a signed W-bit value
            if (bitsv >> (W - 1)) cand.push_back((__int128)bitsv - (((__int128)1) << W));
        }
    std::sort(cand.begin(), cand.end());
    cand.erase(std::unique(cand.begin(), cand.end()), cand.end());
    std::vector<__int128> out;
    for (__int128 x : cand)
        if (x >= lo && x <= hi) out.push_back(x);
    return out;
}

template <class T>
static std::vector<T> wide_set()
{
    std::vector<T> out;
    for (__int128 x : candidates((int)sizeof(T) * 8, (__int128)std::numeric_limits<T>::min(), (__int128)std::numeric_limits<T>::max()))
        out.push_back((T)x);
    return out;
}

template <class T>
static void add_wide_stage(vf::Plan &plan)
{
    auto vals = std::make_shared<std::vector<T>>(wide_set<T>());
    plan.stage(strf("print:%s:structured-set(%zu values)x35-bases", TI<T>::name(), vals->size()), (uint64_t)vals->size() * 35,
               [vals](uint64_t i, Ctx &c) {
                   int base = 2 + (int)vf::take(i, 35);
                   check_value_base<T>(c, (*vals)[i], base);
               },
               [vals](uint64_t i) {
                   int base = 2 + (int)vf::take(i, 35);
                   return strf("(%s)%s base %d, both cases", TI<T>::name(), i128s((*vals)[i]).c_str(), base);
               });
}

// ---------------------------------------------------------------- isolated stage (one library call per forked child)
enum IsoOp { ISO_FORMAT0 = 0 /* .. 5 */, ISO_STREAM = 6, ISO_FROM2 = 7 /* from_int base 2..36: 7..41 */, ISO_NOPS = 42 };

template <class T>
static void iso_body(Ctx &cc, T v, int op)
{
    if (op < ISO_STREAM) check_format_one<T>(cc, v, FMTS[op]);
    else if (op == ISO_STREAM) {
        if constexpr (sizeof(T) >= 2) check_stream<T>(cc, v);
    } else {
        if constexpr (sizeof(T) >= 2) {
            check_from_and_back<T>(cc, v, op - ISO_FROM2 + 2, false);
            check_from_and_back<T>(cc, v, op - ISO_FROM2 + 2, true);
        }
    }
}
static std::string iso_opname(int op)
{
    if (op < ISO_STREAM) return strf("ST::format(\"%s\")", FMTS[op].spec);
    if (op == ISO_STREAM) return "string_stream<<";
    return strf("from_int(base %d)", op - ISO_FROM2 + 2);
}
static const char *iso_family(int op) { return op < ISO_STREAM ? "ST::format" : op == ISO_STREAM ? "string_stream<<" : "from_int"; }

template <class T>
static void iso_case(Ctx &c, T v, int op)
{
    if (sizeof(T) == 1 && op >= ISO_STREAM) {  // no such overloads for the char types
        vf::count_dyn("out:iso:not-applicable");
        return;
    }
    ref::IsoResult r = ref::run_isolated(20, [&](int fd) -> int {
        memset(vf::g_local, 0, sizeof vf::g_local);
        vf::g_local_nontrivial = 0;
        Ctx cc;
        cc.stage = c.stage;
        cc.index = c.index;
        cc.vfile = fdopen(fd, "w");
        iso_body<T>(cc, v, op);
        fflush(cc.vfile);
        vf::flush_local();
        return 0;
    });
    std::string call = strf("%s with (%s)%s", iso_opname(op).c_str(), TI<T>::name(), i128s((__int128)v).c_str());
    // violations found by the child (value comparisons)
    size_t pos = 0, nrep = 0;
    while (pos < r.out.size()) {
        size_t e = r.out.find('\n', pos);
        if (e == std::string::npos) e = r.out.size();
        std::string line = r.out.substr(pos, e - pos), sig, detail;
        pos = e + 1;
        if (vf::jfield(line, "sig", sig) && vf::jfield(line, "detail", detail)) {
            ++nrep;
            c.fail(sig, detail);
        }
    }
    if (nrep && vf::g_shm) vf::g_shm->violations.fetch_sub(nrep);  // counted once by the child already
    if (r.normal && r.exit_code == 0) {
        vf::count_dyn("out:iso:completed");
        if (v == std::numeric_limits<T>::min() || v == std::numeric_limits<T>::max()) c.nontrivial();
        return;
    }
    std::string msg, kind = ref::ubsan_kind(r.err, &msg);
    std::string tail = r.err.substr(0, 700);
    if (!kind.empty()) {
        vf::count_dyn("out:iso:ubsan-report");
        c.fail(strf("ub:%s(%s %s):%s", iso_family(op), TI<T>::name(), value_class(v), kind.c_str()),
               strf("%s: UBSan: %s", call.c_str(), msg.c_str()));
    } else if (r.err.find("AddressSanitizer") != std::string::npos) {
        vf::count_dyn("out:iso:asan-report");
        size_t p = r.err.find("AddressSanitizer: ");
        std::string what = r.err.substr(p + 18, r.err.find_first_of(" \n", p + 18) - p - 18);
        c.fail(strf("asan:%s(%s %s):%s", iso_family(op), TI<T>::name(), value_class(v), what.c_str()), strf("%s: %s", call.c_str(), tail.c_str()));
    } else {
        vf::count_dyn("out:iso:died");
        c.fail(strf("crash:%s(%s %s):%s=%d", iso_family(op), TI<T>::name(), value_class(v), r.normal ? "exit" : "signal",
                    r.normal ? r.exit_code : r.signal),
               strf("%s: child terminated abnormally; stderr: %s", call.c_str(), tail.c_str()));
    }
}

template <class T>
static T iso_value(int vi)
{
    switch (vi) {
    case 0: return std::numeric_limits<T>::min();
    case 1: return (T)(std::numeric_limits<T>::min() + 1);
    case 2: return (T)-1;
    default: return std::numeric_limits<T>::max();
    }
}
static void iso_dispatch(Ctx *c, uint64_t i, std::string *desc)
{
    int op = (int)vf::take(i, ISO_NOPS), vi = (int)vf::take(i, 4), ty = (int)i;
#define ISO_T(N, T)                                                                                                       \
    case N:                                                                                                               \
        if (c) iso_case<T>(*c, iso_value<T>(vi), op);                                                                     \
        else *desc = strf("%s with (%s)%s, alone in a forked child", iso_opname(op).c_str(), TI<T>::name(),              \
                          i128s((__int128)iso_value<T>(vi)).c_str());                                                     \
        break;
    switch (ty) {
        ISO_T(0, signed char)
        ISO_T(1, short)
        ISO_T(2, int)
        ISO_T(3, long)
        ISO_T(4, long long)
    }
#undef ISO_T
}

// ---------------------------------------------------------------- parsing arbitrary text
static const unsigned char PALPHA[] = {' ', '\t', '+', '-', '0', '1', '7', '8', '9', 'a', 'f', 'g', 'z', 'Z', 'x', 'X', 0x00, 0xFF};
static const unsigned NPALPHA = sizeof(PALPHA);

static std::string parse_text(uint64_t idx, unsigned L)
{
    std::vector<unsigned> seq;
    vf::seq_decode(idx, NPALPHA, L, seq);
    std::string s;
    for (unsigned k : seq) s.push_back((char)PALPHA[k]);
    return s;
}

static void check_parse(Ctx &c, const std::string &bytes, const std::vector<int> &bases)
{
    vf::Outcome o = vf::guard([&] {
        ST::string text = ST::string::from_validated(bytes.data(), bytes.size());
        bool any_consumed = false;
        // the base argument left out: must behave as base 0 (prefix decides, as strtol)
        for (int i = 0; i < NPARSERS; ++i) {
            const Parser &P = PARSERS[i];
            char *end = nullptr;
            errno = 0;
            __int128 want = P.libc(bytes.c_str(), &end, 0);
            size_t consumed = (size_t)(end - bytes.c_str());
            bool want_ok = bytes.empty() ? false : consumed > 0, want_full = bytes.empty() ? true : consumed == bytes.size();
            ST::conversion_result r;
            __int128 got = P.lib(text, NOBASE, &r), got2 = P.lib(text, NOBASE, nullptr);
            VF_ADD("ops", 2);
            VF_COUNT("validated");
            if (got != want || got2 != want || r.ok() != want_ok || r.full_match() != want_full)
                c.fail(strf("parse:%s:base-argument-omitted:differs-from-base-0", P.name),
                       strf("%s(result) / %s() on %s returned %s / %s, ok=%d full_match=%d; strtol-family with base 0 returns %s, consumed %zu of %zu bytes",
                            P.name, P.name, vf::vis(bytes).c_str(), i128s(got).c_str(), i128s(got2).c_str(), r.ok(), r.full_match(), i128s(want).c_str(),
                            consumed, bytes.size()));
        }
        for (int base : bases) {
            for (int i = 0; i < NPARSERS; ++i) {
                const Parser &P = PARSERS[i];
                char *end = nullptr;
                errno = 0;
                __int128 want = P.libc(bytes.c_str(), &end, base);
                bool range = errno == ERANGE;
                size_t consumed = (size_t)(end - bytes.c_str());
                bool want_ok = consumed > 0, want_full = consumed == bytes.size();
                if (bytes.empty()) {
                    want_ok = false;
                    want_full = true;
                }
                if (consumed) any_consumed = true;
                ST::conversion_result r;
                __int128 got = P.lib(text, base, &r);
                __int128 got2 = P.lib(text, base, nullptr);
                VF_ADD("ops", 2);
                VF_COUNT("validated");
                // a result object that already holds the flags of an earlier conversion (a full match, and a failure)
                {
                    static const ST::string good = ST_LITERAL("17"), junk = ST_LITERAL("zz 1");
                    ST::conversion_result ra, rb;
                    (void)P.lib(good, 10, &ra);
                    (void)P.lib(junk, 10, &rb);
                    __int128 ga = P.lib(text, base, &ra), gb = P.lib(text, base, &rb);
                    VF_ADD("ops", 2);
                    bool wok = bytes.empty() ? false : consumed > 0, wfull = bytes.empty() ? true : consumed == bytes.size();
                    if (ga != got || gb != got || ra.ok() != wok || rb.ok() != wok || ra.full_match() != wfull || rb.full_match() != wfull)
                        c.fail(strf("parse:%s:reused-result-object:%s", P.name, bytes.empty() ? "empty" : consumed == 0 ? "nothing-consumed" : wfull ? "all-consumed" : "partly-consumed"),
                               strf("%s(result, %d) on %s with a result object used before: after a full match ok=%d full_match=%d, after a failure ok=%d full_match=%d; "
                                    "expected ok=%d full_match=%d",
                                    P.name, base, vf::vis(bytes).c_str(), ra.ok(), ra.full_match(), rb.ok(), rb.full_match(), wok, wfull));
                }
                const char *tclass = bytes.empty() ? "empty" : consumed == 0 ? "nothing-consumed" : want_full ? "all-consumed" : "partly-consumed";
                if (got != want || got2 != want)
                    c.fail(strf("parse:%s:value:%s%s", P.name, tclass, range ? ":out-of-range" : ""),
                           strf("%s(%d) on %s returned %s / %s (without result); libc returns %s", P.name, base, vf::vis(bytes).c_str(),
                                i128s(got).c_str(), i128s(got2).c_str(), i128s(want).c_str()));
                if (r.ok() != want_ok)
                    c.fail(strf("parse:%s:ok:%s", P.name, tclass),
                           strf("%s(result, %d) on %s: ok=%d, libc consumed %zu of %zu bytes", P.name, base, vf::vis(bytes).c_str(), r.ok(),
                                consumed, bytes.size()));
                if (r.full_match() != want_full)
                    c.fail(strf("parse:%s:full_match:%s", P.name, tclass),
                           strf("%s(result, %d) on %s: full_match=%d, libc consumed %zu of %zu bytes", P.name, base, vf::vis(bytes).c_str(),
                                r.full_match(), consumed, bytes.size()));
                if (i == 2 && base == bases[0]) vf::count_dyn(std::string("out:parse:") + tclass + (range ? ":out-of-range" : ""));
            }
        }
        if (any_consumed) c.nontrivial();
    });
    if (!o.ok()) c.fail(strf("parse:%s", vf::outkind_name(o.kind)), o.str());
}

// ---------------------------------------------------------------- self-test of the reference
static void selftest()
{
    auto die = [](const char *m) {
        fprintf(stderr, "selftest: %s\n", m);
        exit(2);
    };
    std::vector<long long> sv = wide_set<long long>();
    std::vector<unsigned long long> uv = wide_set<unsigned long long>();
    if (sv.size() < 4000 || uv.size() < 3000) die("structured value set unexpectedly small");
    if (sv.front() != LLONG_MIN || sv.back() != LLONG_MAX || uv.front() != 0 || uv.back() != ULLONG_MAX) die("extremes missing from the value set");
    char buf[80];
    for (long long v : sv) {
        snprintf(buf, sizeof buf, "%lld", v);
        if (ref::int_text(v, 10, false) != buf) die("reference decimal text differs from snprintf %lld");
    }
    for (unsigned long long v : uv) {
        snprintf(buf, sizeof buf, "%llu", v);
        if (ref::int_text((__int128)v, 10, true) != buf) die("reference decimal text differs from snprintf %llu");
        snprintf(buf, sizeof buf, "%llx", v);
        if (ref::int_text((__int128)v, 16, false) != buf) die("reference hex text differs from snprintf %llx");
        snprintf(buf, sizeof buf, "%llX", v);
        if (ref::int_text((__int128)v, 16, true) != buf) die("reference upper-case hex text differs from snprintf %llX");
        snprintf(buf, sizeof buf, "%llo", v);
        if (ref::int_text((__int128)v, 8, false) != buf) die("reference octal text differs from snprintf %llo");
    }
    for (int base = 2; base <= 36; ++base)
        for (size_t i = 0; i < sv.size(); i += 7) {
            for (int up = 0; up < 2; ++up) {
                std::string t = ref::int_text(sv[i], base, up);
                __int128 back;
                if (!ref::parse_digits(t, base, back) || back != sv[i]) die("reference text does not evaluate back to the value");
                if (t.size() > 1 && t[t[0] == '-'] == '0') die("reference text has a leading zero");
                for (char ch : t)
                    if (up ? (ch >= 'a' && ch <= 'z') : (ch >= 'A' && ch <= 'Z')) die("reference text has a letter in the wrong case");
            }
        }
    if (ref::int_text(-(((__int128)1) << 63), 2, false) != "-1" + std::string(63, '0')) die("reference text of -2^63 in base 2");
    if (ref::int_text(35, 36, false) != "z" || ref::int_text(35, 36, true) != "Z" || ref::int_text(-36, 36, false) != "-10") die("reference base 36");
}

static void build(vf::Plan &plan, const vf::Opts &o)
{
    selftest();
    plan.rule =
        "printing cases: one case = one (value, base) pair checked in both letter cases through every printer and parsed back; "
        "non-trivial = |value| >= base (at least two digits); isolated cases: non-trivial = the value is the minimum or maximum of its type; "
        "parsing cases: one case = one byte string; non-trivial = libc consumes at least one character in some base";
    plan.assumptions = {
        "the 16-bit types are swept completely; int/long/long long and their unsigned counterparts are covered by a structured set only "
        "(0, +-1, +-2, min..min+2, max-2..max, +-(m*b^k+d) for every base b, every digit m in 1..b-1, every k up to 2^64 and d in -1..1, per-base "
        "digit patterns using every digit value, every value with at most two bits set with its negation and complement), not by all 2^32 / 2^64 values",
        "libc strtol/strtoul/strtoll/strtoull (glibc, C locale) are the specification for the parsing direction, as the property states; "
        "bases are restricted to 0 and 2..36 (for any other base glibc leaves *endptr unset, so there is nothing to compare)",
        "undefined behaviour is observed through UBSan (-fsanitize=undefined -fno-sanitize-recover): what this build of g++ 12 does not instrument is not seen",
        "to_bool is not part of the strtol-family sentence and is not checked here"};

    // 1. complete 16-bit sweep
    plan.stage("print:short+unsigned-short:all-65536-values-x35-bases", 65536ull * 35,
               [](uint64_t i, Ctx &c) {
                   int base = 2 + (int)vf::take(i, 35);
                   unsigned short bits = (unsigned short)i;
                   check_value_base<short>(c, (short)bits, base);
                   check_value_base<unsigned short>(c, bits, base);
               },
               [](uint64_t i) {
                   int base = 2 + (int)vf::take(i, 35);
                   unsigned short bits = (unsigned short)i;
                   return strf("(short)%d and (unsigned short)%u, base %d, both cases", (int)(short)bits, (unsigned)bits, base);
               });
    // 2. 8-bit types through ST::format (from_int has no char overloads)
    plan.stage("format:signed-char+unsigned-char:all-256-values", 256,
               [](uint64_t i, Ctx &c) {
                   for (int f = 0; f < NFMTS; ++f) {
                       check_format_one<signed char>(c, (signed char)(unsigned char)i, FMTS[f]);
                       check_format_one<unsigned char>(c, (unsigned char)i, FMTS[f]);
                   }
                   if (i >= 2) c.nontrivial();
               },
               [](uint64_t i) { return strf("(signed char)%d and (unsigned char)%u through {} {d} {x} {X} {o} {b}", (int)(signed char)(unsigned char)i, (unsigned)i); });
    // 3. wide types, structured sets
    add_wide_stage<int>(plan);
    add_wide_stage<unsigned int>(plan);
    add_wide_stage<long>(plan);
    add_wide_stage<unsigned long>(plan);
    add_wide_stage<long long>(plan);
    add_wide_stage<unsigned long long>(plan);
    // 4. extremes, one library call per forked child (names the call on a UBSan report)
    {
        vf::Stage &s = plan.stage("print:extremes-isolated(5 signed types x {min,min+1,-1,max} x 42 calls)", 5ull * 4 * ISO_NOPS,
                                  [](uint64_t i, Ctx &c) { iso_dispatch(&c, i, nullptr); },
                                  [](uint64_t i) {
                                      std::string d;
                                      iso_dispatch(nullptr, i, &d);
                                      return d;
                                  });
        s.case_timeout_s = 60;
    }
    // 5. canonical texts of structured values, including values outside every 64-bit type, decorated, through
    //    every to_* overload (too narrow ones included: narrowing and libc range clamping must agree)
    {
        const __int128 two64 = ((__int128)1) << 64;
        auto vals = std::make_shared<std::vector<__int128>>(candidates(64, -two64 - 2, two64 + 38));
        static const char *const PRE[] = {"", "+", " ", "0x", "0"}, *const SUF[] = {"", "g", " "};
        const bool full = o.thorough();
        plan.stage(strf("parse:texts-of-structured-values-in[-2^64-2,2^64+38](%zu)x35-bases-x%s", vals->size(),
                        full ? "both-cases-x15-decorations-in-base-b-and-0" : "{plain,+trailing-g}"),
                   (uint64_t)vals->size() * 35,
                   [vals, full](uint64_t i, Ctx &c) {
                       int base = 2 + (int)vf::take(i, 35);
                       std::vector<int> bases = {base};
                       if (full) bases.push_back(0);
                       for (int up = 0; up < (full ? 2 : 1); ++up)
                           for (int p = 0; p < (full ? 5 : 1); ++p)
                               for (int q = 0; q < (full ? 3 : 2); ++q) {
                                   if (up && base <= 10) continue;
                                   check_parse(c, PRE[p] + ref::int_text_wide((*vals)[i], base, up) + SUF[q], bases);
                               }
                   },
                   [vals, full](uint64_t i) {
                       int base = 2 + (int)vf::take(i, 35);
                       return strf("text of %s in base %d %s", i128s((*vals)[i]).c_str(), base,
                                   full ? "(both cases; prefixes \"\" + space 0x 0; suffixes \"\" g space), parsed in that base and base 0"
                                        : "(lower case; alone and followed by g), parsed in that base");
                   });
    }
    // 6. parsing arbitrary text
    unsigned L = 5;
    auto bases = std::make_shared<std::vector<int>>();
    if (o.thorough()) {
        bases->push_back(0);
        for (int b = 2; b <= 36; ++b) bases->push_back(b);
    } else
        *bases = {0, 2, 8, 10, 16, 36};
    plan.stage(strf("parse:P^<=%u(18 symbols)x%zu-bases-x20-to_*-overloads", L, bases->size()), vf::seq_count(NPALPHA, L),
               [L, bases](uint64_t i, Ctx &c) { check_parse(c, parse_text(i, L), *bases); },
               [L](uint64_t i) {
                   std::string t = parse_text(i, L);
                   return strf("text[%zu]=%s", t.size(), vf::vis(t).c_str());
               });
    if (o.thorough()) {
        auto b6 = std::make_shared<std::vector<int>>(std::vector<int>{0, 2, 8, 10, 16, 36});
        plan.stage("parse:P^6(18 symbols, length exactly 6)x6-bases-x20-to_*-overloads", vf::ipow(NPALPHA, 6),
                   [b6](uint64_t i, Ctx &c) { check_parse(c, parse_text(vf::seq_count(NPALPHA, 5) + i, 6), *b6); },
                   [](uint64_t i) {
                       std::string t = parse_text(vf::seq_count(NPALPHA, 5) + i, 6);
                       return strf("text[%zu]=%s", t.size(), vf::vis(t).c_str());
                   });
    }
    vf_early::add_stage(plan);
}

VF_MAIN("C12", build)
