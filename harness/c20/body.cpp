// body.cpp - the operations threads execute under the schedx runtime.  This translation unit
// (and with it every string_theory header, the library being header-only) is compiled with
// clang++ -fsanitize=thread -c: each function entry and each memory access calls into our own
// __tsan_* runtime (schedx.cpp), which logs accesses and offers scheduling points.  libc memory
// functions referenced from here are renamed to logging wrappers with objcopy.
#include <cstring>
#include <sstream>
#include <string>
#include "st_string.h"
#include "st_format.h"
#include "st_codecs.h"
#include "st_stringstream.h"
#include "st_iostream.h"
#include "c20_shared.h"

namespace {
struct Dig {
    char *out;
    size_t cap, n = 0;
    void raw(const void *p, size_t len)
    {
        const char *c = (const char *)p;
        for (size_t i = 0; i < len && n + 1 < cap; ++i) out[n++] = c[i];
    }
    void s(const ST::string &x)
    {
        num((long long)x.size());
        raw(x.c_str(), x.size());
        raw("|", 1);
    }
    template <class T>
    void b(const ST::buffer<T> &x)
    {
        num((long long)x.size());
        raw(x.data(), x.size() * sizeof(T));
        raw("|", 1);
    }
    void h(const ST::string &x)  // long values: size, checksum, both ends
    {
        unsigned long long f = 1469598103934665603ull;
        for (size_t i = 0; i < x.size(); ++i) f = (f ^ (unsigned char)x.c_str()[i]) * 1099511628211ull;
        num((long long)x.size());
        num((long long)(f >> 1));
        raw(x.c_str(), x.size() < 24 ? x.size() : 24);
        if (x.size() > 24) raw(x.c_str() + x.size() - 24, 24);
        raw("|", 1);
    }
    void num(long long v)
    {
        char t[24];
        int k = 0;
        bool neg = v < 0;
        unsigned long long u = neg ? 0ull - (unsigned long long)v : (unsigned long long)v;
        do {
            t[k++] = (char)('0' + u % 10);
            u /= 10;
        } while (u);
        if (neg) t[k++] = '-';
        while (k) raw(&t[--k], 1);
        raw(",", 1);
    }
    void end() { out[n < cap ? n : cap - 1] = 0; }
};
}  // namespace

static const char *const OP_NAMES[] = {
    "copy-construct shared strings",      "find/find_last cs+ci",        "substr/left/right",         "trim",
    "to_upper/to_lower",                   "replace",                     "split",                     "tokenize",
    "compare/compare_i/hash/hash_i (fresh and shared function objects)",       "to_utf16",                    "to_utf32",                  "to_wchar",
    "to_latin_1",                          "concatenate",                 "from_int",                  "to_int/to_uint",
    "from_double",                         "to_double/to_float",          "format integers",           "format doubles",
    "format double needing >= 64 chars",   "format strings",              "format {c}",                "hex_encode",
    "hex_decode",                          "base64_encode",               "base64_decode",             "string_stream append/<</to_string",
    "utf8_to_utf16 malformed (substitute)", "utf16_to_utf8 malformed (substitute)", "ostringstream << string", "before/after on local string",
    "starts_with/ends_with/contains",      "char_buffer compare/copy",    "format_latin_1",            "istringstream >> string",
    "literal operators _st/_stbuf/_stfmt (per-thread literals)", "failing decodes and conversions: exception text (per-thread inputs)",
    "failing format calls: exception text", "wide streams: wostringstream << / wistringstream >> / writef",
    "accessors of the shared strings and buffer (c_str/data/at/front/back/iterators/view/c_str(substitute)/null comparisons)",
    "strings built from malformed UTF-8/16/32 with substitute_invalid (per-thread inputs, short/in-object, medium, long)",
    "outputs growing past 256/512/1024/4096 bytes (per-thread sizes): format, string_stream, +=, replace, hex/base64",
    "format / string_stream << with every text argument type (C strings, STL strings and views, ST buffers of every width; per-thread texts, short and long)"};

extern "C" int c20_num_ops() { return (int)(sizeof OP_NAMES / sizeof *OP_NAMES); }
extern "C" const char *c20_op_name(int op) { return OP_NAMES[op]; }

extern "C" void c20_run_op(int op, int salt, const C20Shared *sh, char *out, size_t cap)
{
    Dig d{out, cap};
    const ST::string &S = sh->s_short, &L = sh->s_long;
    switch (op) {
    case 0: {
        ST::string a(S), b(L);
        ST::char_buffer c(sh->cb);
        d.s(a);
        d.s(b);
        d.b(c);
        break;
    }
    case 1:
        d.num(L.find("fox"));
        d.num(L.find("FOX", ST::case_insensitive));
        d.num(L.find_last('o'));
        d.num(L.find_last("THE", ST::case_insensitive));
        d.num(S.find((char)('a' + salt)));
        break;
    case 2:
        d.s(L.substr(4 + salt, 9));
        d.s(L.left(20));
        d.s(L.right(18 + salt));
        d.s(S.substr(-3));
        break;
    case 3:
        d.s(L.trim());
        d.s(L.trim_left(" T"));
        d.s(S.trim_right("d!"));
        break;
    case 4:
        d.s(L.to_upper());
        d.s(S.to_lower());
        break;
    case 5:
        d.s(L.replace("o", salt ? "00" : "0"));
        d.s(L.replace("THE", "a", ST::case_insensitive));
        break;
    case 6: {
        auto v = L.split(' ');
        d.num((long long)v.size());
        for (auto &e : v) d.s(e);
        auto w = L.split("o", 2 + salt);
        for (auto &e : w) d.s(e);
        break;
    }
    case 7: {
        auto v = L.tokenize(salt ? " o" : " ,");
        d.num((long long)v.size());
        for (auto &e : v) d.s(e);
        break;
    }
    case 8:
        d.num(L.compare(S));
        d.num(L.compare_i(S));
        d.num(S.compare_n(L, 3));
        d.num((long long)(ST::hash()(L) % 1000003));
        d.num((long long)(ST::hash_i()(S) % 1000003));
        d.num(L == S);
        {
            // the shared function objects, on a key of this thread's own (long enough for any block-wise folding)
            ST::string own = ST::string::fill(70 + 64 * (size_t)salt, (char)('K' + salt)) + L;
            d.num((long long)(sh->fn_hash(own) % 1000003));
            d.num((long long)(sh->fn_hash_i(own) % 1000003));
            d.num(sh->fn_hash_i(own) == ST::hash_i()(own.to_lower()));
            d.num(sh->fn_less_i(own, L) + 2 * sh->fn_equal_i(own, own.to_upper()));
        }
        break;
    case 9: d.b(L.to_utf16()); break;
    case 10: d.b(L.to_utf32()); break;
    case 11: d.b(L.to_wchar()); break;
    case 12: d.b(L.to_latin_1()); break;
    case 13:
        d.s(S + L);
        d.s(L + (salt ? "!" : "?"));
        d.s(S + U'€');
        break;
    case 14:
        d.s(ST::string::from_int(-123456789 - salt, 16));
        d.s(ST::string::from_uint(4000000000u + salt, 2));
        d.s(ST::string::from_int(-9223372036854775807LL - 1, 36, true));
        break;
    case 15: {
        ST::conversion_result cr;
        d.num(sh->s_num.to_int(cr, 10));
        d.num(cr.ok());
        d.num(cr.full_match());
        d.num((long long)sh->s_hexnum.to_uint(16));
        break;
    }
    case 16:
        d.s(ST::string::from_double(3.25e-7 * (salt + 1)));
        d.s(ST::string::from_double(-1e300 / (salt + 1), 'f'));
        d.s(ST::string::from_float(1.5f + salt, 'e'));
        break;
    case 17:
        d.num((long long)(sh->s_dbl.to_double() / 1000));
        d.num((long long)(sh->s_dbl.to_float() / 1000));
        break;
    case 18: d.s(ST::format("{>10} {x} {#b} {+} {05}", 42 + salt, 255u, 5, -7LL - salt, (short)3)); break;
    case 19: d.s(ST::format("{.3f} {e} {} {>12.2E}", 1.5 + salt, 2.5e-3, 0.1 * (salt + 1), -6.02e23)); break;
    case 20: d.s(ST::format("{f}|{.70f}", (salt + 1) * 1.5e70, 1.0 / (salt + 3))); break;
    case 21: d.s(ST::format("{} {<20}|{>15.4}", S, L, "abcdefgh")); break;
    case 22: d.s(ST::format("{c}{c}{c}", 0x20AC + salt, 'x', U'\U0001F600')); break;
    case 23: d.s(ST::hex_encode(sh->cb)); break;
    case 24: d.b(ST::hex_decode(sh->s_hex)); break;
    case 25: d.s(ST::base64_encode(sh->cb)); break;
    case 26: d.b(ST::base64_decode(sh->s_b64)); break;
    case 27: {
        ST::string_stream ss;
        for (int i = 0; i < 9; ++i) ss << L << i * (salt + 1) << ' ' << 0.5 * i;
        ss.append_char('#', 300 + 700 * salt);
        d.s(ss.to_string());
        break;
    }
    case 28: d.b(ST::utf8_to_utf16("ab\xC3(\xE2\x82\xAC)\xF0\x9F", 10, ST::substitute_invalid)); break;
    case 29: {
        static const char16_t bad[] = {0x41, 0xD800, 0x42, 0xDC00, 0xD83D, 0xDE00, 0};
        d.b(ST::utf16_to_utf8(bad, 6, ST::substitute_invalid));
        break;
    }
    case 30: {
        std::ostringstream os;
        os << L << S;
        std::string r = os.str();
        d.raw(r.data(), r.size());
        break;
    }
    case 31: {
        ST::string loc = ST::string::from_utf8(salt ? "key=value=more;tail" : "k=v=m;t");
        d.s(loc.before_first('='));
        d.s(loc.after_last("="));
        d.s(loc.before_last(ST::string(";")));
        d.s(loc.after_first('='));
        break;
    }
    case 32:
        d.num(L.starts_with("The"));
        d.num(L.ends_with(S));
        d.num(L.contains("lazy"));
        d.num(S.contains((char)('A' + salt)));
        d.num(L.starts_with("the", ST::case_insensitive));
        break;
    case 33: {
        ST::char_buffer c(sh->cb);
        d.num(c.compare(sh->cb));
        d.num(sh->cb.compare("zz"));
        d.num(sh->cb.compare_n(c, 4));
        d.b(c);
        break;
    }
    case 34: d.s(ST::format_latin_1("{} \xE9 {}", 7 + salt, "caf\xE9")); break;
    case 35: {
        std::istringstream is(std::string("token") + (char)('0' + salt) + " rest");
        ST::string t;
        is >> t;
        d.s(t);
        break;
    }
    case 36: {
        // each thread evaluates its own literals (a per-literal cache shared between threads would mix them up)
        using namespace ST::literals;
        if (salt == 0) {
            d.s("thread-zero: plain literal, long enough for the heap"_st);
            d.s(u"thread-zero: \u00e4lpha-\u00e4lpha utf-16"_st);
            d.s(U"thread-zero: \u20ac utf-32 literal text"_st);
            d.s(L"thread-zero: wide literal text \u00e9"_st);
            d.s(u8"thread-zero: utf-8 literal \u00e9\u00e9\u00e9"_st);
            d.b("thread-zero: buffer literal, heap sized"_stbuf);
            d.b(u"thread-zero: utf-16 buffer literal"_stbuf);
            d.s("zero:{}|{>6}|{x}"_stfmt(1, "a", 255));
        } else if (salt == 1) {
            d.s("thread-one:: plain literal, long enough for the heap"_st);
            d.s(u"thread-one:: \u00dfeta--\u00dfeta- utf-16"_st);
            d.s(U"thread-one:: \u20ad utf-32 literal text"_st);
            d.s(L"thread-one:: wide literal text \u00e8"_st);
            d.s(u8"thread-one:: utf-8 literal \u00e8\u00e8\u00e8"_st);
            d.b("thread-one:: buffer literal, heap sized"_stbuf);
            d.b(u"thread-one:: utf-16 buffer literal"_stbuf);
            d.s("one::{}|{>6}|{x}"_stfmt(2, "b", 254));
        } else {
            d.s("thread-two:: plain literal, long enough for the heap"_st);
            d.s(u"thread-two:: gamma--gamma- utf-16 \u00e7"_st);
            d.s(U"thread-two:: \u20ae utf-32 literal text"_st);
            d.s(L"thread-two:: wide literal text \u00ea"_st);
            d.s(u8"thread-two:: utf-8 literal \u00ea\u00ea\u00ea"_st);
            d.b("thread-two:: buffer literal, heap sized"_stbuf);
            d.b(u"thread-two:: utf-16 buffer literal"_stbuf);
            d.s("two::{}|{>6}|{x}"_stfmt(3, "c", 253));
        }
        break;
    }
    case 37: {
        // error paths: the text of the exception belongs to the failing call alone
        auto what = [&](auto &&f) {
            try {
                f();
                d.raw("no-throw|", 9);
            } catch (const std::exception &e) {
                d.raw(e.what(), strlen(e.what()));
                d.raw("|", 1);
            }
        };
        static const char *const B64BAD[3] = {"QUJDREVGR0hJSktMTU5PU", "QUJDREVGR0hJSktMTU5PUFFSU1RVVldYWVowMTI", "QUJDR"};
        static const char *const HEXBAD[3] = {"00112233445566778899aabbccddeeffg0", "zz", "0011223344556677889"};
        static const char *const U8BAD[3] = {"valid prefix long enough \xC3", "\xFF", "abc\xE2\x82"};
        what([&] { (void)ST::base64_decode(ST::string::from_validated(B64BAD[salt], strlen(B64BAD[salt]))); });
        what([&] { (void)ST::hex_decode(ST::string::from_validated(HEXBAD[salt], strlen(HEXBAD[salt]))); });
        what([&] { (void)ST::string::from_utf8(U8BAD[salt], ST_AUTO_SIZE, ST::check_validity); });
        what([&] {
            char16_t bad[3] = {(char16_t)(0x41 + salt), 0xD800, 0};
            (void)ST::string::from_utf16(bad, 2, ST::check_validity);
        });
        what([&] {
            char32_t bad[2] = {(char32_t)(0x110000 + salt), 0};
            (void)ST::utf32_to_utf8(bad, 1, ST::check_validity);
        });
        what([&] { (void)ST::string::from_validated("a\xE2\x82\xAC", 4).to_latin_1(false); });
        char small[4];
        d.num(ST::base64_decode(ST::string::from_validated(B64BAD[salt], strlen(B64BAD[salt])), small, sizeof small));
        d.num(ST::hex_decode(sh->s_hex, small, sizeof small));
        break;
    }
    case 38: {
        auto what = [&](auto &&f) {
            try {
                f();
                d.raw("no-throw|", 9);
            } catch (const std::exception &e) {
                d.raw(e.what(), strlen(e.what()));
                d.raw("|", 1);
            }
        };
        what([&] { (void)ST::format(salt ? "{}{" : "{", 1); });
        what([&] { (void)ST::format(salt == 2 ? "{&4}" : "{}{}", 1 + salt); });
        what([&] { (void)ST::format("{z}", salt); });
        what([&] { (void)ST::format((const char *)nullptr); });
        what([&] { (void)ST::format("{.1}", salt ? "\xC3\xA9" : "\xE2\x82\xAC"); });
        what([&] { (void)ST::string::from_double(1.5 + salt, 'q'); });
        break;
    }
    case 40: {
        // every accessor a const object offers, on the objects all threads share
        const ST::string *ss[3] = {&S, &L, &sh->s_num};
        for (const ST::string *p : ss) {
            const ST::string &x = *p;
            d.raw(x.c_str(), x.size());
            d.raw(x.c_str("(empty)"), 3);
            d.raw(reinterpret_cast<const char *>(x.u8_str(u8"(empty)")), 3);
            d.raw(x.data(), 2);
            d.num((long long)x.size());
            d.num(x.empty());
            d.num(x.at(1) + x[0] + x.front() + x.back());
            long long acc = 0;
            for (auto it = x.begin(); it != x.end(); ++it) acc += (unsigned char)*it;
            for (auto it = x.rbegin(); it != x.rend(); ++it) acc ^= (unsigned char)*it;
            d.num(acc);
            std::string_view v = x.view(1, 4);
            d.raw(v.data(), v.size());
            d.num((x == ST::null) + (x != ST::null) * 2);
            d.num((long long)(x.to_std_string().size() + x.to_path().native().size()));
            d.num(x.to_bool() + x.to_int(salt ? 10 : 16));
        }
        const ST::char_buffer &cbuf = sh->cb;
        d.raw(cbuf.c_str(), 4);
        d.raw(cbuf.c_str("sub"), 3);
        d.raw(cbuf.data(), 4);
        d.num(cbuf.at(2) + cbuf[1] + cbuf.front() + cbuf.back());
        d.num((long long)cbuf.size() + cbuf.empty() + (cbuf == ST::null));
        {
            long long acc = 0;
            for (auto it = cbuf.begin(); it != cbuf.end(); ++it) acc += (unsigned char)*it;
            for (auto it = cbuf.crbegin(); it != cbuf.crend(); ++it) acc ^= (unsigned char)*it;
            d.num(acc);
            std::string_view v = cbuf.view(3, 5);
            d.raw(v.data(), v.size());
            d.num((long long)cbuf.to_std_string().size());
        }
        break;
    }
    case 39: {
        std::wostringstream wo;
        wo << L << S;
        // pad runs with a pad character of this thread's own
        ST::writef(wo, salt == 0 ? "{}|{>8}|{}|{_*12}|{<_-9}" : salt == 1 ? "{}|{>8}|{}|{_#12}|{<_+9}" : "{}|{>8}|{}|{_012}|{<_=9}", salt, "p\xC3\xA9", 1.5 * (salt + 1), 42 + salt, "ab");
        std::wstring w = wo.str();
        d.raw(w.data(), w.size() * sizeof(wchar_t));
        std::wistringstream wi(std::wstring(L"w\u00eft-token") + (wchar_t)(L'0' + salt) + L" rest");
        ST::string t;
        wi >> t;
        d.s(t);
        std::ostringstream os;
        ST::writef(os, salt == 0 ? "{x}|{}|{>_*20}|{<_.7}" : salt == 1 ? "{x}|{}|{>_#20}|{<_,7}" : "{x}|{}|{>20}|{<_;7}", 255 + salt, L, 77 + salt, "cd");
        std::string r = os.str();
        d.raw(r.data(), r.size());
        break;
    }
    case 41: {
        // repairs go through the library's clean-up buffers: inputs of this thread's own, in three size classes
        static const char *const SHORT8[3] = {"a\xFFz", "\xC3(", "\xE2\x82"};
        std::string med = std::string(salt ? "\x80" : "\xFF\xFF") + std::string(18 + 5 * salt, (char)('B' + salt)) + "\xE2\x82\xAC\xE2\x82";
        std::string lng = std::string(90 + 40 * salt, (char)('k' + salt)) + "\xF0\x9F" + std::string(30, '.') + "\xC0\xAF";
        d.s(ST::string(SHORT8[salt], ST_AUTO_SIZE, ST::substitute_invalid));
        d.s(ST::string(med.data(), med.size(), ST::substitute_invalid));
        d.s(ST::string::from_utf8(lng.data(), lng.size(), ST::substitute_invalid));
        ST::string t;
        t.set(med, ST::substitute_invalid);
        d.s(t);
        char16_t b16[40];
        for (int i = 0; i < 40; ++i) b16[i] = (char16_t)(i % 7 == salt ? 0xD800 + i : 0x100 + i + salt);
        d.s(ST::string::from_utf16(b16, 40, ST::substitute_invalid));
        d.s(ST::string(b16, 5, ST::substitute_invalid));
        char32_t b32[30];
        for (int i = 0; i < 30; ++i) b32[i] = (char32_t)(i % 5 == salt ? 0x110000 + i : 0x20AC + i + salt);
        d.s(ST::string::from_utf32(b32, 30, ST::substitute_invalid));
        d.b(ST::utf8_to_utf32(med.data(), med.size(), ST::substitute_invalid));
        d.b(ST::utf8_to_latin_1(lng.data(), lng.size(), ST::substitute_invalid));
        d.b(ST::utf32_to_utf16(b32, 30, ST::substitute_invalid));
        d.s(ST::format(ST::substitute_invalid, "{}|{}", med.c_str(), SHORT8[salt]));
        break;
    }
    case 42: {
        // every internal buffer boundary is crossed, by a different amount in every thread
        static const size_t LEN[3] = {300, 700, 4200};
        const size_t n = LEN[salt];
        std::string txt(n, (char)('p' + salt));
        ST::string big = ST::string::from_validated(txt.data(), txt.size());
        std::string f1 = "{}|{>" + std::to_string(n + 9) + "}|{}";
        d.h(ST::format(f1.c_str(), salt, "x", big));
        ST::string_stream ss;
        ss << big << salt;
        ss.append(txt.data(), txt.size());
        ss.append_char('-', n / 2);
        ss << 1.5 * (salt + 1) << -1234567 - salt;
        d.num((long long)ss.size());
        d.h(ss.to_string());
        ST::string acc;
        for (int i = 0; i < 6; ++i) acc += big.left(n / 5);
        d.h(acc);
        d.h(big.replace("p", "pq").replace(salt ? "q" : "r", "----"));
        d.num((long long)big.split((char)('p' + salt)).size());
        d.h(ST::hex_encode(txt.data(), n));
        d.h(ST::base64_encode(txt.data(), n));
        d.h(ST::string::from_utf16(big.to_utf16()));
        d.h(ST::string::from_validated(ST::latin_1_to_utf8(txt.data(), n)));
        std::ostringstream os;
        std::string f2 = "{}{<" + std::to_string(n) + "}";
        ST::writef(os, f2.c_str(), big, salt);
        d.num((long long)os.str().size());
        break;
    }
    case 43: {
        // every overload that turns a text argument into UTF-8 may use scratch storage of its own
        static const char *const N8[3] = {"alpha", "BRAVO", "charlie-charlie"};
        static const wchar_t *const NW[3] = {L"w-alpha \u00e9", L"W-BRAVO \u00e8", L"w-charlie \u00ea and more text"};
        static const char16_t *const N16[3] = {u"s-alpha \u00e9", u"S-BRAVO \u00e8", u"s-charlie \u00ea and more text"};
        static const char32_t *const N32[3] = {U"l-alpha \u20ac", U"L-BRAVO \u20ad", U"l-charlie \u20ae and more text"};
        std::string pre(250 + salt, '.');  // the arguments are appended where the stream crosses its in-object buffer
        std::string f = pre + "{}|{}|{}|{}|{>20}|{<12}|{}|{}";
        d.h(ST::format(f.c_str(), N8[salt], NW[salt], N16[salt], N32[salt], N32[(salt + 1) % 3], N16[(salt + 2) % 3], (const char8_t *)N8[salt], ST::string(N8[salt])));
        d.s(ST::format("{}|{}|{}|{}", std::string(N8[salt]), std::wstring(NW[salt]), std::u16string(N16[salt]), std::u32string(N32[salt])));
        d.s(ST::format("{}|{}|{}|{}", std::string_view(N8[salt]), std::wstring_view(NW[salt]), std::u16string_view(N16[salt]), std::u32string_view(N32[salt])));
        d.s(ST::format("{}|{}|{}|{}", ST::char_buffer(N8[salt], strlen(N8[salt])), ST::wchar_buffer(NW[salt], wcslen(NW[salt])),
                       ST::utf16_buffer(N16[salt], std::char_traits<char16_t>::length(N16[salt])),
                       ST::utf32_buffer(N32[salt], std::char_traits<char32_t>::length(N32[salt]))));
        d.s(ST::format("{c}|{c}|{c}|{c}|{}|{}", N8[salt][0], NW[salt][2], N16[salt][2], N32[salt][2], salt == 1, (void *)nullptr == nullptr));
        ST::string_stream ss;
        ss.append_char('-', 250 + salt);
        ss << N8[salt] << NW[salt] << N16[salt] << N32[salt] << std::u32string(N32[salt]) << std::wstring_view(NW[salt]) << N32[salt][2] << NW[salt][0];
        d.h(ss.to_string());
        d.s(ST::string(N32[salt]) + N16[salt] + NW[salt] + N8[salt]);
        break;
    }
    }
    d.end();
}

extern "C" C20Shared *c20_make_shared()
{
    C20Shared *sh = new C20Shared();
    sh->s_short = ST::string("Hello, World");
    sh->s_long = ST::string("  The quick brown fox jumps over the lazy dog, caf\xC3\xA9 \xE2\x82\xAC Hello, World");
    sh->s_num = ST::string("-12345xyz");
    sh->s_hexnum = ST::string("7fffFFFF");
    sh->s_dbl = ST::string("3.14159e10");
    sh->s_hex = ST::string("00ff10A5deadBEEF00112233445566778899aabbccddeeff");
    sh->s_b64 = ST::string("VGhlIHF1aWNrIGJyb3duIGZveCBqdW1wcyBvdmVyIHRoZSBsYXp5IGRvZw==");
    char raw[45];
    for (int i = 0; i < 45; ++i) raw[i] = (char)(i * 37 + 11);
    sh->cb = ST::char_buffer(raw, sizeof raw);
    return sh;
}

// bytes of the shared objects (the struct itself and every heap block it owns), for before/after comparison
extern "C" size_t c20_shared_image(const C20Shared *sh, char *buf, size_t cap)
{
    size_t n = 0;
    auto put = [&](const void *p, size_t len) {
        if (n + len <= cap) memcpy(buf + n, p, len);
        n += len;
    };
    put(sh, sizeof *sh);
    const ST::string *ss[] = {&sh->s_short, &sh->s_long, &sh->s_num, &sh->s_hexnum, &sh->s_dbl, &sh->s_hex, &sh->s_b64};
    for (auto s : ss) put(s->c_str(), s->size() + 1);
    put(sh->cb.data(), sh->cb.size() + 1);
    return n <= cap ? n : cap;
}
